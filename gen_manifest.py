#!/usr/bin/env python3
"""Generates MANIFEST.json from checks.json + manifest_meta.json (levels, notes, not_applicable)."""
import json, subprocess
cfg = json.load(open('/verif/checks.json'))
meta = json.load(open('/verif/manifest_meta.json'))
hooks = subprocess.run(['git','-C','/repo','log','--format=%H %s'],capture_output=True,text=True).stdout.splitlines()
hook_commits = [l.split()[0] for l in hooks if 'verif hook' in l]
checks = []
for pid in sorted(cfg['checks']):
    c = cfg['checks'][pid]; m = meta['checks'][pid]
    checks.append({
        "property_id": pid,
        "quick_cmd": "./check %s quick" % pid,
        "thorough_cmd": "./check %s thorough" % pid,
        "evidence_file": "/verif/evidence/%s.json" % pid,
        "replay_cmd_template": "./check %s --replay {path}" % pid,
        "engine": c['engine'],
        "level_claimed": {"category": c['level'], "text": m['level_text'], "design_ref": m.get('design_ref', 'DESIGN.md section 6 ' + pid)},
        "level_note": m['level_note'],
        "technique": m.get('technique', 'deterministic simulation with fault injection: seeded search over schedules and fault sequences'),
    })
engines = {}
for pid, c in cfg['checks'].items():
    engines.setdefault(c['engine'], []).append(pid)
man = {
    "version": 1,
    "setup_cmd": "./check build",
    "hooks": {"guard": "verif", "enable": "go1.26.8 test -tags verif (GOTOOLCHAIN=local GOFLAGS=-mod=mod; harness module /verif/sim replaces github.com/youzan/ZanRedisDB => /repo)",
              "baseline_off_cmd": meta['baseline_off_cmd'], "source_commits": hook_commits, "add_only": True},
    "engines": [{"name": e, "path": "/verif/sim/" + e, "serves_properties": sorted(ps), "kind_free_text": meta['engines'].get(e, '')} for e, ps in sorted(engines.items())],
    "checks": checks,
    "notes": meta['notes'],
    "not_applicable": meta['not_applicable'],
}
json.dump(man, open('/verif/MANIFEST.json', 'w'), indent=1)
print("MANIFEST.json: %d checks, %d not_applicable, hooks %s" % (len(checks), len(man['not_applicable']), hook_commits))
