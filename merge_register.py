#!/usr/bin/env python3
"""merge sim/<engine>/REGISTER.json into checks.json, manifest_meta.json, known_findings.json"""
import json, sys
eng = sys.argv[1]
r = json.load(open('/verif/sim/%s/REGISTER.json' % eng))
c = json.load(open('/verif/checks.json'))
m = json.load(open('/verif/manifest_meta.json'))
k = json.load(open('/verif/known_findings.json'))
for pid, e in r.get('checks', {}).items():
    c['checks'][pid] = e
    print('check', pid, e.get('engine'), e.get('level'))
for pid, e in r.get('meta', {}).items():
    m['checks'][pid] = e
    m['not_applicable'] = [x for x in m['not_applicable'] if x['property_id'] != pid]
for en, txt in (r.get('engines') or {}).items():
    m['engines'][en] = txt if isinstance(txt, str) else txt.get('kind_free_text', str(txt))
have = set((f['property'], f['key']) for f in k['findings'])
for f in r.get('known_findings', []):
    if (f['property'], f['key']) in have: continue
    f.setdefault('status', 'known')
    k['findings'].append(f)
    print('known finding', f['property'], f['key'])
json.dump(c, open('/verif/checks.json', 'w'), indent=1)
json.dump(m, open('/verif/manifest_meta.json', 'w'), indent=1)
json.dump(k, open('/verif/known_findings.json', 'w'), indent=1)
