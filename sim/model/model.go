// Package model is a small executable reference model of the documented
// command set on ZanRedisDB's per-type keyspaces (doc/user-guide.md + Redis
// semantics). It is written from the documentation, not from the
// implementation. Keys are "table:key" strings per type; one Store models one
// namespace (or one partition).
//
// Documented deviations from Redis that are modelled (doc/user-guide.md):
//   - every data type has its own keyspace: the same key name may hold a
//     string, a hash, a list, a set and a sorted set at the same time and no
//     command ever answers WRONGTYPE;
//   - DEL / EXISTS / MGET (and EXPIRE/TTL/PERSIST, not modelled) work on the
//     string (KV) keyspace only; collections are removed / probed with the
//     extension commands HCLEAR LCLEAR SCLEAR ZCLEAR (reply: number of keys
//     removed, 0 or 1, like DEL of one key) and HKEYEXIST LKEYEXIST SKEYEXIST
//     ZKEYEXIST (reply 0 or 1, like EXISTS of one key);
//   - SPOP and SRANDMEMBER take members in key (byte) order;
//   - enumerating replies (HGETALL HKEYS HVALS SMEMBERS) come in byte order of
//     the field / member (Redis leaves the order unspecified).
//
// Expiry is not modelled here (SETEX / SET .. EX store the value; the caller
// must not let the clock reach the expiry).
package model

import (
	"fmt"
	"math"
	"sort"
	"strconv"
	"strings"
)

// Replies use the same Go types as nodeh: nil, int64, string (simple
// string), []byte (bulk), Err, []interface{}.
type Err string

type zmember struct {
	m string
	s float64
}

type Store struct {
	KV   map[string]string
	List map[string][]string
	Hash map[string]map[string]string
	Set  map[string]map[string]bool
	ZSet map[string]map[string]float64
}

func New() *Store {
	return &Store{KV: map[string]string{}, List: map[string][]string{}, Hash: map[string]map[string]string{},
		Set: map[string]map[string]bool{}, ZSet: map[string]map[string]float64{}}
}

// Clone returns a deep copy.
func (st *Store) Clone() *Store {
	n := New()
	for k, v := range st.KV {
		n.KV[k] = v
	}
	for k, v := range st.List {
		n.List[k] = append([]string{}, v...)
	}
	for k, v := range st.Hash {
		m := map[string]string{}
		for f, x := range v {
			m[f] = x
		}
		n.Hash[k] = m
	}
	for k, v := range st.Set {
		m := map[string]bool{}
		for f, x := range v {
			m[f] = x
		}
		n.Set[k] = m
	}
	for k, v := range st.ZSet {
		m := map[string]float64{}
		for f, x := range v {
			m[f] = x
		}
		n.ZSet[k] = m
	}
	return n
}

func bulk(s string) interface{} { return []byte(s) }

func sortedKeys(m map[string]string) []string {
	ks := make([]string, 0, len(m))
	for k := range m {
		ks = append(ks, k)
	}
	sort.Strings(ks)
	return ks
}

func sortedSet(m map[string]bool) []string {
	ks := make([]string, 0, len(m))
	for k := range m {
		ks = append(ks, k)
	}
	sort.Strings(ks)
	return ks
}

// FmtScore renders a score the way redis does for integers and simple floats.
func FmtScore(f float64) string { return strconv.FormatFloat(f, 'g', -1, 64) }

// parseInt is Redis' string2ll: an optional '-', then digits without a
// superfluous leading zero; no '+', no spaces, no empty string.
func parseInt(s string) (int64, bool) {
	if s == "" {
		return 0, false
	}
	d := s
	if d[0] == '-' {
		d = d[1:]
	}
	if d == "" || (len(d) > 1 && d[0] == '0') || (d == "0" && s[0] == '-') {
		return 0, false
	}
	for i := 0; i < len(d); i++ {
		if d[i] < '0' || d[i] > '9' {
			return 0, false
		}
	}
	v, err := strconv.ParseInt(s, 10, 64)
	return v, err == nil
}

// parseScore is Redis' strtod-based score parsing: decimal floats and
// (+|-)inf; NaN is refused.
func parseScore(s string) (float64, bool) {
	if s == "" || s[0] == ' ' || s[len(s)-1] == ' ' {
		return 0, false
	}
	switch strings.ToLower(s) {
	case "inf", "+inf", "infinity", "+infinity":
		return math.Inf(1), true
	case "-inf", "-infinity":
		return math.Inf(-1), true
	}
	for i := 0; i < len(s); i++ {
		c := s[i]
		if !(c >= '0' && c <= '9') && c != '.' && c != '-' && c != '+' && c != 'e' && c != 'E' {
			return 0, false
		}
	}
	v, err := strconv.ParseFloat(s, 64)
	if err != nil || math.IsNaN(v) {
		return 0, false
	}
	return v, true
}

func addOverflows(a, b int64) bool {
	return (b > 0 && a > math.MaxInt64-b) || (b < 0 && a < math.MinInt64-b)
}

// rng clamps a Redis start/stop index pair to [0,n); ok=false means empty.
func rng(s, e, n int64) (int64, int64, bool) {
	if s < 0 {
		s += n
	}
	if e < 0 {
		e += n
	}
	if s < 0 {
		s = 0
	}
	if e >= n {
		e = n - 1
	}
	if n == 0 || s > e || s >= n {
		return 0, 0, false
	}
	return s, e, true
}

func (st *Store) zsorted(k string) []zmember {
	var ms []zmember
	for m, s := range st.ZSet[k] {
		ms = append(ms, zmember{m, s})
	}
	sort.Slice(ms, func(i, j int) bool {
		if ms[i].s != ms[j].s {
			return ms[i].s < ms[j].s
		}
		return ms[i].m < ms[j].m
	})
	return ms
}

func (st *Store) zlexsorted(k string) []string {
	ms := make([]string, 0, len(st.ZSet[k]))
	for m := range st.ZSet[k] {
		ms = append(ms, m)
	}
	sort.Strings(ms)
	return ms
}

type scoreBound struct {
	v  float64
	ex bool
}

func parseScoreBound(s string) (scoreBound, bool) {
	var b scoreBound
	if strings.HasPrefix(s, "(") {
		b.ex = true
		s = s[1:]
	}
	v, ok := parseScore(s)
	b.v = v
	return b, ok
}

func inScore(x float64, lo, hi scoreBound) bool {
	if lo.ex {
		if !(x > lo.v) {
			return false
		}
	} else if !(x >= lo.v) {
		return false
	}
	if hi.ex {
		return x < hi.v
	}
	return x <= hi.v
}

type lexBound struct {
	v   string
	ex  bool
	inf int // -1: "-", +1: "+"
}

func parseLexBound(s string) (lexBound, bool) {
	switch {
	case s == "-":
		return lexBound{inf: -1}, true
	case s == "+":
		return lexBound{inf: 1}, true
	case strings.HasPrefix(s, "("):
		return lexBound{v: s[1:], ex: true}, true
	case strings.HasPrefix(s, "["):
		return lexBound{v: s[1:]}, true
	}
	return lexBound{}, false
}

func inLex(x string, lo, hi lexBound) bool {
	switch {
	case lo.inf > 0:
		return false
	case lo.inf == 0 && lo.ex && !(x > lo.v):
		return false
	case lo.inf == 0 && !lo.ex && !(x >= lo.v):
		return false
	}
	switch {
	case hi.inf < 0:
		return false
	case hi.inf == 0 && hi.ex && !(x < hi.v):
		return false
	case hi.inf == 0 && !hi.ex && !(x <= hi.v):
		return false
	}
	return true
}

// limit applies LIMIT offset count to n selected elements: the index window.
func limit(n int, off, cnt int64) (int, int) {
	if off < 0 || off >= int64(n) {
		return 0, 0
	}
	end := int64(n)
	if cnt >= 0 && off+cnt < end {
		end = off + cnt
	}
	return int(off), int(end)
}

// parseLimit parses an optional trailing "LIMIT offset count".
func parseLimit(a []string) (off, cnt int64, ok bool) {
	off, cnt = 0, -1
	if len(a) == 0 {
		return off, cnt, true
	}
	if len(a) != 3 || strings.ToLower(a[0]) != "limit" {
		return 0, 0, false
	}
	o, ok1 := parseInt(a[1])
	c, ok2 := parseInt(a[2])
	return o, c, ok1 && ok2
}

func (st *Store) zdropEmpty(k string) {
	if z, ok := st.ZSet[k]; ok && len(z) == 0 {
		delete(st.ZSet, k)
	}
}

func b2i(b bool) interface{} {
	if b {
		return int64(1)
	}
	return int64(0)
}

// Apply executes one command (args[0] lower-case name, args[1] key without
// namespace) and returns the reply. Unknown commands return Err("unknown").
// A command that returns Err leaves the store unchanged.
func (st *Store) Apply(args []string) interface{} {
	if len(args) < 2 {
		return Err("args")
	}
	name, k := strings.ToLower(args[0]), args[1]
	a := args[2:]
	// documented: a key must be namespace:table:real-key (the namespace is
	// cut by the caller), otherwise the command fails
	if MultiKey(name) {
		for _, kk := range args[1:] {
			if !validKey(kk) {
				return Err("key format")
			}
		}
	} else if !validKey(k) {
		return Err("key format")
	}
	// a field or member name longer than common.MaxSubKeyLen is refused (and
	// the command changes nothing, whatever came before it in the argument list)
	if subKeyTooLong(name, a) && !(name == "hdel" && len(st.Hash[k]) == 0) {
		// (HDEL on a hash that does not exist answers 0 before it looks at its arguments)
		return Err("sub key too long")
	}
	switch name {
	// ---- KV ----
	case "set":
		if len(a) < 1 {
			return Err("args")
		}
		nx, xx := false, false
		for i := 1; i < len(a); i++ {
			switch strings.ToLower(a[i]) {
			case "nx":
				nx = true
			case "xx":
				xx = true
			case "ex":
				if i+1 >= len(a) {
					return Err("syntax")
				}
				s, ok := parseInt(a[i+1])
				if !ok || s <= 0 {
					return Err("invalid expire")
				}
				i++
			default:
				return Err("syntax")
			}
		}
		if nx && xx {
			return Err("syntax")
		}
		_, had := st.KV[k]
		if (nx && had) || (xx && !had) {
			return nil
		}
		st.KV[k] = a[0]
		return "OK"
	case "setex":
		if len(a) != 2 {
			return Err("args")
		}
		s, ok := parseInt(a[0])
		if !ok || s <= 0 {
			return Err("invalid expire")
		}
		st.KV[k] = a[1]
		return "OK"
	case "get":
		if len(a) != 0 {
			return Err("args")
		}
		if v, ok := st.KV[k]; ok {
			return bulk(v)
		}
		return nil
	case "getset":
		if len(a) != 1 {
			return Err("args")
		}
		old, ok := st.KV[k]
		st.KV[k] = a[0]
		if ok {
			return bulk(old)
		}
		return nil
	case "setnx":
		if len(a) != 1 {
			return Err("args")
		}
		if _, ok := st.KV[k]; ok {
			return int64(0)
		}
		st.KV[k] = a[0]
		return int64(1)
	case "append":
		if len(a) != 1 {
			return Err("args")
		}
		st.KV[k] += a[0]
		return int64(len(st.KV[k]))
	case "strlen":
		if len(a) != 0 {
			return Err("args")
		}
		return int64(len(st.KV[k]))
	case "setrange":
		if len(a) != 2 {
			return Err("args")
		}
		off, ok := parseInt(a[0])
		if !ok || off < 0 {
			return Err("offset")
		}
		cur, had := st.KV[k]
		if a[1] == "" {
			return int64(len(cur))
		}
		if off+int64(len(a[1])) > 512<<20 {
			return Err("too long")
		}
		_ = had
		b := []byte(cur)
		for int64(len(b)) < off+int64(len(a[1])) {
			b = append(b, 0)
		}
		copy(b[off:], a[1])
		st.KV[k] = string(b)
		return int64(len(b))
	case "getrange":
		if len(a) != 2 {
			return Err("args")
		}
		s, ok1 := parseInt(a[0])
		e, ok2 := parseInt(a[1])
		if !ok1 || !ok2 {
			return Err("not int")
		}
		v := st.KV[k]
		n := int64(len(v))
		// Redis getrangeCommand, literally (note: a negative end beyond the
		// beginning is clamped to 0, not to "empty")
		if s < 0 && e < 0 && s > e {
			return bulk("")
		}
		if s < 0 {
			s += n
		}
		if e < 0 {
			e += n
		}
		if s < 0 {
			s = 0
		}
		if e < 0 {
			e = 0
		}
		if e >= n {
			e = n - 1
		}
		if n == 0 || s > e {
			return bulk("")
		}
		return bulk(v[s : e+1])
	case "incr", "incrby", "decr", "decrby":
		by := int64(1)
		if name == "incrby" || name == "decrby" {
			if len(a) != 1 {
				return Err("args")
			}
			v, ok := parseInt(a[0])
			if !ok {
				return Err("not int")
			}
			by = v
		} else if len(a) != 0 {
			return Err("args")
		}
		if name == "decr" || name == "decrby" {
			if by == math.MinInt64 {
				return Err("overflow")
			}
			by = -by
		}
		cur := int64(0)
		if v, ok := st.KV[k]; ok {
			c, ok2 := parseInt(v)
			if !ok2 {
				return Err("not int")
			}
			cur = c
		}
		if addOverflows(cur, by) {
			return Err("overflow")
		}
		cur += by
		st.KV[k] = strconv.FormatInt(cur, 10)
		return cur
	case "del":
		n := int64(0)
		for _, kk := range args[1:] {
			if _, ok := st.KV[kk]; ok {
				delete(st.KV, kk)
				n++
			}
		}
		return n
	case "exists":
		n := int64(0)
		for _, kk := range args[1:] {
			if _, ok := st.KV[kk]; ok {
				n++
			}
		}
		return n
	case "mget":
		out := []interface{}{}
		for _, kk := range args[1:] {
			if v, ok := st.KV[kk]; ok {
				out = append(out, bulk(v))
			} else {
				out = append(out, nil)
			}
		}
		return out
	// ---- list ----
	case "lpush", "rpush":
		if len(a) < 1 {
			return Err("args")
		}
		l := st.List[k]
		for _, v := range a {
			if name == "lpush" {
				l = append([]string{v}, l...)
			} else {
				l = append(l, v)
			}
		}
		st.List[k] = l
		return int64(len(l))
	case "lpop", "rpop":
		if len(a) != 0 {
			return Err("args")
		}
		l := st.List[k]
		if len(l) == 0 {
			return nil
		}
		var v string
		if name == "lpop" {
			v, l = l[0], l[1:]
		} else {
			v, l = l[len(l)-1], l[:len(l)-1]
		}
		if len(l) == 0 {
			delete(st.List, k)
		} else {
			st.List[k] = l
		}
		return bulk(v)
	case "llen":
		if len(a) != 0 {
			return Err("args")
		}
		return int64(len(st.List[k]))
	case "lindex":
		if len(a) != 1 {
			return Err("args")
		}
		i, ok := parseInt(a[0])
		if !ok {
			return Err("not int")
		}
		l := st.List[k]
		if i < 0 {
			i += int64(len(l))
		}
		if i < 0 || i >= int64(len(l)) {
			return nil
		}
		return bulk(l[i])
	case "lrange":
		if len(a) != 2 {
			return Err("args")
		}
		s, ok1 := parseInt(a[0])
		e, ok2 := parseInt(a[1])
		if !ok1 || !ok2 {
			return Err("not int")
		}
		l := st.List[k]
		out := []interface{}{}
		s2, e2, ok := rng(s, e, int64(len(l)))
		if !ok {
			return out
		}
		for i := s2; i <= e2; i++ {
			out = append(out, bulk(l[i]))
		}
		return out
	case "lset":
		if len(a) != 2 {
			return Err("args")
		}
		i, ok := parseInt(a[0])
		if !ok {
			return Err("not int")
		}
		l, had := st.List[k]
		if !had {
			return Err("no such key")
		}
		if i < 0 {
			i += int64(len(l))
		}
		if i < 0 || i >= int64(len(l)) {
			return Err("index out of range")
		}
		nl := append([]string{}, l...)
		nl[i] = a[1]
		st.List[k] = nl
		return "OK"
	case "ltrim":
		if len(a) != 2 {
			return Err("args")
		}
		s, ok1 := parseInt(a[0])
		e, ok2 := parseInt(a[1])
		if !ok1 || !ok2 {
			return Err("not int")
		}
		l, had := st.List[k]
		if !had {
			return "OK"
		}
		s2, e2, ok := rng(s, e, int64(len(l)))
		if !ok {
			delete(st.List, k)
			return "OK"
		}
		st.List[k] = append([]string{}, l[s2:e2+1]...)
		return "OK"
	case "lclear":
		if len(a) != 0 {
			return Err("args")
		}
		_, had := st.List[k]
		delete(st.List, k)
		return b2i(had)
	case "lkeyexist":
		if len(a) != 0 {
			return Err("args")
		}
		_, had := st.List[k]
		return b2i(had)
	// ---- hash ----
	case "hset":
		if len(a) != 2 {
			return Err("args")
		}
		h := st.Hash[k]
		if h == nil {
			h = map[string]string{}
			st.Hash[k] = h
		}
		_, had := h[a[0]]
		h[a[0]] = a[1]
		if had {
			return int64(0)
		}
		return int64(1)
	case "hsetnx":
		if len(a) != 2 {
			return Err("args")
		}
		h := st.Hash[k]
		if h == nil {
			h = map[string]string{}
			st.Hash[k] = h
		}
		if _, had := h[a[0]]; had {
			return int64(0)
		}
		h[a[0]] = a[1]
		return int64(1)
	case "hmset":
		if len(a) < 2 || len(a)%2 != 0 {
			return Err("args")
		}
		h := st.Hash[k]
		if h == nil {
			h = map[string]string{}
			st.Hash[k] = h
		}
		for i := 0; i < len(a); i += 2 {
			h[a[i]] = a[i+1]
		}
		return "OK"
	case "hget":
		if len(a) != 1 {
			return Err("args")
		}
		if v, ok := st.Hash[k][a[0]]; ok {
			return bulk(v)
		}
		return nil
	case "hmget":
		if len(a) < 1 {
			return Err("args")
		}
		out := []interface{}{}
		for _, f := range a {
			if v, ok := st.Hash[k][f]; ok {
				out = append(out, bulk(v))
			} else {
				out = append(out, nil)
			}
		}
		return out
	case "hexists":
		if len(a) != 1 {
			return Err("args")
		}
		_, ok := st.Hash[k][a[0]]
		return b2i(ok)
	case "hdel":
		if len(a) < 1 {
			return Err("args")
		}
		n := int64(0)
		h := st.Hash[k]
		for _, f := range a {
			if _, ok := h[f]; ok {
				delete(h, f)
				n++
			}
		}
		if h != nil && len(h) == 0 {
			delete(st.Hash, k)
		}
		return n
	case "hincrby":
		if len(a) != 2 {
			return Err("args")
		}
		by, ok := parseInt(a[1])
		if !ok {
			return Err("not int")
		}
		h := st.Hash[k]
		cur := int64(0)
		if v, ok := h[a[0]]; ok {
			c, ok2 := parseInt(v)
			if !ok2 {
				return Err("not int")
			}
			cur = c
		}
		if addOverflows(cur, by) {
			return Err("overflow")
		}
		if h == nil {
			h = map[string]string{}
			st.Hash[k] = h
		}
		cur += by
		h[a[0]] = strconv.FormatInt(cur, 10)
		return cur
	case "hlen":
		if len(a) != 0 {
			return Err("args")
		}
		return int64(len(st.Hash[k]))
	case "hgetall":
		if len(a) != 0 {
			return Err("args")
		}
		out := []interface{}{}
		for _, f := range sortedKeys(st.Hash[k]) {
			out = append(out, bulk(f), bulk(st.Hash[k][f]))
		}
		return out
	case "hkeys":
		if len(a) != 0 {
			return Err("args")
		}
		out := []interface{}{}
		for _, f := range sortedKeys(st.Hash[k]) {
			out = append(out, bulk(f))
		}
		return out
	case "hvals":
		if len(a) != 0 {
			return Err("args")
		}
		out := []interface{}{}
		for _, f := range sortedKeys(st.Hash[k]) {
			out = append(out, bulk(st.Hash[k][f]))
		}
		return out
	case "hclear":
		if len(a) != 0 {
			return Err("args")
		}
		_, had := st.Hash[k]
		delete(st.Hash, k)
		return b2i(had)
	case "hkeyexist":
		if len(a) != 0 {
			return Err("args")
		}
		_, had := st.Hash[k]
		return b2i(had)
	// ---- set ----
	case "sadd":
		if len(a) < 1 {
			return Err("args")
		}
		s := st.Set[k]
		if s == nil {
			s = map[string]bool{}
			st.Set[k] = s
		}
		n := int64(0)
		for _, m := range a {
			if !s[m] {
				s[m] = true
				n++
			}
		}
		return n
	case "srem":
		if len(a) < 1 {
			return Err("args")
		}
		s := st.Set[k]
		n := int64(0)
		for _, m := range a {
			if s[m] {
				delete(s, m)
				n++
			}
		}
		if s != nil && len(s) == 0 {
			delete(st.Set, k)
		}
		return n
	case "scard":
		if len(a) != 0 {
			return Err("args")
		}
		return int64(len(st.Set[k]))
	case "sismember":
		if len(a) != 1 {
			return Err("args")
		}
		return b2i(st.Set[k][a[0]])
	case "smembers":
		if len(a) != 0 {
			return Err("args")
		}
		out := []interface{}{}
		for _, m := range sortedSet(st.Set[k]) {
			out = append(out, bulk(m))
		}
		return out
	case "spop":
		// documented deviation: members are taken in key order
		if len(a) > 1 {
			return Err("args")
		}
		s := st.Set[k]
		ms := sortedSet(s)
		if len(a) == 1 {
			cnt, ok := parseInt(a[0])
			if !ok || cnt < 0 {
				return Err("count")
			}
			out := []interface{}{}
			for i := 0; i < len(ms) && int64(i) < cnt; i++ {
				delete(s, ms[i])
				out = append(out, bulk(ms[i]))
			}
			if s != nil && len(s) == 0 {
				delete(st.Set, k)
			}
			return out
		}
		if len(s) == 0 {
			return nil
		}
		delete(s, ms[0])
		if len(s) == 0 {
			delete(st.Set, k)
		}
		return bulk(ms[0])
	case "srandmember":
		// documented deviation: members are returned in key order
		if len(a) > 1 {
			return Err("args")
		}
		ms := sortedSet(st.Set[k])
		if len(a) == 0 {
			if len(ms) == 0 {
				return nil
			}
			return bulk(ms[0])
		}
		cnt, ok := parseInt(a[0])
		if !ok {
			return Err("count")
		}
		out := []interface{}{}
		if cnt < 0 {
			// Redis: |count| elements, repetition allowed; in key order that is
			// unspecified here, the caller must not compare contents
			return Err("negative count not modelled")
		}
		for i := 0; i < len(ms) && int64(i) < cnt; i++ {
			out = append(out, bulk(ms[i]))
		}
		return out
	case "sclear":
		if len(a) != 0 {
			return Err("args")
		}
		_, had := st.Set[k]
		delete(st.Set, k)
		return b2i(had)
	case "skeyexist":
		if len(a) != 0 {
			return Err("args")
		}
		_, had := st.Set[k]
		return b2i(had)
	// ---- zset ----
	case "zadd":
		if len(a) < 2 || len(a)%2 != 0 {
			return Err("args")
		}
		for i := 0; i < len(a); i += 2 {
			if _, ok := parseScore(a[i]); !ok {
				return Err("not float")
			}
		}
		z := st.ZSet[k]
		if z == nil {
			z = map[string]float64{}
			st.ZSet[k] = z
		}
		n := int64(0)
		for i := 0; i < len(a); i += 2 {
			sc, _ := parseScore(a[i])
			if _, ok := z[a[i+1]]; !ok {
				n++
			}
			z[a[i+1]] = sc
		}
		return n
	case "zincrby":
		if len(a) != 2 {
			return Err("args")
		}
		by, ok := parseScore(a[0])
		if !ok {
			return Err("not float")
		}
		z := st.ZSet[k]
		if math.IsNaN(z[a[1]] + by) {
			return Err("nan")
		}
		if z == nil {
			z = map[string]float64{}
			st.ZSet[k] = z
		}
		z[a[1]] += by
		return bulk(FmtScore(z[a[1]]))
	case "zrem":
		if len(a) < 1 {
			return Err("args")
		}
		z := st.ZSet[k]
		n := int64(0)
		for _, m := range a {
			if _, ok := z[m]; ok {
				delete(z, m)
				n++
			}
		}
		st.zdropEmpty(k)
		return n
	case "zcard":
		if len(a) != 0 {
			return Err("args")
		}
		return int64(len(st.ZSet[k]))
	case "zscore":
		if len(a) != 1 {
			return Err("args")
		}
		if s, ok := st.ZSet[k][a[0]]; ok {
			return bulk(FmtScore(s))
		}
		return nil
	case "zrank", "zrevrank":
		if len(a) != 1 {
			return Err("args")
		}
		ms := st.zsorted(k)
		for i, x := range ms {
			if x.m == a[0] {
				if name == "zrank" {
					return int64(i)
				}
				return int64(len(ms) - 1 - i)
			}
		}
		return nil
	case "zrange", "zrevrange":
		if len(a) != 2 && len(a) != 3 {
			return Err("args")
		}
		s, ok1 := parseInt(a[0])
		e, ok2 := parseInt(a[1])
		if !ok1 || !ok2 {
			return Err("not int")
		}
		ws := false
		if len(a) == 3 {
			if strings.ToLower(a[2]) != "withscores" {
				return Err("syntax")
			}
			ws = true
		}
		ms := st.zsorted(k)
		if name == "zrevrange" {
			for i, j := 0, len(ms)-1; i < j; i, j = i+1, j-1 {
				ms[i], ms[j] = ms[j], ms[i]
			}
		}
		out := []interface{}{}
		s2, e2, ok := rng(s, e, int64(len(ms)))
		if !ok {
			return out
		}
		for i := s2; i <= e2; i++ {
			out = append(out, bulk(ms[i].m))
			if ws {
				out = append(out, bulk(FmtScore(ms[i].s)))
			}
		}
		return out
	case "zrangebyscore", "zrevrangebyscore", "zcount", "zremrangebyscore":
		if len(a) < 2 {
			return Err("args")
		}
		los, his := a[0], a[1]
		if name == "zrevrangebyscore" {
			los, his = a[1], a[0]
		}
		lo, ok1 := parseScoreBound(los)
		hi, ok2 := parseScoreBound(his)
		if !ok1 || !ok2 {
			return Err("min or max is not a float")
		}
		var sel []zmember
		for _, x := range st.zsorted(k) {
			if inScore(x.s, lo, hi) {
				sel = append(sel, x)
			}
		}
		switch name {
		case "zcount":
			if len(a) != 2 {
				return Err("args")
			}
			return int64(len(sel))
		case "zremrangebyscore":
			if len(a) != 2 {
				return Err("args")
			}
			for _, x := range sel {
				delete(st.ZSet[k], x.m)
			}
			st.zdropEmpty(k)
			return int64(len(sel))
		}
		rest := a[2:]
		ws := false
		if len(rest) > 0 && strings.ToLower(rest[0]) == "withscores" {
			ws = true
			rest = rest[1:]
		}
		off, cnt, ok := parseLimit(rest)
		if !ok {
			return Err("syntax")
		}
		if name == "zrevrangebyscore" {
			for i, j := 0, len(sel)-1; i < j; i, j = i+1, j-1 {
				sel[i], sel[j] = sel[j], sel[i]
			}
		}
		from, to := limit(len(sel), off, cnt)
		out := []interface{}{}
		for _, x := range sel[from:to] {
			out = append(out, bulk(x.m))
			if ws {
				out = append(out, bulk(FmtScore(x.s)))
			}
		}
		return out
	case "zrangebylex", "zlexcount", "zremrangebylex":
		// Redis defines the lexicographic commands for sets whose members all
		// have the same score; the model orders by member bytes alone, which
		// is the same thing there.
		if len(a) < 2 {
			return Err("args")
		}
		lo, ok1 := parseLexBound(a[0])
		hi, ok2 := parseLexBound(a[1])
		if !ok1 || !ok2 {
			return Err("min or max not valid string range item")
		}
		var sel []string
		for _, m := range st.zlexsorted(k) {
			if inLex(m, lo, hi) {
				sel = append(sel, m)
			}
		}
		switch name {
		case "zlexcount":
			if len(a) != 2 {
				return Err("args")
			}
			return int64(len(sel))
		case "zremrangebylex":
			if len(a) != 2 {
				return Err("args")
			}
			for _, m := range sel {
				delete(st.ZSet[k], m)
			}
			st.zdropEmpty(k)
			return int64(len(sel))
		}
		off, cnt, ok := parseLimit(a[2:])
		if !ok {
			return Err("syntax")
		}
		from, to := limit(len(sel), off, cnt)
		out := []interface{}{}
		for _, m := range sel[from:to] {
			out = append(out, bulk(m))
		}
		return out
	case "zremrangebyrank":
		if len(a) != 2 {
			return Err("args")
		}
		s, ok1 := parseInt(a[0])
		e, ok2 := parseInt(a[1])
		if !ok1 || !ok2 {
			return Err("not int")
		}
		ms := st.zsorted(k)
		s2, e2, ok := rng(s, e, int64(len(ms)))
		if !ok {
			return int64(0)
		}
		for i := s2; i <= e2; i++ {
			delete(st.ZSet[k], ms[i].m)
		}
		st.zdropEmpty(k)
		return e2 - s2 + 1
	case "zclear":
		if len(a) != 0 {
			return Err("args")
		}
		_, had := st.ZSet[k]
		delete(st.ZSet, k)
		return b2i(had)
	case "zkeyexist":
		if len(a) != 0 {
			return Err("args")
		}
		_, had := st.ZSet[k]
		return b2i(had)
	}
	return Err("unknown command " + name)
}

// TypeOf returns the keyspace a command works on.
func TypeOf(name string) string {
	switch strings.ToLower(name) {
	case "set", "setex", "get", "getset", "setnx", "append", "strlen", "setrange", "getrange", "incr", "incrby", "decr", "decrby",
		"del", "exists", "mget":
		return "kv"
	case "lpush", "rpush", "lpop", "rpop", "llen", "lindex", "lrange", "lset", "ltrim", "lclear", "lkeyexist":
		return "list"
	case "hset", "hsetnx", "hmset", "hget", "hmget", "hexists", "hdel", "hincrby", "hlen", "hgetall", "hkeys", "hvals", "hclear", "hkeyexist":
		return "hash"
	case "sadd", "srem", "scard", "sismember", "smembers", "spop", "srandmember", "sclear", "skeyexist":
		return "set"
	case "zadd", "zincrby", "zrem", "zcard", "zscore", "zrank", "zrevrank", "zrange", "zrevrange", "zrangebyscore", "zrevrangebyscore",
		"zcount", "zrangebylex", "zlexcount", "zremrangebyrank", "zremrangebyscore", "zremrangebylex", "zclear", "zkeyexist":
		return "zset"
	}
	return ""
}

// validKey: table:key with a non-empty table.
func validKey(k string) bool { return strings.IndexByte(k, ':') > 0 }

// MultiKey reports commands whose arguments after the name are all keys.
func MultiKey(name string) bool {
	switch strings.ToLower(name) {
	case "del", "exists", "mget":
		return true
	}
	return false
}

// IsRead reports commands that never change state.
func IsRead(name string) bool {
	switch strings.ToLower(name) {
	case "get", "exists", "mget", "strlen", "getrange",
		"llen", "lrange", "lindex", "lkeyexist",
		"hget", "hmget", "hexists", "hlen", "hgetall", "hkeys", "hvals", "hkeyexist",
		"scard", "sismember", "smembers", "srandmember", "skeyexist",
		"zcard", "zscore", "zrank", "zrevrank", "zrange", "zrevrange", "zrangebyscore", "zrevrangebyscore", "zcount", "zrangebylex", "zlexcount", "zkeyexist":
		return true
	}
	return false
}

// Dump returns the canonical full content of one (type, key): the reply of
// the enumerating read of that type ("get", "lrange 0 -1", "hgetall",
// "smembers", "zrange 0 -1 withscores").
func (st *Store) Dump(typ, k string) interface{} {
	return st.Apply(DumpCmd(typ, k))
}

// DumpCmd is the command whose reply reveals the whole value of (type, key).
func DumpCmd(typ, k string) []string {
	switch typ {
	case "kv":
		return []string{"get", k}
	case "list":
		return []string{"lrange", k, "0", "-1"}
	case "hash":
		return []string{"hgetall", k}
	case "set":
		return []string{"smembers", k}
	case "zset":
		return []string{"zrange", k, "0", "-1", "withscores"}
	}
	return nil
}

// Load replaces the content of (type, key) by what a Dump-shaped reply says
// (used to resynchronise after a recorded known deviation).
func (st *Store) Load(typ, k string, dump interface{}) {
	arr, _ := dump.([]interface{})
	str := func(v interface{}) string {
		b, _ := v.([]byte)
		return string(b)
	}
	switch typ {
	case "kv":
		if b, ok := dump.([]byte); ok {
			st.KV[k] = string(b)
		} else {
			delete(st.KV, k)
		}
	case "list":
		delete(st.List, k)
		if len(arr) > 0 {
			var l []string
			for _, v := range arr {
				l = append(l, str(v))
			}
			st.List[k] = l
		}
	case "hash":
		delete(st.Hash, k)
		if len(arr) > 1 {
			h := map[string]string{}
			for i := 0; i+1 < len(arr); i += 2 {
				h[str(arr[i])] = str(arr[i+1])
			}
			st.Hash[k] = h
		}
	case "set":
		delete(st.Set, k)
		if len(arr) > 0 {
			s := map[string]bool{}
			for _, v := range arr {
				s[str(v)] = true
			}
			st.Set[k] = s
		}
	case "zset":
		delete(st.ZSet, k)
		if len(arr) > 1 {
			z := map[string]float64{}
			for i := 0; i+1 < len(arr); i += 2 {
				f, _ := strconv.ParseFloat(str(arr[i+1]), 64)
				z[str(arr[i])] = f
			}
			st.ZSet[k] = z
		}
	}
}

// Equal compares an implementation reply (nodeh types; error replies are any
// type named *Err*/error) with a model reply. Errors compare equal to errors;
// scores compare numerically.
func Equal(impl interface{}, want interface{}) bool {
	return fmtc(impl) == fmtc(want)
}

func fmtc(v interface{}) string {
	switch x := v.(type) {
	case nil:
		return "(nil)"
	case int64:
		return "i" + strconv.FormatInt(x, 10)
	case int:
		return "i" + strconv.Itoa(x)
	case string:
		return "+" + x
	case []byte:
		return "$" + strconv.Quote(string(x))
	case Err:
		return "-ERR"
	case error:
		return "-ERR"
	case []interface{}:
		var sb strings.Builder
		sb.WriteString("[")
		for _, e := range x {
			sb.WriteString(fmtc(e))
			sb.WriteString(",")
		}
		sb.WriteString("]")
		return sb.String()
	}
	// nodeh.RErr and other named string types
	s := fmt.Sprintf("%T", v)
	if strings.HasSuffix(s, "Err") {
		return "-ERR"
	}
	return fmt.Sprintf("?%T:%v", v, v)
}

// Canon returns the canonical text of a reply (for traces).
func Canon(v interface{}) string { return fmtc(v) }

// MaxSubKeyLen mirrors common.MaxSubKeyLen (documented limit of field and
// member names).
const MaxSubKeyLen = 10240

func subKeyTooLong(name string, a []string) bool {
	long := func(x string) bool { return len(x) > MaxSubKeyLen }
	switch name {
	case "hdel":
		for _, x := range a {
			if long(x) {
				return true
			}
		}
	case "hmset":
		for i := 0; i < len(a); i += 2 {
			if long(a[i]) {
				return true
			}
		}
	case "zadd":
		for i := 1; i < len(a); i += 2 {
			if long(a[i]) {
				return true
			}
		}
	}
	// (commands with a leader-side pre-check - sadd, srem, zrem ... - answer
	// "nothing to do" before the limit is looked at; they are not generated
	// with over-long names)
	return false
}
