// Package model is a small executable reference model of the documented
// command set on ZanRedisDB's per-type keyspaces (doc/user-guide.md + Redis
// semantics). It is written from the documentation, not from the
// implementation. Keys are "table:key" strings per type; one Store models one
// namespace (or one partition).
package model

import (
	"fmt"
	"sort"
	"strconv"
	"strings"
)

// Replies use the same Go types as nodeh: nil, int64, string (simple
// string), []byte (bulk), Err, []interface{}.
type Err string

type zmember struct {
	m string
	s float64
}

type Store struct {
	KV   map[string]string
	List map[string][]string
	Hash map[string]map[string]string
	Set  map[string]map[string]bool
	ZSet map[string]map[string]float64
}

func New() *Store {
	return &Store{KV: map[string]string{}, List: map[string][]string{}, Hash: map[string]map[string]string{},
		Set: map[string]map[string]bool{}, ZSet: map[string]map[string]float64{}}
}

func bulk(s string) interface{} { return []byte(s) }

func sortedKeys(m map[string]string) []string {
	ks := make([]string, 0, len(m))
	for k := range m {
		ks = append(ks, k)
	}
	sort.Strings(ks)
	return ks
}

// FmtScore renders a score the way redis does for integers and simple floats.
func FmtScore(f float64) string { return strconv.FormatFloat(f, 'g', -1, 64) }

func parseInt(s string) (int64, bool) {
	v, err := strconv.ParseInt(s, 10, 64)
	return v, err == nil
}

// Apply executes one command (args[0] lower-case name, args[1] key without
// namespace) and returns the reply. Unknown commands return Err("unknown").
func (st *Store) Apply(args []string) interface{} {
	if len(args) < 2 {
		return Err("args")
	}
	name, k := strings.ToLower(args[0]), args[1]
	a := args[2:]
	switch name {
	// ---- KV ----
	case "set":
		if len(a) != 1 {
			return Err("args")
		}
		st.KV[k] = a[0]
		return "OK"
	case "get":
		if v, ok := st.KV[k]; ok {
			return bulk(v)
		}
		return nil
	case "getset":
		if len(a) != 1 {
			return Err("args")
		}
		old, ok := st.KV[k]
		st.KV[k] = a[0]
		if ok {
			return bulk(old)
		}
		return nil
	case "setnx":
		if len(a) != 1 {
			return Err("args")
		}
		if _, ok := st.KV[k]; ok {
			return int64(0)
		}
		st.KV[k] = a[0]
		return int64(1)
	case "append":
		if len(a) != 1 {
			return Err("args")
		}
		st.KV[k] += a[0]
		return int64(len(st.KV[k]))
	case "incr", "incrby":
		by := int64(1)
		if name == "incrby" {
			if len(a) != 1 {
				return Err("args")
			}
			v, ok := parseInt(a[0])
			if !ok {
				return Err("not int")
			}
			by = v
		}
		cur := int64(0)
		if v, ok := st.KV[k]; ok {
			c, ok2 := parseInt(v)
			if !ok2 {
				return Err("not int")
			}
			cur = c
		}
		cur += by
		st.KV[k] = strconv.FormatInt(cur, 10)
		return cur
	case "del":
		n := int64(0)
		for _, kk := range args[1:] {
			if _, ok := st.KV[kk]; ok {
				delete(st.KV, kk)
				n++
			}
		}
		return n
	case "exists":
		n := int64(0)
		for _, kk := range args[1:] {
			if _, ok := st.KV[kk]; ok {
				n++
			}
		}
		return n
	// ---- list ----
	case "lpush", "rpush":
		if len(a) < 1 {
			return Err("args")
		}
		l := st.List[k]
		for _, v := range a {
			if name == "lpush" {
				l = append([]string{v}, l...)
			} else {
				l = append(l, v)
			}
		}
		st.List[k] = l
		return int64(len(l))
	case "lpop", "rpop":
		l := st.List[k]
		if len(l) == 0 {
			return nil
		}
		var v string
		if name == "lpop" {
			v, l = l[0], l[1:]
		} else {
			v, l = l[len(l)-1], l[:len(l)-1]
		}
		if len(l) == 0 {
			delete(st.List, k)
		} else {
			st.List[k] = l
		}
		return bulk(v)
	case "llen":
		return int64(len(st.List[k]))
	case "lrange":
		if len(a) != 2 {
			return Err("args")
		}
		s, ok1 := parseInt(a[0])
		e, ok2 := parseInt(a[1])
		if !ok1 || !ok2 {
			return Err("not int")
		}
		l := st.List[k]
		n := int64(len(l))
		if s < 0 {
			s += n
		}
		if e < 0 {
			e += n
		}
		if s < 0 {
			s = 0
		}
		if e >= n {
			e = n - 1
		}
		out := []interface{}{}
		for i := s; i <= e && i < n; i++ {
			out = append(out, bulk(l[i]))
		}
		return out
	// ---- hash ----
	case "hset":
		if len(a) != 2 {
			return Err("args")
		}
		h := st.Hash[k]
		if h == nil {
			h = map[string]string{}
			st.Hash[k] = h
		}
		_, had := h[a[0]]
		h[a[0]] = a[1]
		if had {
			return int64(0)
		}
		return int64(1)
	case "hsetnx":
		if len(a) != 2 {
			return Err("args")
		}
		h := st.Hash[k]
		if h == nil {
			h = map[string]string{}
			st.Hash[k] = h
		}
		if _, had := h[a[0]]; had {
			return int64(0)
		}
		h[a[0]] = a[1]
		return int64(1)
	case "hget":
		if len(a) != 1 {
			return Err("args")
		}
		if v, ok := st.Hash[k][a[0]]; ok {
			return bulk(v)
		}
		return nil
	case "hdel":
		if len(a) < 1 {
			return Err("args")
		}
		n := int64(0)
		h := st.Hash[k]
		for _, f := range a {
			if _, ok := h[f]; ok {
				delete(h, f)
				n++
			}
		}
		if h != nil && len(h) == 0 {
			delete(st.Hash, k)
		}
		return n
	case "hincrby":
		if len(a) != 2 {
			return Err("args")
		}
		by, ok := parseInt(a[1])
		if !ok {
			return Err("not int")
		}
		h := st.Hash[k]
		cur := int64(0)
		if v, ok := h[a[0]]; ok {
			c, ok2 := parseInt(v)
			if !ok2 {
				return Err("not int")
			}
			cur = c
		}
		if h == nil {
			h = map[string]string{}
			st.Hash[k] = h
		}
		cur += by
		h[a[0]] = strconv.FormatInt(cur, 10)
		return cur
	case "hlen":
		return int64(len(st.Hash[k]))
	case "hgetall":
		out := []interface{}{}
		for _, f := range sortedKeys(st.Hash[k]) {
			out = append(out, bulk(f), bulk(st.Hash[k][f]))
		}
		return out
	// ---- set ----
	case "sadd":
		if len(a) < 1 {
			return Err("args")
		}
		s := st.Set[k]
		if s == nil {
			s = map[string]bool{}
			st.Set[k] = s
		}
		n := int64(0)
		for _, m := range a {
			if !s[m] {
				s[m] = true
				n++
			}
		}
		return n
	case "srem":
		if len(a) < 1 {
			return Err("args")
		}
		s := st.Set[k]
		n := int64(0)
		for _, m := range a {
			if s[m] {
				delete(s, m)
				n++
			}
		}
		if s != nil && len(s) == 0 {
			delete(st.Set, k)
		}
		return n
	case "scard":
		return int64(len(st.Set[k]))
	case "sismember":
		if len(a) != 1 {
			return Err("args")
		}
		if st.Set[k][a[0]] {
			return int64(1)
		}
		return int64(0)
	case "smembers":
		ms := make([]string, 0)
		for m := range st.Set[k] {
			ms = append(ms, m)
		}
		sort.Strings(ms)
		out := []interface{}{}
		for _, m := range ms {
			out = append(out, bulk(m))
		}
		return out
	case "spop":
		// documented deviation: members are taken in key order
		s := st.Set[k]
		if len(s) == 0 {
			return nil
		}
		ms := make([]string, 0)
		for m := range s {
			ms = append(ms, m)
		}
		sort.Strings(ms)
		delete(s, ms[0])
		if len(s) == 0 {
			delete(st.Set, k)
		}
		return bulk(ms[0])
	// ---- zset ----
	case "zadd":
		if len(a) < 2 || len(a)%2 != 0 {
			return Err("args")
		}
		for i := 0; i < len(a); i += 2 {
			if _, err := strconv.ParseFloat(a[i], 64); err != nil {
				return Err("not float")
			}
		}
		z := st.ZSet[k]
		if z == nil {
			z = map[string]float64{}
			st.ZSet[k] = z
		}
		n := int64(0)
		for i := 0; i < len(a); i += 2 {
			sc, _ := strconv.ParseFloat(a[i], 64)
			if _, ok := z[a[i+1]]; !ok {
				n++
			}
			z[a[i+1]] = sc
		}
		return n
	case "zincrby":
		if len(a) != 2 {
			return Err("args")
		}
		by, err := strconv.ParseFloat(a[0], 64)
		if err != nil {
			return Err("not float")
		}
		z := st.ZSet[k]
		if z == nil {
			z = map[string]float64{}
			st.ZSet[k] = z
		}
		z[a[1]] += by
		return bulk(FmtScore(z[a[1]]))
	case "zrem":
		if len(a) < 1 {
			return Err("args")
		}
		z := st.ZSet[k]
		n := int64(0)
		for _, m := range a {
			if _, ok := z[m]; ok {
				delete(z, m)
				n++
			}
		}
		if z != nil && len(z) == 0 {
			delete(st.ZSet, k)
		}
		return n
	case "zcard":
		return int64(len(st.ZSet[k]))
	case "zscore":
		if len(a) != 1 {
			return Err("args")
		}
		if s, ok := st.ZSet[k][a[0]]; ok {
			return bulk(FmtScore(s))
		}
		return nil
	case "zrange":
		// only "zrange key 0 -1 withscores" is modelled here
		var ms []zmember
		for m, s := range st.ZSet[k] {
			ms = append(ms, zmember{m, s})
		}
		sort.Slice(ms, func(i, j int) bool {
			if ms[i].s != ms[j].s {
				return ms[i].s < ms[j].s
			}
			return ms[i].m < ms[j].m
		})
		out := []interface{}{}
		for _, x := range ms {
			out = append(out, bulk(x.m), bulk(FmtScore(x.s)))
		}
		return out
	}
	return Err("unknown command " + name)
}

// TypeOf returns the keyspace a command works on.
func TypeOf(name string) string {
	switch strings.ToLower(name) {
	case "set", "get", "getset", "setnx", "append", "incr", "incrby", "del", "exists":
		return "kv"
	case "lpush", "rpush", "lpop", "rpop", "llen", "lrange":
		return "list"
	case "hset", "hsetnx", "hget", "hdel", "hincrby", "hlen", "hgetall":
		return "hash"
	case "sadd", "srem", "scard", "sismember", "smembers", "spop":
		return "set"
	case "zadd", "zincrby", "zrem", "zcard", "zscore", "zrange":
		return "zset"
	}
	return ""
}

// IsRead reports commands that never change state.
func IsRead(name string) bool {
	switch strings.ToLower(name) {
	case "get", "exists", "llen", "lrange", "hget", "hlen", "hgetall", "scard", "sismember", "smembers", "zcard", "zscore", "zrange":
		return true
	}
	return false
}

// Equal compares an implementation reply (nodeh types; error replies are any
// type named *Err*/error) with a model reply. Errors compare equal to errors;
// scores compare numerically.
func Equal(impl interface{}, want interface{}) bool {
	return fmtc(impl) == fmtc(want)
}

func fmtc(v interface{}) string {
	switch x := v.(type) {
	case nil:
		return "(nil)"
	case int64:
		return "i" + strconv.FormatInt(x, 10)
	case int:
		return "i" + strconv.Itoa(x)
	case string:
		return "+" + x
	case []byte:
		return "$" + strconv.Quote(string(x))
	case Err:
		return "-ERR"
	case error:
		return "-ERR"
	case []interface{}:
		var sb strings.Builder
		sb.WriteString("[")
		for _, e := range x {
			sb.WriteString(fmtc(e))
			sb.WriteString(",")
		}
		sb.WriteString("]")
		return sb.String()
	}
	// nodeh.RErr and other named string types
	s := fmt.Sprintf("%T", v)
	if strings.HasSuffix(s, "Err") {
		return "-ERR"
	}
	return fmt.Sprintf("?%T:%v", v, v)
}

// Canon returns the canonical text of a reply (for traces).
func Canon(v interface{}) string { return fmtc(v) }
