package nodeh

import (
	"fmt"
	"testing"
	"testing/synctest"
	"time"

	"verif/sim/core"
)

func TestSmoke(t *testing.T) {
	synctest.Test(t, func(t *testing.T) {
		c := core.NewRunCtx(t, "C04", "quick", core.NewTape(1))
		t0 := time.Now()
		cl := New(c, Options{Machines: 3, Partitions: 1, Replicas: 3, Engine: "mem", SnapCount: 20, SnapCatchup: 3})
		cl.PumpFair(40, func() bool { return cl.Leader(0) >= 0 })
		l := cl.Leader(0)
		fmt.Println("leader", l, "simtime", time.Since(t0))
		if l < 0 {
			t.Fatal("no leader")
		}
		for i := 0; i < 30; i++ {
			r, ok := cl.Do(cl.M[l], Cmd("incr", "default:t:k"), 50)
			if i%10 == 9 {
				fmt.Println("incr", Fmt(r), ok)
			}
		}
		r, ok := cl.Do(cl.M[l], Cmd("get", "default:t:k"), 50)
		fmt.Println("get", Fmt(r), ok)
		victim := (l + 1) % 3
		cl.Kill(cl.M[victim])
		for i := 0; i < 60; i++ {
			cl.Do(cl.M[l], Cmd("incr", "default:t:k"), 50)
		}
		if err := cl.Restart(cl.M[victim]); err != nil {
			t.Fatal(err)
		}
		cl.PumpFair(60, nil)
		for _, m := range cl.M {
			fmt.Println("machine", m.Idx, "applied", m.Parts[0].Node.GetAppliedIndex(), "lead", m.Parts[0].Node.IsLead())
		}
		r, ok = cl.Do(cl.M[l], Cmd("lpush", "default:t:l", "a", "b"), 50)
		fmt.Println("lpush", Fmt(r), ok)
		r, ok = cl.Do(cl.M[l], Cmd("lrange", "default:t:l", "0", "-1"), 50)
		fmt.Println("lrange", Fmt(r), ok)
		cl.Close()
	})
}
