package nodeh

import (
	"context"
	"fmt"
	"io"
	"io/ioutil"
	"net/http"
	"os"
	"os/exec"
	"path/filepath"
	"runtime"
	"sort"
	"strconv"
	"strings"
	"sync"
	"testing/synctest"
	"time"

	"github.com/absolute8511/redcon"
	"github.com/youzan/ZanRedisDB/common"
	"github.com/youzan/ZanRedisDB/node"
	"github.com/youzan/ZanRedisDB/pkg/types"
	"github.com/youzan/ZanRedisDB/raft"
	"github.com/youzan/ZanRedisDB/raft/raftpb"
	"github.com/youzan/ZanRedisDB/server"
	"github.com/youzan/ZanRedisDB/snap"
	"github.com/youzan/ZanRedisDB/stats"
	"github.com/youzan/ZanRedisDB/transport/rafthttp"
	"github.com/youzan/ZanRedisDB/wal"

	"verif/sim/core"
)

// Options of a simulated cluster: Machines data-node processes, one namespace
// "default" with Partitions partitions, each replicated on the first
// Replicas machines (rotated by partition).
type Options struct {
	Machines    int
	Partitions  int
	Replicas    int
	Engine      string // mem | pebble | "" (rocksdb)
	ExpPolicy   string // common.DefaultExpirationPolicy ...
	DataVersion string
	SnapCount   int
	SnapCatchup int
	KeepBackup  int
	OptFsync    bool
	WalSegment  int64 // wal.SegmentSizeBytes (default 256 KiB: the shipped 64 MiB preallocation dominates run time)
	// OldPartitions > 0: the namespace existed before with this (other) partition
	// count; every machine's first process still runs that incarnation's
	// partitions when the new ones are created, one partition at a time (a
	// namespace deleted and re-created by the operator)
	OldPartitions int
}

type Msg struct {
	From int // machine index
	M    raftpb.Message
	Snap bool
	Born int64 // value of Cluster.Clock when it was sent
}

type Machine struct {
	Idx    int // 0-based; NodeID = Idx+1
	Dir    string
	NSM    *node.NamespaceMgr
	Srv    *server.Server
	Parts  map[int]*node.NamespaceNode // partition -> replica on this machine
	Up     bool
	Incarn int
	tr     *simTransport
}

type Cluster struct {
	C    *core.RunCtx
	Opt  Options
	Base string
	M    []*Machine
	mu   sync.Mutex
	Out  []Msg // in-flight raft messages
	zomb []*Machine
	dirN int
	// park support
	parkMu  sync.Mutex
	parks   map[string]chan struct{} // key: name|gid|rid -> release channel (armed)
	parked  map[string]bool
	armSkip map[string]int // arrivals to let pass before parking
	hits    map[string]int
	OnPoint func(name string, gid, rid uint64) // called (in the hooked goroutine) for every point
	Clock   int64                              // event counter maintained by the engine (message age)
	// Stopping is true while the harness itself stops or boots a node: engines
	// must not park goroutines then (the harness call would wait forever)
	Stopping bool
}

const NS = "default"

func (cl *Cluster) NodeID(m int) uint64 { return uint64(m + 1) }

// ReplicaID of partition p on machine m.
func ReplicaID(p, m int) uint64 { return uint64((p+1)*100 + m + 1) }
func GroupID(p int) uint64      { return uint64(1000 + p) }

// hosts returns the machines hosting partition p.
func (cl *Cluster) Hosts(p int) []int {
	var hs []int
	for k := 0; k < cl.Opt.Replicas; k++ {
		hs = append(hs, (p+k)%cl.Opt.Machines)
	}
	sort.Ints(hs)
	return hs
}

type simTransport struct {
	cl   *Cluster
	self int
	dead bool
}

func (s *simTransport) Start() error          { return nil }
func (s *simTransport) IsStarted() bool       { return true }
func (s *simTransport) Handler() http.Handler { return nil }
func (s *simTransport) Send(ms []raftpb.Message) {
	if s.dead {
		return
	}
	s.cl.mu.Lock()
	for _, m := range ms {
		if m.To == 0 {
			continue
		}
		m.Entries = append([]raftpb.Entry(nil), m.Entries...)
		s.cl.Out = append(s.cl.Out, Msg{From: s.self, M: m, Born: s.cl.Clock})
	}
	s.cl.mu.Unlock()
}
func (s *simTransport) SendSnapshot(m snap.Message) {
	if s.dead {
		m.CloseWithError(fmt.Errorf("dead"))
		return
	}
	s.cl.mu.Lock()
	s.cl.Out = append(s.cl.Out, Msg{From: s.self, M: m.Message, Snap: true, Born: s.cl.Clock})
	s.cl.mu.Unlock()
	m.CloseWithError(nil)
}
func (s *simTransport) AddRemote(id types.ID, u []string)  {}
func (s *simTransport) RemovePeer(id types.ID)             {}
func (s *simTransport) RemoveAllPeers()                    {}
func (s *simTransport) UpdatePeer(id types.ID, u []string) {}
func (s *simTransport) ActiveSince(id types.ID) time.Time  { return time.Time{} }
func (s *simTransport) Stop()                              {}

type clusterInfo struct{ cl *Cluster }

func (f *clusterInfo) GetClusterName() string { return "sim" }
func (f *clusterInfo) GetSnapshotSyncInfo(fullNS string) ([]common.SnapshotSyncInfo, error) {
	p := partOf(fullNS)
	var l []common.SnapshotSyncInfo
	for _, m := range f.cl.Hosts(p) {
		mm := f.cl.M[m]
		l = append(l, common.SnapshotSyncInfo{ReplicaID: ReplicaID(p, m), NodeID: f.cl.NodeID(m), RemoteAddr: "127.0.0.1",
			HttpAPIPort: strconv.Itoa(m + 1), DataRoot: mm.Dir})
	}
	return l, nil
}
func (f *clusterInfo) UpdateMeForNamespaceLeader(fullNS string) (bool, error) { return false, nil }

func partOf(fullNS string) int {
	i := strings.LastIndex(fullNS, "-")
	p, _ := strconv.Atoi(fullNS[i+1:])
	return p
}

var quietOnce sync.Once

// New creates the cluster inside the current synctest bubble and starts all
// replicas. Nothing is delivered before every replica has started.
func New(c *core.RunCtx, opt Options) *Cluster {
	quietOnce.Do(quiet)
	base := os.Getenv("VERIF_SCRATCH")
	if base == "" {
		base = "/dev/shm"
	}
	dir, err := os.MkdirTemp(base, "cl")
	if err != nil {
		panic(err)
	}
	if opt.WalSegment == 0 {
		opt.WalSegment = 256 << 10
	}
	wal.SegmentSizeBytes = opt.WalSegment
	cl := &Cluster{C: c, Opt: opt, Base: dir, parks: map[string]chan struct{}{}, parked: map[string]bool{}, hits: map[string]int{}}
	node.VerifPointHook = cl.pointHook
	common.VerifAPIHook = cl.apiHook
	for i := 0; i < opt.Machines; i++ {
		m := &Machine{Idx: i, Dir: filepath.Join(dir, fmt.Sprintf("m%d.0", i)), Parts: map[int]*node.NamespaceNode{}}
		os.MkdirAll(m.Dir, 0755)
		cl.M = append(cl.M, m)
	}
	for _, m := range cl.M {
		if err := cl.boot(m); err != nil {
			panic(fmt.Sprintf("boot machine %d: %v", m.Idx, err))
		}
	}
	synctest.Wait()
	return cl
}

func (cl *Cluster) nsConf(p int) *node.NamespaceConfig {
	opt := cl.Opt
	ns := node.NewNSConfig()
	ns.Name = NS + "-" + strconv.Itoa(p)
	ns.BaseName = NS
	ns.EngType = "rockredis"
	ns.PartitionNum = opt.Partitions
	ns.Replicator = opt.Replicas
	ns.SnapCount = opt.SnapCount
	ns.SnapCatchup = opt.SnapCatchup
	ns.OptimizedFsync = opt.OptFsync
	ns.RaftGroupConf.GroupID = GroupID(p)
	for _, h := range cl.Hosts(p) {
		ns.RaftGroupConf.SeedNodes = append(ns.RaftGroupConf.SeedNodes, node.ReplicaInfo{NodeID: cl.NodeID(h), ReplicaID: ReplicaID(p, h),
			RaftAddr: "http://127.0.0.1:" + strconv.Itoa(h+1)})
	}
	ns.ExpirationPolicy = opt.ExpPolicy
	if ns.ExpirationPolicy == "" {
		ns.ExpirationPolicy = common.DefaultExpirationPolicy
	}
	ns.DataVersion = opt.DataVersion
	return ns
}

// boot starts a machine (a fresh process) on its directory.
func (cl *Cluster) boot(m *Machine) error {
	opt := cl.Opt
	ts := &stats.TransportStats{}
	ts.Initialize()
	tr := &rafthttp.Transport{DialTimeout: time.Second, ClusterID: "sim", TrStats: ts, PeersStats: stats.NewPeersStats()}
	mconf := &node.MachineConfig{BroadcastAddr: "127.0.0.1", LocalRaftAddr: "http://127.0.0.1:" + strconv.Itoa(m.Idx+1), DataRootDir: m.Dir,
		TickMs: 100, ElectionTick: 10, NodeID: cl.NodeID(m.Idx), KeepBackup: opt.KeepBackup}
	mconf.RocksDBOpts.EngineType = opt.Engine
	mconf.RocksDBOpts.WriteBufferSize = 1 << 20
	mconf.RocksDBOpts.BlockCache = 1 << 20
	mconf.UseRocksWAL = false
	nsm := node.NewNamespaceMgr(tr, mconf)
	nsm.SetIClusterInfo(&clusterInfo{cl})
	m.NSM = nsm
	m.Srv = server.VerifNewServer(nsm)
	m.tr = &simTransport{cl: cl, self: m.Idx}
	m.Parts = map[int]*node.NamespaceNode{}
	m.Incarn++
	old := map[int]*node.NamespaceNode{}
	if opt.OldPartitions > 0 && m.Incarn == 1 {
		for p := 0; p < opt.OldPartitions; p++ {
			conf := cl.nsConf(p)
			conf.PartitionNum = opt.OldPartitions
			conf.Replicator = 1
			conf.RaftGroupConf.GroupID = 800000 + uint64(p)
			rid := 800000 + uint64(p*100+m.Idx)
			conf.RaftGroupConf.SeedNodes = []node.ReplicaInfo{{NodeID: cl.NodeID(m.Idx), ReplicaID: rid,
				RaftAddr: "http://127.0.0.1:" + strconv.Itoa(m.Idx+1)}}
			nn, err := nsm.InitNamespaceNode(conf, rid, false)
			if err != nil {
				return err
			}
			nn.Node.VerifSetTransport(m.tr)
			if err := nn.Start(false); err != nil {
				return err
			}
			old[p] = nn
		}
		synctest.Wait()
	}
	removeOld := func(p int) {
		if nn := old[p]; nn != nil {
			// what the data node does for a partition of a deleted namespace
			nn.Close()
			nn.Destroy()
			synctest.Wait()
			delete(old, p)
		}
	}
	defer func() {
		for p := 0; p < opt.OldPartitions; p++ {
			removeOld(p)
		}
	}()
	for p := 0; p < opt.Partitions; p++ {
		hosted := false
		for _, h := range cl.Hosts(p) {
			if h == m.Idx {
				hosted = true
			}
		}
		if !hosted {
			continue
		}
		removeOld(p)
		nn, err := nsm.InitNamespaceNode(cl.nsConf(p), ReplicaID(p, m.Idx), false)
		if err != nil {
			return err
		}
		nn.Node.VerifSetTransport(m.tr)
		if err := nn.Start(false); err != nil {
			return err
		}
		m.Parts[p] = nn
	}
	m.Up = true
	return nil
}

func quiet() {
	if os.Getenv("VERIF_NODELOG") != "" {
		return
	}
	node.SetLogger(0, nil)
	server.SetLogger(0, nil)
	raft.SetLogger(&nullLogger{})
	rafthttp.SetLogger(0, nil)
	quietMore()
}

type nullLogger struct{}

func (nullLogger) Debug(v ...interface{})                   {}
func (nullLogger) Debugf(format string, v ...interface{})   {}
func (nullLogger) Error(v ...interface{})                   {}
func (nullLogger) Errorf(format string, v ...interface{})   {}
func (nullLogger) Info(v ...interface{})                    {}
func (nullLogger) Infof(format string, v ...interface{})    {}
func (nullLogger) Warning(v ...interface{})                 {}
func (nullLogger) Warningf(format string, v ...interface{}) {}
func (nullLogger) Fatal(v ...interface{})                   { panic(fmt.Sprint(v...)) }
func (nullLogger) Fatalf(format string, v ...interface{})   { panic(fmt.Sprintf(format, v...)) }
func (nullLogger) Panic(v ...interface{})                   { panic(fmt.Sprint(v...)) }
func (nullLogger) Panicf(format string, v ...interface{})   { panic(fmt.Sprintf(format, v...)) }

// ---- points (park / count) ---------------------------------------------------

func pkey(name string, gid, rid uint64) string { return fmt.Sprintf("%s|%d|%d", name, gid, rid) }

func (cl *Cluster) pointHook(name string, gid, rid uint64) {
	if f := cl.OnPoint; f != nil {
		f(name, gid, rid)
	}
	k := pkey(name, gid, rid)
	cl.parkMu.Lock()
	cl.hits[k]++
	ch, ok := cl.parks[k]
	if ok && cl.armSkip[k] > 0 {
		cl.armSkip[k]--
		ok = false
	}
	if ok {
		delete(cl.parks, k)
		cl.parked[k] = true
	}
	cl.parkMu.Unlock()
	if ok {
		<-ch
	}
}

// Arm makes the next arrival of the replica's goroutine at the named point
// park until the returned release function is called.
func (cl *Cluster) Arm(name string, p, m int) (release func(), isParked func() bool) {
	return cl.ArmNth(name, p, m, 0)
}

// ArmNth is Arm for the (skip+1)-th arrival.
func (cl *Cluster) ArmNth(name string, p, m int, skip int) (release func(), isParked func() bool) {
	k := pkey(name, GroupID(p), ReplicaID(p, m))
	ch := make(chan struct{})
	cl.parkMu.Lock()
	cl.parks[k] = ch
	if cl.armSkip == nil {
		cl.armSkip = map[string]int{}
	}
	cl.armSkip[k] = skip
	delete(cl.parked, k)
	cl.parkMu.Unlock()
	released := false
	return func() {
			if released {
				return
			}
			released = true
			cl.parkMu.Lock()
			delete(cl.parks, k)
			cl.parkMu.Unlock()
			close(ch)
		}, func() bool {
			cl.parkMu.Lock()
			defer cl.parkMu.Unlock()
			return cl.parked[k]
		}
}

func (cl *Cluster) Hits(name string, p, m int) int {
	cl.parkMu.Lock()
	defer cl.parkMu.Unlock()
	return cl.hits[pkey(name, GroupID(p), ReplicaID(p, m))]
}

// ---- node-to-node HTTP ------------------------------------------------------

func (cl *Cluster) apiHook(method string, endpoint string, body io.Reader, timeout time.Duration, ret interface{}) (bool, int, error) {
	// http://127.0.0.1:<machine+1>/cluster/checkbackup/<ns>
	var id int
	var rest string
	fmt.Sscanf(endpoint, "http://127.0.0.1:%d%s", &id, &rest)
	if id < 1 || id > len(cl.M) {
		return true, 0, fmt.Errorf("sim: no such node %v", endpoint)
	}
	m := cl.M[id-1]
	if !m.Up {
		return true, 0, fmt.Errorf("sim: node down")
	}
	if strings.HasPrefix(rest, common.APICheckBackup) {
		ns := rest[strings.LastIndex(rest, "/")+1:]
		nn := m.Parts[partOf(ns)]
		if nn == nil {
			return true, 404, fmt.Errorf("no namespace")
		}
		var b []byte
		if body != nil {
			b, _ = ioutil.ReadAll(body)
		}
		ok, err := nn.Node.CheckLocalBackup(b)
		if err != nil || !ok {
			return true, 404, fmt.Errorf("no backup")
		}
		return true, 200, nil
	}
	return true, 404, fmt.Errorf("sim: unhandled api %v", endpoint)
}

// ---- driving --------------------------------------------------------------------

// Tick delivers one raft tick to every replica of a machine.
func (cl *Cluster) Tick(m *Machine) {
	if !m.Up {
		return
	}
	for _, p := range cl.partsOf(m) {
		m.Parts[p].Node.Tick()
	}
	synctest.Wait()
}

func (cl *Cluster) partsOf(m *Machine) []int {
	var ps []int
	for p := range m.Parts {
		ps = append(ps, p)
	}
	sort.Ints(ps)
	return ps
}

// TakeOut removes and returns the in-flight messages, canonically ordered.
func (cl *Cluster) TakeOut() []Msg {
	cl.mu.Lock()
	ms := cl.Out
	cl.Out = nil
	cl.mu.Unlock()
	return ms
}

// PutBack returns messages to the in-flight set (in front of newer ones).
func (cl *Cluster) PutBack(ms []Msg) {
	cl.mu.Lock()
	cl.Out = append(ms, cl.Out...)
	cl.mu.Unlock()
}

// Canon orders messages independent of goroutine/map iteration order.
func Canon(ms []Msg) {
	sort.SliceStable(ms, func(i, j int) bool {
		a, b := &ms[i], &ms[j]
		if a.From != b.From {
			return a.From < b.From
		}
		if a.M.ToGroup.GroupId != b.M.ToGroup.GroupId {
			return a.M.ToGroup.GroupId < b.M.ToGroup.GroupId
		}
		if a.M.To != b.M.To {
			return a.M.To < b.M.To
		}
		return false
	})
}

// TargetOf returns the machine and partition a message is addressed to.
func (cl *Cluster) TargetOf(m *Msg) (mach int, part int) {
	rid := int(m.M.To)
	return rid%100 - 1, rid/100 - 1
}

// Deliver hands a message to its target (dropped if the target is down).
func (cl *Cluster) Deliver(m Msg) bool {
	mi, p := cl.TargetOf(&m)
	if mi < 0 || mi >= len(cl.M) {
		return false
	}
	tm := cl.M[mi]
	nn := tm.Parts[p]
	if !tm.Up || nn == nil {
		if m.Snap {
			cl.ReportSnap(m, false)
		}
		return false
	}
	nn.Node.Process(context.Background(), m.M)
	synctest.Wait()
	if m.Snap {
		cl.ReportSnap(m, true)
	}
	return true
}

func (cl *Cluster) ReportSnap(m Msg, ok bool) {
	fm := cl.M[m.From]
	if !fm.Up {
		return
	}
	_, p := cl.TargetOf(&m)
	if nn := fm.Parts[p]; nn != nil {
		st := raft.SnapshotFinish
		if !ok {
			st = raft.SnapshotFailure
		}
		nn.Node.ReportSnapshot(m.M.To, m.M.ToGroup, st)
		synctest.Wait()
	}
}

// Sleep advances the simulated clock.
func (cl *Cluster) Sleep(d time.Duration) {
	time.Sleep(d)
	synctest.Wait()
}

// PumpFair runs rounds of: tick every live machine, advance the clock by one
// tick interval, deliver everything in flight (reliably, in canonical order).
func (cl *Cluster) PumpFair(rounds int, stop func() bool) {
	for r := 0; r < rounds; r++ {
		for _, m := range cl.M {
			cl.Tick(m)
		}
		cl.Sleep(100 * time.Millisecond)
		for k := 0; k < 50; k++ {
			ms := cl.TakeOut()
			if len(ms) == 0 {
				break
			}
			Canon(ms)
			for _, m := range ms {
				ok := cl.Deliver(m)
				if cl.C.KeepTrace {
					to, _ := cl.TargetOf(&m)
					cl.C.Log("fair-deliver", "m%d->m%d %v t=%d i=%d n=%d c=%d rej=%v snap=%v ok=%v", m.From, to, m.M.Type, m.M.Term, m.M.Index, len(m.M.Entries), m.M.Commit, m.M.Reject, m.Snap, ok)
				}
			}
		}
		if stop != nil && stop() {
			return
		}
	}
}

// Leader returns the live machine that believes it leads partition p (-1 if none).
func (cl *Cluster) Leader(p int) int {
	for _, m := range cl.M {
		if m.Up && m.Parts[p] != nil && m.Parts[p].Node.IsLead() {
			return m.Idx
		}
	}
	return -1
}

// ---- clients ----------------------------------------------------------------------

// Call is one client request in flight or finished.
type Call struct {
	Args    []string
	Machine int
	Incarn  int
	Conn    *CapConn
	done    chan struct{}
	Dead    bool // the serving process was killed before it answered
}

// Done reports whether the server goroutine returned.
func (c *Call) Done() bool {
	select {
	case <-c.done:
		return true
	default:
		return false
	}
}

// Reply returns the reply if the call finished on a live process.
func (c *Call) Reply() (interface{}, bool) {
	if c.Dead || !c.Done() {
		return nil, false
	}
	return c.Conn.Result()
}

// Invoke starts a client request on machine m (a new goroutine running the
// server's command path). It returns after the system is quiescent again.
func (cl *Cluster) Invoke(m *Machine, cmd redcon.Command) *Call {
	c := &Call{Machine: m.Idx, Incarn: m.Incarn, Conn: &CapConn{}, done: make(chan struct{})}
	for _, a := range cmd.Args {
		c.Args = append(c.Args, string(a))
	}
	srv := m.Srv
	go func() {
		defer close(c.done)
		srv.VerifServeRedis(c.Conn, cmd)
	}()
	synctest.Wait()
	return c
}

// Do runs a request to completion by pumping fairly (for reads and for
// fault-free phases). Returns the reply or (nil,false) after maxRounds.
func (cl *Cluster) Do(m *Machine, cmd redcon.Command, maxRounds int) (interface{}, bool) {
	c := cl.Invoke(m, cmd)
	for r := 0; r < maxRounds && !c.Done(); r++ {
		cl.PumpFair(1, nil)
	}
	return c.Reply()
}

// ---- crash / restart ---------------------------------------------------------------

// Kill is kill -9 of a machine: its goroutines are abandoned (never ticked,
// delivered to or read again), its directory content at this instant is what
// a restart gets.
func (cl *Cluster) Kill(m *Machine) {
	if !m.Up {
		return
	}
	m.Up = false
	m.tr.dead = true
	cl.dirN++
	nd := filepath.Join(cl.Base, fmt.Sprintf("m%d.%d", m.Idx, cl.dirN))
	// the image of the directory at the instant of the kill. With the rocksdb
	// engine its own background threads (real OS threads outside the bubble)
	// may be finishing a flush or compaction while the copy runs and delete a
	// file the copy has listed: such a copy is no instant of the directory at
	// all, it is taken again (the background work ends by itself).
	var out []byte
	var err error
	for try := 0; try < 8; try++ {
		os.RemoveAll(nd)
		os.MkdirAll(nd, 0755)
		before := dirListing(m.Dir)
		out, err = exec.Command("cp", "-a", m.Dir+"/.", nd).CombinedOutput()
		if err == nil && dirListing(m.Dir) == before {
			// nothing was created, removed or resized while the copy ran: the copy
			// is the directory as it was at one instant
			break
		}
		if err == nil && try == 7 {
			break
		}
		cl.C.Count("infra.kill_image_copy_retried", 1)
		exec.Command("sleep", "0.05").Run() // real time for the real threads; the bubble's clock is not touched
	}
	if err != nil {
		panic(fmt.Sprintf("cp: %v %s", err, out))
	}
	z := &Machine{Idx: m.Idx, Dir: m.Dir, NSM: m.NSM, Srv: m.Srv, Parts: m.Parts, tr: m.tr}
	cl.zomb = append(cl.zomb, z)
	m.Dir = nd
	m.Parts = map[int]*node.NamespaceNode{}
	m.NSM, m.Srv = nil, nil
	// messages the dead process had handed to its kernel may still arrive; the
	// ones addressed to it are lost
	cl.mu.Lock()
	var keep, lostSnap []Msg
	for _, x := range cl.Out {
		if mi, _ := cl.TargetOf(&x); mi != m.Idx {
			keep = append(keep, x)
		} else if x.Snap {
			lostSnap = append(lostSnap, x)
		}
	}
	cl.Out = keep
	cl.mu.Unlock()
	// the sender of a snapshot learns that its POST failed
	for _, x := range lostSnap {
		cl.ReportSnap(x, false)
	}
}

// StopGraceful stops a machine the way a clean shutdown does. It reports
// false if a node did not finish stopping within two simulated minutes.
func (cl *Cluster) StopGraceful(m *Machine) bool {
	if !m.Up {
		return true
	}
	m.Up = false
	cl.Stopping = true
	defer func() { cl.Stopping = false }()
	ok := true
	for _, p := range cl.partsOf(m) {
		nn := m.Parts[p]
		done := make(chan struct{})
		go func() { nn.Close(); close(done) }()
		select {
		case <-done:
		case <-time.After(2 * time.Minute):
			ok = false
			if os.Getenv("VERIF_DUMP_STACKS") != "" {
				buf := make([]byte, 1<<22)
				buf = buf[:runtime.Stack(buf, true)]
				fmt.Fprintf(core.Stdout, "---- goroutines at graceful-stop timeout ----\n%s\n", buf)
			}
		}
		synctest.Wait()
	}
	m.tr.dead = true
	if ok {
		m.Parts = map[int]*node.NamespaceNode{}
	} else {
		// keep the half-stopped nodes for the final cleanup
		cl.zomb = append(cl.zomb, &Machine{Idx: m.Idx, Dir: m.Dir, NSM: m.NSM, Srv: m.Srv, Parts: m.Parts, tr: m.tr})
		m.Parts = map[int]*node.NamespaceNode{}
	}
	return ok
}

// BackpressureStuck is ground truth for the known finding
// "backpressure-ignores-commit": the replica's raft storage holds at least
// (SnapCount+SnapCatchup)*10 entries beyond its first index (node/raft.go
// serveChannels then treats the node as busy and StepNode drops every MsgApp,
// including the commit index it carries) while its applied index is behind.
func (cl *Cluster) BackpressureStuck(m *Machine, p int) bool {
	if !m.Up || m.Parts[p] == nil {
		return false
	}
	fi, li := m.Parts[p].Node.VerifRaftStorageIndexes()
	thr := uint64(cl.Opt.SnapCount+cl.Opt.SnapCatchup) * 10
	return li >= fi && li-fi+1 >= thr && m.Parts[p].Node.GetAppliedIndex() < li
}

// SelfStopped lists the partitions of a live machine whose node shut itself
// down (e.g. after a failed snapshot transfer); production's data
// coordinator restarts such a namespace node later.
func (cl *Cluster) SelfStopped(m *Machine) []int {
	var out []int
	if !m.Up {
		return nil
	}
	for _, p := range cl.partsOf(m) {
		if m.Parts[p].Node.IsStopping() {
			out = append(out, p)
		}
	}
	return out
}

// ReviveSelfStopped restarts the whole process of a machine that has a
// self-stopped partition (graceful stop of the rest, then boot).
func (cl *Cluster) ReviveSelfStopped(m *Machine) error {
	if len(cl.SelfStopped(m)) == 0 {
		return nil
	}
	if !cl.StopGraceful(m) {
		return fmt.Errorf("graceful stop of machine %d did not finish", m.Idx)
	}
	return cl.Restart(m)
}

// Restart boots a new process on the machine's current directory.
func (cl *Cluster) Restart(m *Machine) error {
	if m.Up {
		return nil
	}
	// restarts take at least a second of wall time (request ids embed the
	// start time in milliseconds)
	cl.Sleep(1100 * time.Millisecond)
	cl.Stopping = true
	err := cl.boot(m)
	cl.Stopping = false
	synctest.Wait()
	return err
}

// Close stops everything (zombies included) and removes the directories.
func (cl *Cluster) Close() {
	// release parked goroutines
	cl.parkMu.Lock()
	for k, ch := range cl.parks {
		close(ch)
		delete(cl.parks, k)
	}
	cl.parkMu.Unlock()
	node.VerifPointHook = nil
	synctest.Wait()
	for _, m := range cl.M {
		if m.Up {
			for _, p := range cl.partsOf(m) {
				m.Parts[p].Close()
			}
		}
	}
	for _, z := range cl.zomb {
		for _, nn := range z.Parts {
			nn.Close()
		}
	}
	synctest.Wait()
	// give closing goroutines their timers
	for i := 0; i < 30; i++ {
		time.Sleep(time.Second)
		synctest.Wait()
	}
	common.VerifAPIHook = nil
	os.RemoveAll(cl.Base)
}

// dirListing: names and sizes of everything under dir (one string).
func dirListing(dir string) string {
	var b strings.Builder
	filepath.Walk(dir, func(p string, fi os.FileInfo, err error) error {
		if err == nil && fi != nil {
			fmt.Fprintf(&b, "%s %d\n", p, fi.Size())
		}
		return nil
	})
	return b.String()
}
