package nodeh

import (
	"io/ioutil"
	"log"
	"os"

	"github.com/youzan/ZanRedisDB/engine"
	"github.com/youzan/ZanRedisDB/rockredis"
	"github.com/youzan/ZanRedisDB/slow"
	"github.com/youzan/ZanRedisDB/wal"
)

func quietMore() {
	// the mem engine and common/file_sync print unconditionally
	if dn, err := os.OpenFile(os.DevNull, os.O_WRONLY, 0); err == nil {
		os.Stdout = dn
	}
	log.SetOutput(ioutil.Discard)
	engine.SetLogger(0, nil)
	rockredis.SetLogger(0, nil)
	slow.SetLogger(0, nil)
	wal.VerifSetLogger(nil)
}
