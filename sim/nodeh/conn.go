// Package nodeh is the shared harness for simulations that run real
// node.KVNode replicas (raft loop, WAL, snapshots, apply loop, state machine,
// redis command routing of the server package) inside one synctest bubble with
// an in-memory transport.
package nodeh

import (
	"fmt"
	"net"
	"strconv"
	"strings"

	"github.com/absolute8511/redcon"
	"github.com/youzan/ZanRedisDB/common"
)

// Reply is a decoded redis reply: nil, int64, string (simple string),
// []byte (bulk), RErr (error) or []interface{} (array).
type RErr string

// CapConn is an in-memory redcon.Conn that records the reply.
type CapConn struct {
	stack  []*frame
	top    []interface{}
	Closed bool
	ctx    interface{}
}

type frame struct {
	items []interface{}
	need  int
}

func (c *CapConn) push(v interface{}) {
	for {
		if len(c.stack) == 0 {
			c.top = append(c.top, v)
			return
		}
		f := c.stack[len(c.stack)-1]
		f.items = append(f.items, v)
		if len(f.items) < f.need {
			return
		}
		c.stack = c.stack[:len(c.stack)-1]
		v = f.items
		if f.items == nil {
			v = []interface{}{}
		}
	}
}

func (c *CapConn) RemoteAddr() string         { return "sim" }
func (c *CapConn) Close() error               { c.Closed = true; return nil }
func (c *CapConn) WriteError(msg string)      { c.push(RErr(msg)) }
func (c *CapConn) WriteString(str string)     { c.push(str) }
func (c *CapConn) WriteBulk(bulk []byte)      { c.push(append([]byte{}, bulk...)) }
func (c *CapConn) WriteBulkString(bulk string) { c.push([]byte(bulk)) }
func (c *CapConn) WriteInt(num int)           { c.push(int64(num)) }
func (c *CapConn) WriteInt64(num int64)       { c.push(num) }
func (c *CapConn) WriteArray(count int) {
	if count <= 0 {
		c.push([]interface{}{})
		return
	}
	c.stack = append(c.stack, &frame{need: count})
}
func (c *CapConn) WriteNull()                          { c.push(nil) }
func (c *CapConn) WriteRaw(data []byte)                { c.push("RAW:" + string(data)) }
func (c *CapConn) Context() interface{}                { return c.ctx }
func (c *CapConn) SetContext(v interface{})            { c.ctx = v }
func (c *CapConn) SetReadBuffer(bytes int)             {}
func (c *CapConn) Detach() redcon.DetachedConn         { return nil }
func (c *CapConn) ReadPipeline() []redcon.Command      { return nil }
func (c *CapConn) PeekPipeline() []redcon.Command      { return nil }
func (c *CapConn) NetConn() net.Conn                   { return nil }
func (c *CapConn) Flush() error                        { return nil }

// Result returns the single reply written (nil,false if none or incomplete).
func (c *CapConn) Result() (interface{}, bool) {
	if len(c.stack) != 0 || len(c.top) == 0 {
		return nil, false
	}
	return c.top[0], true
}

// Fmt renders a reply canonically (for traces and comparisons).
func Fmt(v interface{}) string {
	switch x := v.(type) {
	case nil:
		return "(nil)"
	case int64:
		return "(int)" + strconv.FormatInt(x, 10)
	case string:
		return "+" + x
	case []byte:
		return strconv.Quote(string(x))
	case RErr:
		return "-ERR " + string(x)
	case error:
		return "-ERR"
	case []interface{}:
		var sb strings.Builder
		sb.WriteString("[")
		for i, e := range x {
			if i > 0 {
				sb.WriteString(" ")
			}
			sb.WriteString(Fmt(e))
		}
		sb.WriteString("]")
		return sb.String()
	}
	return fmt.Sprintf("?%T:%v", v, v)
}

// IsErr reports whether a reply is an error reply.
func IsErr(v interface{}) bool {
	switch v.(type) {
	case RErr, error:
		return true
	}
	return false
}

// Cmd builds a redcon.Command from string/[]byte arguments.
func Cmd(args ...interface{}) redcon.Command {
	var bs [][]byte
	for _, a := range args {
		switch x := a.(type) {
		case string:
			bs = append(bs, []byte(x))
		case []byte:
			bs = append(bs, x)
		case int:
			bs = append(bs, []byte(strconv.Itoa(x)))
		case int64:
			bs = append(bs, []byte(strconv.FormatInt(x, 10)))
		default:
			bs = append(bs, []byte(fmt.Sprint(x)))
		}
	}
	return BuildCommand(bs)
}

// BuildCommand is common.BuildCommand.
func BuildCommand(args [][]byte) redcon.Command { return common.BuildCommand(args) }
