package engsim

import (
	"fmt"
	"path"

	"github.com/youzan/ZanRedisDB/engine"
)

// collect reads one iterator completely on one engine.
func (s *sim) collect(en *eng, sp iterSpec) ([]kv, error) {
	it, err := s.openIter(en, sp)
	if err != nil || it == nil {
		return nil, fmt.Errorf("cannot create iterator: %v", err)
	}
	var out []kv
	s.do(en, "probe scan", func() {
		for ; it.Valid(); it.Next() {
			v := it.Value()
			if v == nil {
				v = []byte{}
			}
			out = append(out, kv{k: it.Key(), v: v})
			if len(out) > 1000 {
				break
			}
		}
		it.Close()
	})
	return out, nil
}

// probeRadixNul keeps the known finding keyRadixNul observable although the
// lock-step exploration avoids its trigger in runs with mem(radix): a fixed
// scenario on a fresh mem(radix) engine, range iterators through the shared
// wrapper compared with the mathematical reference. It reports nothing once
// the seeks are repaired.
//
// Stored keys (P = first prefix of the run): P+"a", P+"a\x00b", P+"b"  and
// P+"c\x00x", P+"c\x00y".
func (s *sim) probeRadixNul() {
	if s.abort {
		return
	}
	en := &eng{name: "mem-radix", typ: "mem", memType: engine.VerifMemRadix, sub: "mem"}
	e, err := s.openEngine(en, path.Join(s.dir, "probe-radix"), false)
	if err != nil {
		return
	}
	en.e = e
	defer s.do(en, "probe close", func() { e.CloseAll() })
	P := s.prefixes[0]
	if len(P) == 0 {
		return
	}
	a, anb, b := cat(P, 'a'), cat(P, 'a', 0, 'b'), cat(P, 'b')
	cx, cy := cat(P, 'c', 0, 'x'), cat(P, 'c', 0, 'y')
	m := newModel()
	var ops []bop
	for _, k := range [][]byte{a, anb, b, cx, cy} {
		ops = append(ops, bop{kind: bPut, k: k, v: []byte("v")})
	}
	var cerr error
	s.do(en, "probe batch", func() {
		wb := e.DefaultWriteBatch()
		for _, o := range ops {
			wb.Put(clone(o.k), clone(o.v))
		}
		cerr = wb.Commit()
		wb.Clear()
	})
	if cerr != nil || en.dead {
		return
	}
	m.apply(ops)
	snap := m.snapshot()
	specs := []iterSpec{
		{min: cat(a, 0), max: b, typ: rangeClose},                  // forward seek to "a\0": must start at "a\0b"
		{min: P, max: cat(a, 0), typ: rangeClose, reverse: true},   // reverse seek to "a\0": must start at "a"
		{min: P, max: cat(P, 'c'), typ: rangeClose, reverse: true}, // reverse seek to "c": lands on an inner radix node
		{min: a, max: cy, typ: rangeClose},
	}
	s.c.Log("probe-radix-nul", "")
	for _, sp := range specs {
		exp := refRange(snap, sp)
		got, err := s.collect(en, sp)
		if en.dead {
			return
		}
		if err != nil {
			s.c.Violate(prop, "iterator", keyRadixNul, "mem-radix (fixed probe, stored keys %s): iterator %s fails: %v; reference result %s",
				kvString(snap), sp, err, kvString(exp))
			return
		}
		if !kvEqual(got, exp) {
			s.c.Violate(prop, "iterator", keyRadixNul, "mem-radix (fixed probe, stored keys %s): iterator %s = %s; reference result %s",
				kvString(snap), sp, kvString(got), kvString(exp))
			return
		}
	}
}
