// Package engsim decides property C20: every selectable storage engine
// (rocksdb, pebble, mem and the mem variants) implements the same key-value
// contract. One tape drives all engines in lock-step together with a
// sorted-map reference model; environment events (close/reopen, compaction,
// checkpoint, table-range deletion, iterators kept open across commits) are
// the simulated part, the rest is generator + reference model.
package engsim

import (
	"bytes"
	"fmt"
	"io"
	"log"
	"os"
	"path"
	"runtime"
	"sync/atomic"
	"time"

	"github.com/youzan/ZanRedisDB/common"
	"github.com/youzan/ZanRedisDB/engine"

	"verif/sim/core"
)

func init() {
	if common.RangeClose != rangeClose || common.RangeLOpen != rangeLOpen ||
		common.RangeROpen != rangeROpen || common.RangeOpen != rangeOpen {
		panic("engsim: range type constants of the repository changed")
	}
	if engine.KVType != 21 || engine.HashType != 22 {
		panic("engsim: engine.KVType/HashType changed")
	}
	engine.SetLogger(0, nil)
	if os.Getenv("VERIF_ENGSIM_LOG") == "" {
		// pebble's event listener logs every flush/compaction through the
		// standard logger; Go runtime crash output does not go through it
		log.SetOutput(io.Discard)
	}
}

const prop = "C20"

// Known-finding keys (see REGISTER.json / the engine's report). A mismatch is
// tagged with a key only when the cursor re-enactment with exactly that
// deviation reproduces the engine's result.
const (
	keyPebbleSeekLT = "pebble-reverse-closed-max-skipped"
	keyBtreeSeekLT  = "membtree-reverse-closed-max-skipped"
	keyMemFallback  = "mem-reverse-fallback-first-key"
	keyRadixNul     = "memradix-nul-extended-key-seek"
	keyRocksDFIR    = "rocksdb-deletefilesinrange-includes-limit"
)

type config struct {
	Mode        string         `json:"mode"`
	Scope       []string       `json:"scope"`
	Engines     []string       `json:"engines"`
	Prefixes    []string       `json:"prefixes"`
	Keys        int            `json:"keys"`
	CounterKeys int            `json:"counter_keys"`
	Ops         int            `json:"ops"`
	WriteBuffer int            `json:"write_buffer"`
	BlockSize   int            `json:"block_size"`
	TargetFile  int            `json:"target_file"`
	LevelBase   int            `json:"level_base"`
	Weights     []int          `json:"-"`
	OpWeights   map[string]int `json:"op_weights"`
}

// operation kinds (index into config.Weights)
const (
	opPut = iota
	opGet
	opCommit
	opIter
	opDel
	opDelRange
	opMerge
	opClear
	opExist
	opMultiGet
	opIterAdvance
	opIterClose
	opReopen
	opCompact
	opCkptSave
	opCkptVerify
	opTableRange
	nOpKinds
)

var opNames = [nOpKinds]string{"put", "get", "commit", "iter", "del", "delrange", "merge", "clear", "exist",
	"multiget", "iter-advance", "iter-close", "reopen", "compact", "ckpt-save", "ckpt-verify", "table-range"}

var baseWeights = [nOpKinds]int{20, 14, 10, 16, 8, 5, 6, 3, 6, 4, 6, 3, 2, 3, 2, 2, 2}

var runCounter int64

type cand struct {
	key  string // "" = the reference
	list []kv
}

type iterState struct {
	en       *eng
	it       *engine.RangeLimitedIterator
	buffered []kv // non-holdable engine: everything was read at creation
	bufPos   int
	cands    []cand
	ref      []kv
	got      int
	ended    bool
	reported bool // the reference candidate is gone and that was reported
	dead     bool // no candidate left (unkeyed violation reported)
}

type heldIter struct {
	id     int
	born   int // s.commits when the iterator was created
	spec   iterSpec
	exp    []kv
	states []*iterState
}

type ckpt struct {
	id       int
	snap     []kv
	dirs     []string // per engine index
	readOnly bool
}

type sim struct {
	c  *core.RunCtx
	t  *core.Tape
	cf config

	dir         string
	engs        []*eng
	adversarial bool
	emptyKeyRun bool
	withRadix   bool
	alphabet    []byte
	prefixSet   [][]byte
	nextByte    byte // appended to a key to form the bound just above it
	withRocks   bool
	prefixes    [][]byte
	pool        [][]byte
	ctrKeys     [][]byte

	m          *model
	pending    []bop
	hasBatch   bool
	held       []*heldIter
	ckpts      []*ckpt
	rangeDel   bool // a range deletion was committed in this run
	abort      bool
	nseq       int
	vctr       int
	nIterID    int
	nReopen    int
	nCkpt      int
	sampleOps  []string
	reads      int
	iters      int
	commits    int
	bigCommits int
	envEvents  int
}

func (s *sim) seq() int { s.nseq++; return s.nseq }

// big picks a bound by tier (bigger bounds in thorough).
func (s *sim) big(quick, thorough int) int {
	if s.c.Tier == "thorough" {
		return thorough
	}
	return quick
}

func clone(b []byte) []byte {
	if b == nil {
		return nil
	}
	c := make([]byte, len(b))
	copy(c, b)
	return c
}

func cat(a []byte, b ...byte) []byte {
	c := make([]byte, 0, len(a)+len(b))
	c = append(c, a...)
	return append(c, b...)
}

var prefixChoices = [][]byte{
	{0x15, 0x00, 0x03}, // KVType, table length 3: the data mapping's shape
	{0x15, 0x00, 0x04},
	{0x16, 0x00, 0x03},
	{0x00, 0x00, 0x00},
	{0xff, 0xff, 0xff},
	{0x15, 0xff, 0xff},
	{0x15, 0x00, 0x02},
}

var alphabetFull = []byte{0x61, 0x00, 0xff, 0x01, 0xfe, 0x62}
var alphabetNoNul = []byte{0x61, 0x01, 0xff, 0x02, 0xfe, 0x62}

// in runs with mem(radix) no key starts with the 0x00 byte (see setup)
var prefixChoicesRadix = [][]byte{
	{0x15, 0x00, 0x03},
	{0x15, 0x00, 0x04},
	{0x16, 0x00, 0x03},
	{0x01, 0x01, 0x01},
	{0xff, 0xff, 0xff},
	{0x15, 0xff, 0xff},
	{0x15, 0x00, 0x02},
}

func (s *sim) note(format string, args ...interface{}) {
	if len(s.sampleOps) < 40 {
		s.sampleOps = append(s.sampleOps, fmt.Sprintf(format, args...))
	}
}

func (s *sim) setup() bool {
	t := s.t
	quick := s.c.Tier != "thorough"
	// ---- which engines take part, and on which key shapes (explicit scope) ----
	s.adversarial = t.Weighted([]int{6, 4}) == 1
	if !s.adversarial {
		s.withRocks = !t.Bool(250)
		s.cf.Mode = "mapping-shaped keys (every key >= 3 bytes)"
		if s.withRocks {
			s.cf.Scope = append(s.cf.Scope, "rocksdb takes part; on iterators only for ranges inside one 3-byte prefix (its prefix extractor keeps an iterator inside the prefix of the start key)")
		}
	} else {
		s.cf.Mode = "adversarial keys (1-2 byte keys, cross-prefix and unbounded ranges)"
		s.cf.Scope = append(s.cf.Scope, "rocksdb excluded: the sandbox's assert-enabled librocksdb aborts on keys shorter than the 3-byte prefix")
		// The vendored pebble cannot flush a memtable whose smallest user key
		// is the empty key (sstable.Writer.addPoint compares against a zero
		// "largest key so far": "keys must be added in order: #0,DEL, #n,SET";
		// the flush is retried forever and Compact()/CompactAllRange never
		// return). The data mapping never stores the empty key (every key
		// starts with a type byte), so the empty key is stored only in runs
		// without pebble; it is used as a bound everywhere.
		s.emptyKeyRun = t.Bool(250)
		if s.emptyKeyRun {
			s.cf.Mode = "adversarial keys incl. the EMPTY key as a stored key"
			s.cf.Scope = append(s.cf.Scope, "pebble excluded: its flush fails forever once the empty key is stored")
		}
	}
	// mem(radix) seeks go wrong as soon as a stored key followed by 0x00 is a
	// prefix of another stored key or of the seek target (radixdb terminates
	// index keys with 0x00 and the vendored radix tree's lower-bound seeks
	// assume that no index key is a prefix of another): known finding
	// keyRadixNul, demonstrated by a fixed probe (probe.go). It also corrupts
	// DeleteRange, so exploring it in lock-step is pointless: runs WITH
	// mem(radix) use keys/bounds that cannot form such a pair (no 0x00 byte
	// after the 3-byte prefix, no key starting with 0x00), runs WITHOUT it
	// use 0x00 freely. Same split for two write-batch orders the data mapping
	// never issues (pendingWriteIn / pendingDeleteOf).
	s.withRadix = !t.Bool(300)
	if s.withRadix {
		s.alphabet, s.prefixSet, s.nextByte = alphabetNoNul, prefixChoicesRadix, 0x01
		s.cf.Scope = append(s.cf.Scope, "mem(radix) takes part: no 0x00 byte after the 3-byte prefix and no key starting with 0x00; no put-then-covering-DeleteRange and no delete-then-merge inside one batch")
	} else {
		s.alphabet, s.prefixSet, s.nextByte = alphabetFull, prefixChoices, 0x00
		s.cf.Scope = append(s.cf.Scope, "mem(radix) excluded: 0x00 bytes anywhere in keys and bounds, any operation order inside a batch")
	}
	withBtree := !t.Bool(350)
	withSkip := !t.Bool(350)
	if s.emptyKeyRun && !s.withRadix {
		// keep at least two engines
		withBtree, withSkip = true, true
	}
	if s.withRocks {
		s.engs = append(s.engs, &eng{name: "rocksdb", typ: "rocksdb", memType: -1, sub: "rocksdb", holdable: true})
	}
	if !s.emptyKeyRun {
		s.engs = append(s.engs, &eng{name: "pebble", typ: "pebble", memType: -1, sub: "pebble", holdable: true,
			dev: devFlags{strictPrev: true}})
	}
	if s.withRadix {
		s.engs = append(s.engs, &eng{name: "mem-radix", typ: "mem", memType: engine.VerifMemRadix, sub: "mem", holdable: true,
			dev: devFlags{unbounded: true}})
	}
	if withBtree {
		s.engs = append(s.engs, &eng{name: "mem-btree", typ: "mem", memType: engine.VerifMemBtree, sub: "mem",
			dev: devFlags{unbounded: true, strictPrev: true}})
	}
	if withSkip {
		s.engs = append(s.engs, &eng{name: "mem-skiplist", typ: "mem", memType: engine.VerifMemSkiplist, sub: "mem",
			dev: devFlags{unbounded: true}})
	}
	for _, en := range s.engs {
		s.cf.Engines = append(s.cf.Engines, en.name)
	}
	// key universe
	np := t.Range(1, 3)
	for i := 0; i < np; i++ {
		p := s.prefixSet[t.Choose(len(s.prefixSet))]
		dup := false
		for _, q := range s.prefixes {
			if bytes.Equal(p, q) {
				dup = true
			}
		}
		if !dup {
			s.prefixes = append(s.prefixes, p)
			s.cf.Prefixes = append(s.cf.Prefixes, hx(p))
		}
	}
	nk := t.Range(3, s.big(22, 40))
	seen := map[string]bool{}
	add := func(k []byte) {
		if !seen[string(k)] {
			seen[string(k)] = true
			s.pool = append(s.pool, k)
		}
	}
	for i := 0; i < nk; i++ {
		if s.adversarial && t.Bool(350) {
			n := t.Range(0, 2)
			if n == 0 && !s.emptyKeyRun {
				n = 1
			}
			k := []byte{}
			for j := 0; j < n; j++ {
				k = append(k, s.alphabet[t.Choose(len(s.alphabet))])
			}
			add(k)
			continue
		}
		k := clone(s.prefixes[t.Choose(len(s.prefixes))])
		n := t.Range(0, 3)
		for j := 0; j < n; j++ {
			k = append(k, s.alphabet[t.Choose(len(s.alphabet))])
		}
		add(k)
	}
	s.ctrKeys = append(s.ctrKeys, cat(s.prefixes[0], 0x7e, 'c'))
	if t.Bool(400) {
		s.ctrKeys = append(s.ctrKeys, cat(s.prefixes[len(s.prefixes)-1], 0x61, 0x7e))
	}
	if s.adversarial && t.Bool(400) {
		s.ctrKeys = append(s.ctrKeys, []byte{0x7e})
	}
	s.cf.Keys = len(s.pool)
	s.cf.CounterKeys = len(s.ctrKeys)
	// lower bound 0 so that the shrinker can cut a failing run down to the
	// operations that matter
	if quick {
		s.cf.Ops = t.Range(0, 100)
	} else {
		s.cf.Ops = t.Range(0, 700)
	}
	s.cf.WriteBuffer = []int{1 << 20, 256 << 10, 64 << 10}[t.Choose(3)]
	s.cf.BlockSize = []int{8192, 1024}[t.Choose(2)]
	s.cf.TargetFile = []int{64 << 20, 64 << 10}[t.Choose(2)]
	s.cf.LevelBase = []int{256 << 20, 256 << 10}[t.Choose(2)]
	// swarm: per-run weights of the operation kinds
	s.cf.Weights = make([]int, nOpKinds)
	s.cf.OpWeights = map[string]int{}
	for i := 0; i < nOpKinds; i++ {
		f := []int{1, 0, 2, 4}[t.Choose(4)]
		if (i == opPut || i == opCommit || i == opGet || i == opIter) && f == 0 {
			f = 1
		}
		s.cf.Weights[i] = baseWeights[i] * f
		s.cf.OpWeights[opNames[i]] = s.cf.Weights[i]
	}

	base := os.Getenv("VERIF_SCRATCH")
	if base == "" {
		base = "/dev/shm"
	}
	s.dir = path.Join(base, fmt.Sprintf("engsim-%d-%d", os.Getpid(), atomic.AddInt64(&runCounter, 1)))
	os.RemoveAll(s.dir)
	if err := os.MkdirAll(s.dir, 0755); err != nil {
		s.c.Log("INFRA", "mkdir: %v", err)
		return false
	}
	for _, en := range s.engs {
		en.dir = path.Join(s.dir, en.name)
		e, err := s.openEngine(en, en.dir, false)
		if err != nil {
			s.c.Violate(prop, "open-failed", "", "%s: cannot open a fresh engine: %v", en.name, err)
			s.abort = true
			return false
		}
		en.e = e
	}
	s.m = newModel()
	defer s.prefill()
	s.c.Log("CONFIG", "mode=%v engines=%v prefixes=%v keys=%d ctr=%d ops=%d wbuf=%d bs=%d tf=%d lb=%d",
		s.adversarial, s.cf.Engines, s.cf.Prefixes, len(s.pool), len(s.ctrKeys), s.cf.Ops,
		s.cf.WriteBuffer, s.cf.BlockSize, s.cf.TargetFile, s.cf.LevelBase)
	return true
}

// prefill commits a first batch so that reads and ranges have something to find.
func (s *sim) prefill() {
	if s.abort {
		return
	}
	for _, k := range s.pool {
		if s.t.Bool(600) {
			s.batchOp(bop{kind: bPut, k: k, v: s.genValue()})
		}
	}
	if s.t.Bool(500) {
		s.batchOp(bop{kind: bMerge, k: s.ctrKeys[0], v: putLE64(uint64(s.t.Range(1, 9)))})
	}
	s.finishBatch(true)
}

// ---------------------------------------------------------------- keys/values

func (s *sim) anyKey() []byte {
	n := len(s.pool) + len(s.ctrKeys)
	i := s.t.Choose(n)
	if i < len(s.pool) {
		return s.pool[i]
	}
	return s.ctrKeys[i-len(s.pool)]
}

func (s *sim) genValue() []byte {
	s.vctr++
	tag := []byte(fmt.Sprintf("v%d.", s.vctr))
	var n int
	switch s.t.Weighted([]int{5, 1, 1, 3, 1}) {
	case 0:
		n = s.t.Range(1, 7)
	case 1:
		return nil
	case 2:
		return []byte{}
	case 3:
		n = s.t.Range(8, 24) // long enough for NoTimestamp to cut 8 bytes
	default:
		n = s.t.Range(200, 3000)
	}
	v := make([]byte, n)
	for i := range v {
		v[i] = tag[i%len(tag)]
	}
	return v
}

func samePrefix3(a, b []byte) bool {
	return len(a) >= 3 && len(b) >= 3 && bytes.Equal(a[:3], b[:3])
}

// genBound draws an iterator/range bound. With p != nil the bound stays
// inside the 3-byte prefix p and is at least 3 bytes long (the data
// mapping's shape: [type][table-length]...).
func (s *sim) genBound(p []byte, isMax bool) []byte {
	t := s.t
	if p != nil {
		var in [][]byte
		for _, k := range s.pool {
			if samePrefix3(k, p) {
				in = append(in, k)
			}
		}
		for _, k := range s.ctrKeys {
			if samePrefix3(k, p) {
				in = append(in, k)
			}
		}
		edge := clone(p)
		if isMax {
			edge = cat(p, 0xff, 0xff, 0xff, 0xff)
		}
		if len(in) == 0 {
			return edge
		}
		k := in[t.Choose(len(in))]
		switch t.Weighted([]int{6, 4, 1, 1}) {
		case 0:
			return clone(k)
		case 1:
			return edge
		case 2:
			return cat(k, s.nextByte)
		default:
			if len(k) > 3 {
				return clone(k[:len(k)-1])
			}
			return clone(k)
		}
	}
	k := s.anyKey()
	switch t.Weighted([]int{6, 2, 1, 1, 1, 1}) {
	case 0:
		return clone(k)
	case 1:
		return nil
	case 2:
		return []byte{}
	case 3:
		return cat(k, s.nextByte)
	case 4:
		if len(k) > 0 {
			return clone(k[:len(k)-1])
		}
		return clone(k)
	default:
		return cat(k, 0xff)
	}
}

// genRange draws start <= end, both non-nil (what the data mapping hands to
// DeleteRange / CompactRange / DeleteFilesInRange).
func (s *sim) genRange() ([]byte, []byte) {
	if s.t.Bool(550) {
		// narrow: one key, or one key and everything it is a prefix of
		k := s.anyKey()
		if len(k) > 0 || s.emptyKeyRun {
			if s.t.Bool(500) {
				return clone(k), cat(k, s.nextByte)
			}
			return clone(k), cat(k, 0xff, 0xff, 0xff, 0xff)
		}
	}
	var p []byte
	if s.t.Bool(500) {
		p = s.prefixes[s.t.Choose(len(s.prefixes))]
	}
	a := s.genBound(p, false)
	b := s.genBound(p, true)
	if a == nil {
		a = []byte{}
	}
	if b == nil {
		b = cat(s.anyKey(), 0xff)
	}
	if !s.emptyKeyRun {
		// pebble takes part: no empty user key, not even as the start of a
		// range tombstone (vendored pebble: DeleteRange("", x) + a point
		// delete in one batch, after an earlier range tombstone and a reopen,
		// lets an overwritten value resurface at the next compaction; the
		// data mapping never passes an empty start key)
		if len(a) == 0 {
			a = []byte{0x00}
		}
		if len(b) == 0 {
			b = []byte{0x00}
		}
	}
	if !s.adversarial {
		// rocksdb may take part in these runs: every key handed to it is >= 3 bytes
		for len(a) < 3 {
			a = append(a, 0)
		}
		for len(b) < 3 {
			b = append(b, 0)
		}
	}
	if bytes.Compare(a, b) > 0 {
		a, b = b, a
	}
	return a, b
}

func (s *sim) rocksSafeRange(sp iterSpec) bool {
	return sp.min != nil && sp.max != nil && samePrefix3(sp.min, sp.max) && bytes.Compare(sp.min, sp.max) <= 0
}

// ---------------------------------------------------------------- batches

func (s *sim) ensureBatch() {
	if s.hasBatch {
		return
	}
	owned := s.t.Bool(300)
	for _, en := range s.engs {
		en := en
		s.do(en, "get write batch", func() {
			if owned {
				en.wb = en.e.NewWriteBatch()
			} else {
				// like rockredis: the default batch is fetched once per
				// open engine and reused (Clear after every commit)
				if en.defwb == nil {
					en.defwb = en.e.DefaultWriteBatch()
				}
				en.wb = en.defwb
			}
			en.owned = owned
		})
		if en.wb == nil && !en.dead {
			s.c.Violate(prop, "nil-write-batch", "", "%s returned a nil write batch", en.name)
			s.abort = true
			return
		}
	}
	s.hasBatch = true
	s.c.Log("batch-begin", "owned=%v", owned)
}

func (s *sim) batchOp(o bop) {
	s.ensureBatch()
	if s.abort {
		return
	}
	s.c.Log("b-"+[]string{"put", "del", "delrange", "merge"}[o.kind], "%s", o)
	s.note("%s", o)
	for _, en := range s.engs {
		en := en
		s.do(en, o.String(), func() {
			switch o.kind {
			case bPut:
				en.wb.Put(clone(o.k), clone(o.v))
			case bDel:
				en.wb.Delete(clone(o.k))
			case bDelRange:
				en.wb.DeleteRange(clone(o.k), clone(o.v))
			case bMerge:
				en.wb.Merge(clone(o.k), clone(o.v))
			}
		})
	}
	s.pending = append(s.pending, o)
}

// pendingWriteIn: does the unfinished batch already put/merge a key inside
// [a,b)? A range deletion covering a key written EARLIER IN THE SAME BATCH is
// something the data mapping never issues (every DeleteRange in rockredis is
// the first touch of its range within the batch: hclear/sclear/zclear/ltrim/
// bitmap clear/DeleteTableRange; commands batched together by the state
// machine have distinct primary keys). The engines do differ there: the
// mem(radix) batch applies DeleteRange eagerly against the committed state
// and leaves the key put earlier in the batch alive, rocksdb/pebble/btree/
// skiplist delete it. The generator therefore splits the batch; the
// difference is recorded in the engine's report, not exercised.
func (s *sim) pendingWriteIn(a, b []byte) bool {
	for _, o := range s.pending {
		if (o.kind == bPut || o.kind == bMerge) && bytes.Compare(o.k, a) >= 0 && bytes.Compare(o.k, b) < 0 {
			return true
		}
	}
	return false
}

// pendingDeleteOf: does the unfinished batch already delete k (point or
// range)? Merge after Delete of the same key in one batch is never issued by
// the data mapping (IncrTableKeyCount and DelTableKeyCount never share a
// batch). mem(radix) then merges onto the committed value (its Merge reads
// the committed store when its per-batch cache has no entry), the other
// engines onto "absent".
func (s *sim) pendingDeleteOf(k []byte) bool {
	for _, o := range s.pending {
		if o.kind == bDel && bytes.Equal(o.k, k) {
			return true
		}
		if o.kind == bDelRange && bytes.Compare(k, o.k) >= 0 && bytes.Compare(k, o.v) < 0 {
			return true
		}
	}
	return false
}

func (s *sim) finishBatch(commit bool) {
	if !s.hasBatch {
		return
	}
	viaWrite := false
	if commit {
		viaWrite = s.t.Bool(500)
	}
	for _, en := range s.engs {
		en := en
		var err error
		s.do(en, "commit/clear", func() {
			if commit {
				if viaWrite {
					err = en.e.Write(en.wb)
				} else {
					err = en.wb.Commit()
				}
			}
			en.wb.Clear()
			if en.owned {
				en.wb.Destroy()
			}
		})
		en.wb, en.owned = nil, false
		if err != nil {
			s.c.Violate(prop, "commit-error", "", "%s: commit of %d ops failed: %v", en.name, len(s.pending), err)
		}
	}
	if commit {
		s.c.Log("commit", "ops=%d viaWrite=%v", len(s.pending), viaWrite)
		s.note("commit(%d ops)", len(s.pending))
		s.m.apply(s.pending)
		s.commits++
		if len(s.pending) >= 2 {
			s.bigCommits++
		}
		for _, o := range s.pending {
			if o.kind == bDelRange {
				s.rangeDel = true
			}
		}
		if len(s.held) > 0 && len(s.pending) > 0 {
			s.c.Probe("commit-with-open-iterator")
		}
	} else {
		s.c.Log("clear", "ops=%d", len(s.pending))
		s.note("clear(%d ops)", len(s.pending))
		if len(s.pending) > 0 {
			s.c.Probe("batch-cleared")
		}
	}
	s.pending = nil
	s.hasBatch = false
	s.verifyAllKeys("after-" + map[bool]string{true: "commit", false: "clear"}[commit])
}

// ---------------------------------------------------------------- point reads

type readRes struct {
	v       []byte
	present bool
	err     error
}

func (s *sim) expectGet(k []byte) readRes {
	v, ok := s.m.get(k)
	return readRes{v: v, present: ok}
}

func (r readRes) String() string {
	if r.err != nil {
		return "err:" + r.err.Error()
	}
	if !r.present {
		return "absent"
	}
	return hv(r.v)
}

func (s *sim) readVia(en *eng, variant int, k []byte) readRes {
	var r readRes
	s.do(en, "get", func() {
		switch variant {
		case 0:
			r.v, r.err = en.e.GetBytes(k)
			r.present = r.v != nil
		case 1:
			r.v, r.err = en.e.GetBytesNoLock(k)
			r.present = r.v != nil
		case 2, 3:
			var ref engine.RefSlice
			if variant == 2 {
				ref, r.err = en.e.GetRef(k)
			} else {
				ref, r.err = en.e.GetRefNoLock(k)
			}
			if r.err == nil && ref != nil {
				d := ref.Data()
				if d != nil {
					r.present = true
					r.v = clone(d)
					b := ref.Bytes()
					if !bytes.Equal(b, r.v) {
						r.err = fmt.Errorf("RefSlice.Bytes()=%s differs from Data()=%s", hv(b), hv(r.v))
					}
				}
				ref.Free()
			}
		default:
			op := func(v []byte) error {
				if v != nil {
					r.present = true
					r.v = clone(v)
				}
				return nil
			}
			if variant == 4 {
				r.err = en.e.GetValueWithOp(k, op)
			} else {
				r.err = en.e.GetValueWithOpNoLock(k, op)
			}
		}
	})
	if r.present && r.v == nil {
		r.v = []byte{}
	}
	return r
}

func (s *sim) checkRead(en *eng, what string, k []byte, got, exp readRes) {
	s.reads++
	if got.err != nil || got.present != exp.present || !bytes.Equal(got.v, exp.v) {
		s.c.Violate(prop, "point-read", "", "%s: %s(%s) = %s, reference %s (pending uncommitted ops: %d)",
			en.name, what, hx(k), got, exp, len(s.pending))
	}
}

var getNames = []string{"GetBytes", "GetBytesNoLock", "GetRef", "GetRefNoLock", "GetValueWithOp", "GetValueWithOpNoLock"}

func (s *sim) opGet() {
	k := s.anyKey()
	variant := s.t.Weighted([]int{4, 2, 2, 1, 1, 1})
	exp := s.expectGet(k)
	s.c.Log("get", "%s(%s) = %s", getNames[variant], hx(k), exp)
	s.note("%s(%s)", getNames[variant], hx(k))
	for _, en := range s.engs {
		s.checkRead(en, getNames[variant], k, s.readVia(en, variant, k), exp)
	}
}

func (s *sim) opExist() {
	k := s.anyKey()
	nolock := s.t.Bool(400)
	_, exp := s.m.get(k)
	s.c.Log("exist", "nolock=%v %s = %v", nolock, hx(k), exp)
	s.note("Exist(%s)", hx(k))
	for _, en := range s.engs {
		en := en
		var got bool
		var err error
		s.do(en, "exist", func() {
			if nolock {
				got, err = en.e.ExistNoLock(k)
			} else {
				got, err = en.e.Exist(k)
			}
		})
		s.reads++
		if err != nil || got != exp {
			s.c.Violate(prop, "exist", "", "%s: Exist(%s) = %v err=%v, reference %v", en.name, hx(k), got, err, exp)
		}
	}
}

func (s *sim) opMultiGet() {
	n := s.t.Range(1, 6)
	alias := s.t.Bool(300)
	keys := make([][]byte, n)
	for i := range keys {
		keys[i] = s.anyKey()
	}
	exps := make([]readRes, n)
	desc := ""
	for i, k := range keys {
		exps[i] = s.expectGet(k)
		desc += hx(k) + "=" + exps[i].String() + " "
	}
	s.c.Log("multiget", "alias=%v %s", alias, desc)
	s.note("MultiGet(%d keys)", n)
	for _, en := range s.engs {
		en := en
		kl := make([][]byte, n)
		for i := range kl {
			kl[i] = clone(keys[i])
		}
		vals := make([][]byte, n)
		if alias {
			vals = kl // rockredis t_hll.go hands the key list in as the value list
		}
		errs := make([]error, n)
		s.do(en, "multiget", func() { en.e.MultiGetBytes(kl, vals, errs) })
		for i := range keys {
			got := readRes{v: vals[i], present: vals[i] != nil, err: errs[i]}
			if got.present && got.v == nil {
				got.v = []byte{}
			}
			s.checkRead(en, "MultiGetBytes", keys[i], got, exps[i])
		}
	}
}

// verifyAllKeys reads every key of the universe on every engine.
func (s *sim) verifyAllKeys(when string) {
	if s.abort {
		return
	}
	for _, en := range s.engs {
		for _, k := range s.pool {
			s.checkRead(en, when+" GetBytes", k, s.readVia(en, 0, k), s.expectGet(k))
		}
		for _, k := range s.ctrKeys {
			s.checkRead(en, when+" GetBytes", k, s.readVia(en, 0, k), s.expectGet(k))
		}
	}
}

// ---------------------------------------------------------------- iterators

func (s *sim) genIterSpec() iterSpec {
	t := s.t
	var sp iterSpec
	var p []byte
	if t.Bool(550) {
		p = s.prefixes[t.Choose(len(s.prefixes))]
	}
	sp.min = s.genBound(p, false)
	sp.max = s.genBound(p, true)
	swapIt := !t.Bool(80)
	if sp.min != nil && sp.max != nil && bytes.Compare(sp.min, sp.max) > 0 && swapIt {
		sp.min, sp.max = sp.max, sp.min
	}
	sp.typ = []uint8{rangeClose, rangeLOpen, rangeROpen, rangeOpen}[t.Choose(4)]
	sp.reverse = t.Bool(500)
	sp.limited = t.Bool(500)
	if sp.limited {
		switch t.Weighted([]int{5, 4, 1, 1}) {
		case 0:
			sp.offset = 0
		case 1:
			sp.offset = t.Range(1, 4)
		case 2:
			sp.offset = t.Range(5, 40)
		default:
			sp.offset = -1
		}
		switch t.Weighted([]int{3, 5, 1, 1}) {
		case 0:
			sp.count = -1
		case 1:
			sp.count = t.Range(1, 5)
		case 2:
			sp.count = 0
		default:
			sp.count = t.Range(6, 50)
		}
	}
	sp.withSnap = t.Bool(300)
	ign := t.Bool(200)
	// IgnoreDel lets rocksdb skip range tombstones ("may iterate some deleted
	// keys still not compacted", rock_iter.go). The only user (raft log
	// storage) never range-deletes, so it is only requested while no range
	// deletion was committed.
	sp.ignoreDel = ign && !s.rangeDel
	sp.noTs = []byte{0, 21, 22, 1}[t.Weighted([]int{6, 2, 1, 1})]
	return sp
}

func (s *sim) openIter(en *eng, sp iterSpec) (*engine.RangeLimitedIterator, error) {
	var it *engine.RangeLimitedIterator
	var err error
	s.do(en, "new iterator "+sp.String(), func() {
		opts := engine.IteratorOpts{Reverse: sp.reverse, IgnoreDel: sp.ignoreDel, WithSnap: sp.withSnap}
		opts.Min = clone(sp.min)
		opts.Max = clone(sp.max)
		opts.Type = sp.typ
		if sp.limited {
			opts.Offset, opts.Count = sp.offset, sp.count
			it, err = engine.NewDBRangeLimitIteratorWithOpts(en.e, opts)
		} else {
			it, err = engine.NewDBRangeIteratorWithOpts(en.e, opts)
		}
		if err == nil && it != nil && sp.noTs != 0 {
			it.NoTimestamp(sp.noTs)
		}
	})
	return it, err
}

func (s *sim) candidates(en *eng, snap []kv, sp iterSpec, exp []kv) []cand {
	cs := []cand{{key: "", list: exp}}
	addAlt := func(key string, d devFlags) {
		alt := simCursor(snap, sp, d)
		for _, c := range cs {
			if kvEqual(c.list, alt) {
				return
			}
		}
		cs = append(cs, cand{key: key, list: alt})
	}
	seekKey := keyPebbleSeekLT
	if en.memType >= 0 {
		seekKey = keyBtreeSeekLT
	}
	if en.dev.strictPrev && !en.dev.unbounded {
		addAlt(seekKey, devFlags{strictPrev: true})
	}
	if en.dev.unbounded {
		addAlt(keyMemFallback, devFlags{unbounded: true})
	}
	if en.dev.strictPrev && en.dev.unbounded {
		addAlt(seekKey, devFlags{strictPrev: true, unbounded: true})
	}
	return cs
}

// observe feeds one observation (an element, or the end) of an engine's
// iterator into the candidate filter.
func (s *sim) observe(st *iterState, sp iterSpec, e *kv) {
	if st.dead {
		return
	}
	var keep []cand
	for _, c := range st.cands {
		if e == nil {
			if len(c.list) == st.got {
				keep = append(keep, c)
			}
		} else if len(c.list) > st.got && bytes.Equal(c.list[st.got].k, e.k) && bytes.Equal(c.list[st.got].v, e.v) {
			keep = append(keep, c)
		}
	}
	obs := "end (Valid()=false)"
	if e != nil {
		obs = hx(e.k) + "=" + hv(e.v)
	}
	refAlive := len(keep) > 0 && keep[0].key == ""
	if !refAlive && !st.reported {
		st.reported = true
		ref := st.ref
		if len(keep) > 0 {
			s.c.Violate(prop, "iterator", keep[0].key,
				"%s: iterator %s: element #%d is %s; reference result %s; the engine's result matches the re-enactment with the known deviation %q: %s",
				st.en.name, sp, st.got, obs, kvString(ref), keep[0].key, kvString(keep[0].list))
		}
	}
	if len(keep) == 0 {
		st.dead = true
		s.c.Violate(prop, "iterator", "", "%s: iterator %s: element #%d is %s; reference result %s",
			st.en.name, sp, st.got, obs, kvString(st.ref))
	}
	st.cands = keep
	if e == nil {
		st.ended = true
	} else {
		st.got++
	}
}

// stepIter advances one engine's iterator by up to n elements.
func (s *sim) stepIter(st *iterState, sp iterSpec, n int) {
	for i := 0; i < n && !st.ended && !st.dead && !s.abort; i++ {
		if st.it == nil {
			if st.bufPos < len(st.buffered) {
				e := st.buffered[st.bufPos]
				st.bufPos++
				s.observe(st, sp, &e)
			} else {
				s.observe(st, sp, nil)
			}
			continue
		}
		var valid, again bool
		var k, rk, v, rv []byte
		ok := s.do(st.en, "iterator step", func() {
			valid = st.it.Valid()
			if valid {
				rk = clone(st.it.RefKey())
				k = st.it.Key()
				rv = clone(st.it.RefValue())
				v = st.it.Value()
				st.it.Next()
			} else {
				again = st.it.Valid()
			}
		})
		if !ok {
			st.dead = true
			return
		}
		if valid {
			if !bytes.Equal(rk, k) || !bytes.Equal(rv, v) {
				s.c.Violate(prop, "iterator-ref-copy", "", "%s: iterator %s: RefKey/RefValue (%s=%s) differ from Key/Value (%s=%s)",
					st.en.name, sp, hx(rk), hv(rv), hx(k), hv(v))
			}
			if v == nil {
				v = []byte{}
			}
			s.observe(st, sp, &kv{k: k, v: v})
		} else {
			if again {
				s.c.Violate(prop, "iterator", "", "%s: iterator %s: Valid() false then true without a move", st.en.name, sp)
			}
			s.observe(st, sp, nil)
		}
	}
}

func (s *sim) closeIterState(st *iterState) {
	if st.it != nil {
		it := st.it
		st.it = nil
		s.do(st.en, "iterator close", func() { it.Close() })
	}
}

func (s *sim) opIter() {
	sp := s.genIterSpec()
	hold := s.t.Bool(300) && len(s.held) < s.big(3, 5)
	first := 1 << 30
	if hold {
		first = s.t.Range(0, 3)
	}
	snap := s.m.snapshot()
	exp := refRange(snap, sp)
	// harness self-test: the wrapper re-enactment without deviations is the definition
	if sp.min == nil || sp.max == nil || bytes.Compare(sp.min, sp.max) <= 0 {
		if alt := simCursor(snap, sp, devFlags{}); !kvEqual(alt, exp) {
			s.c.Violate(prop, "harness-model-disagreement", "", "refRange %s vs simCursor %s for %s", kvString(exp), kvString(alt), sp)
		}
	}
	s.iters++
	s.c.Log("iter", "%s hold=%v -> %s", sp, hold, kvString(exp))
	s.note("iter %s", sp)
	if len(exp) == 0 {
		s.c.Count("iter.empty", 1)
	}
	h := &heldIter{spec: sp, exp: exp, born: s.commits}
	for _, en := range s.engs {
		if en.name == "rocksdb" && !s.rocksSafeRange(sp) {
			s.c.Count("iter.skipped-on-rocksdb", 1)
			continue
		}
		it, err := s.openIter(en, sp)
		if s.abort {
			return
		}
		if err != nil || it == nil {
			s.c.Violate(prop, "iterator", "", "%s: cannot create iterator %s: %v", en.name, sp, err)
			continue
		}
		st := &iterState{en: en, it: it, cands: s.candidates(en, snap, sp, exp), ref: exp}
		if hold && !en.holdable {
			// read everything now, replay it later in lock-step with the others
			s.do(en, "iterator drain", func() {
				for ; it.Valid(); it.Next() {
					v := it.Value()
					if v == nil {
						v = []byte{}
					}
					st.buffered = append(st.buffered, kv{k: it.Key(), v: v})
					if len(st.buffered) > 10000 {
						break
					}
				}
				it.Close()
			})
			st.it = nil
		}
		s.stepIter(st, sp, first)
		if hold {
			h.states = append(h.states, st)
		} else {
			s.closeIterState(st)
		}
	}
	if hold {
		s.nIterID++
		h.id = s.nIterID
		s.held = append(s.held, h)
	}
}

func (s *sim) opIterAdvance(closeIt bool) {
	if len(s.held) == 0 {
		return
	}
	i := s.t.Choose(len(s.held))
	h := s.held[i]
	n := 0
	if !closeIt {
		n = s.t.Range(1, 5)
		if s.t.Bool(300) {
			n = 1 << 30
		}
	}
	s.c.Log("iter-advance", "id=%d n=%d close=%v", h.id, n, closeIt)
	for _, st := range h.states {
		before := st.got
		s.stepIter(st, h.spec, n)
		if s.commits > h.born {
			// elements (or the end) observed through an iterator that is older than a later commit
			s.c.Count("held-iterator.observations-after-later-commit", int64(st.got-before))
			if st.ended {
				s.c.Count("held-iterator.observations-after-later-commit", 1)
			}
		}
	}
	done := closeIt
	if !done {
		done = true
		for _, st := range h.states {
			if !st.ended && !st.dead {
				done = false
			}
		}
	}
	if done {
		for _, st := range h.states {
			s.closeIterState(st)
		}
		s.held = append(s.held[:i], s.held[i+1:]...)
	}
}

func (s *sim) closeAllHeld(finish bool) {
	for _, h := range s.held {
		for _, st := range h.states {
			if finish {
				s.stepIter(st, h.spec, 1<<30)
			}
			s.closeIterState(st)
		}
	}
	s.held = nil
}

// scanAll reads the complete contents of an engine through the shared
// iterator wrapper. rocksdb: one closed range per prefix of the universe (its
// iterators never leave the prefix of the start key); others: one unbounded
// iteration.
func (s *sim) scanAll(en *eng, e engine.KVEngine) ([]kv, error) {
	var out []kv
	var specs []iterSpec
	if en.name == "rocksdb" {
		ps := make([]string, 0, len(s.prefixes))
		for _, p := range s.prefixes {
			ps = append(ps, string(p))
		}
		// ascending prefix order so that the concatenation is sorted
		for i := range ps {
			for j := i + 1; j < len(ps); j++ {
				if ps[j] < ps[i] {
					ps[i], ps[j] = ps[j], ps[i]
				}
			}
		}
		for _, p := range ps {
			specs = append(specs, iterSpec{min: []byte(p), max: cat([]byte(p), 0xff, 0xff, 0xff, 0xff, 0xff), typ: rangeClose})
		}
	} else {
		specs = []iterSpec{{typ: rangeClose}}
	}
	var err error
	old := en.e
	en.e = e
	defer func() { en.e = old }()
	for _, sp := range specs {
		it, e2 := s.openIter(en, sp)
		if e2 != nil || it == nil {
			return nil, fmt.Errorf("cannot create iterator: %v", e2)
		}
		s.do(en, "scan", func() {
			for ; it.Valid(); it.Next() {
				v := it.Value()
				if v == nil {
					v = []byte{}
				}
				out = append(out, kv{k: it.Key(), v: v})
				if len(out) > 100000 {
					err = fmt.Errorf("scan does not terminate")
					break
				}
			}
			it.Close()
		})
	}
	return out, err
}

// ---------------------------------------------------------------- environment

func (s *sim) opReopen() {
	if s.nReopen >= s.big(3, 8) {
		return
	}
	s.nReopen++
	newObject := s.t.Bool(500)
	// an unfinished batch is abandoned by the restart: nothing of it may be visible afterwards
	abandoned := len(s.pending)
	s.closeAllHeld(false)
	s.c.Log("reopen", "newObject=%v abandoned-ops=%d", newObject, abandoned)
	s.note("close+reopen all engines (abandons %d pending ops)", abandoned)
	s.c.Fault("reopen")
	if abandoned > 0 {
		s.c.Probe("batch-abandoned-by-restart")
	}
	s.envEvents++
	for _, en := range s.engs {
		if err := s.reopen(en, newObject); err != nil {
			s.c.Violate(prop, "reopen-failed", "", "%s: close+reopen failed: %v", en.name, err)
			s.abort = true
			return
		}
	}
	s.pending = nil
	s.hasBatch = false
	s.verifyAllKeys("after-reopen")
	s.verifyScan("after-reopen")
}

func (s *sim) verifyScan(when string) {
	if s.abort {
		return
	}
	snap := s.m.snapshot()
	for _, en := range s.engs {
		got, err := s.scanAll(en, en.e)
		if err != nil {
			s.c.Violate(prop, "scan", "", "%s: %s full scan failed: %v", en.name, when, err)
			continue
		}
		if !kvEqual(got, snap) {
			s.c.Violate(prop, "scan", "", "%s: %s full scan = %s, reference %s", en.name, when, kvString(got), kvString(snap))
		}
	}
}

func (s *sim) opCompact() {
	all := s.t.Bool(400)
	var a, b []byte
	if !all {
		a, b = s.genRange()
	}
	s.c.Log("compact", "all=%v %s %s", all, hx(a), hx(b))
	s.note("compact all=%v [%s,%s]", all, hx(a), hx(b))
	s.c.Fault("compact")
	s.envEvents++
	for _, en := range s.engs {
		en := en
		s.do(en, "compact", func() {
			if all {
				en.e.CompactAllRange()
			} else {
				en.e.CompactRange(engine.CRange{Start: clone(a), Limit: clone(b)})
			}
		})
	}
}

func (s *sim) opCkptSave() {
	if s.nCkpt >= s.big(2, 4) {
		return
	}
	s.nCkpt++
	notify := s.t.Bool(300)
	ck := &ckpt{id: s.nCkpt, snap: s.m.snapshot(), readOnly: s.t.Bool(500)}
	s.c.Log("ckpt-save", "id=%d keys=%d notify=%v", ck.id, len(ck.snap), notify)
	s.note("checkpoint save #%d", ck.id)
	s.c.Fault("checkpoint")
	s.envEvents++
	for _, en := range s.engs {
		d := path.Join(s.dir, fmt.Sprintf("ck%d-%s", ck.id, en.name))
		if err := s.saveCheckpoint(en, d, notify); err != nil {
			s.c.Violate(prop, "checkpoint", "", "%s: checkpoint save failed: %v", en.name, err)
		}
		ck.dirs = append(ck.dirs, d)
	}
	s.ckpts = append(s.ckpts, ck)
}

func (s *sim) verifyCkpt(ck *ckpt) {
	s.c.Log("ckpt-verify", "id=%d readonly=%v", ck.id, ck.readOnly)
	s.note("open + read checkpoint #%d", ck.id)
	for i, en := range s.engs {
		if s.abort || en.dead {
			break
		}
		// rockredis validates a backup with CheckDBEngForRead before using it
		var cerr error
		dbDir := path.Join(ck.dirs[i], en.sub)
		s.do(en, "CheckDBEngForRead", func() { cerr = en.e.CheckDBEngForRead(dbDir) })
		if cerr != nil {
			s.c.Violate(prop, "checkpoint", "", "%s: CheckDBEngForRead rejects a checkpoint that Save reported as written: %v", en.name, cerr)
		}
		savedCfg := en.cfg
		e, err := s.openEngine(en, ck.dirs[i], ck.readOnly)
		en.cfg = savedCfg
		if err != nil {
			s.c.Violate(prop, "checkpoint", "", "%s: cannot open checkpoint: %v", en.name, err)
			continue
		}
		got, err := s.scanAll(en, e)
		if err != nil {
			s.c.Violate(prop, "checkpoint", "", "%s: cannot read checkpoint: %v", en.name, err)
		} else if !kvEqual(got, ck.snap) {
			s.c.Violate(prop, "checkpoint", "", "%s: checkpoint #%d holds %s, state at save time was %s", en.name, ck.id, kvString(got), kvString(ck.snap))
		}
		s.do(en, "close checkpoint", func() { e.CloseAll() })
		os.RemoveAll(ck.dirs[i])
	}
	s.c.Probe("checkpoint-read")
}

func (s *sim) opCkptVerify() {
	if len(s.ckpts) == 0 {
		return
	}
	ck := s.ckpts[0]
	s.ckpts = s.ckpts[1:]
	s.verifyCkpt(ck)
}

// opTableRange is rockredis.DeleteTableRange: DeleteFilesInRange(rg) followed
// by DeleteRange(rg) in a batch of its own, committed at once.
func (s *sim) opTableRange() {
	if s.hasBatch {
		s.finishBatch(true)
	}
	if s.abort {
		return
	}
	a, b := s.genRange()
	alsoCtr := s.t.Bool(300)
	ops := []bop{{kind: bDelRange, k: a, v: b}}
	if alsoCtr {
		ops = append(ops, bop{kind: bDel, k: s.ctrKeys[0]})
	}
	s.c.Log("table-range", "[%s,%s) ctr=%v", hx(a), hx(b), alsoCtr)
	s.note("DeleteFilesInRange+DeleteRange [%s,%s)", hx(a), hx(b))
	s.c.Fault("delete-files-in-range")
	s.envEvents++
	for _, en := range s.engs {
		en := en
		var err error
		s.do(en, "table range delete", func() {
			wb := en.e.NewWriteBatch()
			en.e.DeleteFilesInRange(engine.CRange{Start: clone(a), Limit: clone(b)})
			wb.DeleteRange(clone(a), clone(b))
			if alsoCtr {
				wb.Delete(clone(s.ctrKeys[0]))
			}
			err = en.e.Write(wb)
			wb.Destroy()
		})
		if err != nil {
			s.c.Violate(prop, "commit-error", "", "%s: table range delete failed: %v", en.name, err)
		}
	}
	s.m.apply(ops)
	s.rangeDel = true
	s.commits++
	// Known finding keyRocksDFIR: rocksdb's DeleteFilesInRange drops every
	// SST file lying inside [Start, Limit] INCLUDING Limit (the C API passes
	// include_end=true) while the DeleteRange that follows is end-exclusive;
	// pebble and mem implement DeleteFilesInRange as a no-op. A stored key
	// equal to Limit is lost (or an older version of it resurfaces) on
	// rocksdb only. Classified exactly: only the key == Limit may differ;
	// rocksdb is then re-synchronised so that the run stays meaningful.
	for _, en := range s.engs {
		if en.name != "rocksdb" || s.abort {
			continue
		}
		exp := s.expectGet(b)
		got := s.readVia(en, 0, b)
		if got.err == nil && (got.present != exp.present || !bytes.Equal(got.v, exp.v)) {
			s.c.Violate(prop, "delete-files-in-range", keyRocksDFIR,
				"rocksdb: after DeleteFilesInRange{Start:%s,Limit:%s} + DeleteRange[%s,%s) the key equal to Limit reads %s, reference (and the other engines) %s",
				hx(a), hx(b), hx(a), hx(b), got, exp)
			s.c.Log("resync", "rocksdb %s", hx(b))
			s.do(en, "resync", func() {
				wb := en.e.NewWriteBatch()
				if exp.present {
					wb.Put(clone(b), clone(exp.v))
				} else {
					wb.Delete(clone(b))
				}
				en.e.Write(wb)
				wb.Destroy()
			})
		}
	}
	s.verifyAllKeys("after-table-range")
}

// ---------------------------------------------------------------- main loop

func (s *sim) step() {
	t := s.t
	switch t.Weighted(s.cf.Weights) {
	case opPut:
		var k []byte
		if t.Bool(120) {
			// counters are also overwritten with plain 8-byte values
			k = s.ctrKeys[t.Choose(len(s.ctrKeys))]
			s.batchOp(bop{kind: bPut, k: k, v: putLE64(uint64(t.Range(0, 1000)))})
		} else {
			k = s.pool[t.Choose(len(s.pool))]
			s.batchOp(bop{kind: bPut, k: k, v: s.genValue()})
		}
	case opGet:
		s.opGet()
	case opCommit:
		s.finishBatch(true)
	case opIter:
		s.opIter()
	case opDel:
		s.batchOp(bop{kind: bDel, k: s.anyKey()})
	case opDelRange:
		a, b := s.genRange()
		if s.withRadix && s.pendingWriteIn(a, b) {
			// outside the data mapping's usage (see pendingWriteIn): split the batch
			s.c.Count("avoided.put-then-delrange-in-one-batch", 1)
			s.finishBatch(true)
		}
		s.batchOp(bop{kind: bDelRange, k: a, v: b})
	case opMerge:
		k := s.ctrKeys[t.Choose(len(s.ctrKeys))]
		if s.withRadix && s.pendingDeleteOf(k) {
			s.c.Count("avoided.delete-then-merge-in-one-batch", 1)
			s.finishBatch(true)
		}
		var d uint64
		switch t.Weighted([]int{6, 2, 1}) {
		case 0:
			d = uint64(t.Range(1, 9))
		case 1:
			d = ^uint64(0) - uint64(t.Range(0, 3)) // negative delta: DECR of the table counter
		default:
			d = uint64(t.U32())<<32 | uint64(t.U32())
		}
		if !s.hasBatch && len(s.held) == 0 && t.Bool(150) {
			s.twoWriters(k, d)
			return
		}
		s.batchOp(bop{kind: bMerge, k: k, v: putLE64(d)})
	case opClear:
		s.finishBatch(false)
	case opExist:
		s.opExist()
	case opMultiGet:
		s.opMultiGet()
	case opIterAdvance:
		s.opIterAdvance(false)
	case opIterClose:
		s.opIterAdvance(true)
	case opReopen:
		s.opReopen()
	case opCompact:
		s.opCompact()
	case opCkptSave:
		s.opCkptSave()
	case opCkptVerify:
		s.opCkptVerify()
	case opTableRange:
		s.opTableRange()
	}
}

func (s *sim) finish() {
	if !s.abort {
		if s.hasBatch {
			s.finishBatch(s.t.Bool(700))
		}
	}
	if !s.abort {
		s.closeAllHeld(true)
		s.verifyScan("final")
		for _, ck := range s.ckpts {
			if s.abort {
				break
			}
			s.verifyCkpt(ck)
		}
		if s.t.Bool(150) {
			s.probeRadixNul()
		}
	}
	// teardown: never touch an engine whose call panicked (locks may be held)
	for _, h := range s.held {
		for _, st := range h.states {
			if !st.en.dead {
				s.closeIterState(st)
			}
		}
	}
	for _, en := range s.engs {
		en := en
		if en.dead || en.e == nil {
			continue
		}
		s.do(en, "teardown", func() {
			if en.wb != nil {
				en.wb.Clear()
				if en.owned {
					en.wb.Destroy()
				}
			}
			en.e.CloseAll()
		})
	}
	os.RemoveAll(s.dir)
}

// twoWriters: two write batches of different goroutines overlap (in production:
// the apply loop and the background expiry checker). Writer A opens its batch
// with a put, writer B - another goroutine - merges into a counter and commits,
// A merges into the same counter and commits. Counter merges commute, so
// whatever the engine does about the overlap (block B, collect operands,
// evaluate at commit) the counter ends as base + both deltas. The process runs
// on one P: after `go` + Gosched B has run until it finished or blocked on the
// engine's writer lock, so the interleaving is the same in every execution.
func (s *sim) twoWriters(k []byte, d1 uint64) {
	t := s.t
	d2 := uint64(t.Range(1, 9))
	f := s.pool[t.Choose(len(s.pool))]
	fv := s.genValue()
	s.c.Log("two-writers", "ctr=%x d1=%d d2=%d filler=%x", k, d1, d2, f)
	s.c.Probe("two-overlapping-write-batches")
	for _, en := range s.engs {
		en := en
		hung := false
		if en.name == "mem-skiplist" {
			// the skiplist variant (C code behind cgo, not selectable in production)
			// evaluates merges at commit without excluding other writers, and a cgo
			// call gives up the P: here the two goroutines really run in parallel
			// and the outcome (a lost update, seen once in a thorough run) is not
			// a function of the tape. Its two batches are applied one after the
			// other instead; the overlap is not decided for this variant.
			s.do(en, "two writers (sequential)", func() {
				a := en.e.NewWriteBatch()
				a.Put(clone(f), clone(fv))
				a.Merge(clone(k), putLE64(d1))
				a.Commit()
				a.Clear()
				a.Destroy()
				b := en.e.NewWriteBatch()
				b.Merge(clone(k), putLE64(d2))
				b.Commit()
				b.Clear()
				b.Destroy()
			})
			continue
		}
		s.do(en, "two writers", func() {
			a := en.e.NewWriteBatch()
			a.Put(clone(f), clone(fv))
			done := make(chan error, 1)
			go func() {
				b := en.e.NewWriteBatch()
				b.Merge(clone(k), putLE64(d2))
				err := b.Commit()
				b.Clear()
				b.Destroy()
				done <- err
			}()
			runtime.Gosched()
			a.Merge(clone(k), putLE64(d1))
			errA := a.Commit()
			a.Clear()
			a.Destroy()
			select {
			case errB := <-done:
				if errA != nil || errB != nil {
					s.c.Violate(prop, "commit-error", "", "%s: overlapping batches: commit errors %v / %v", en.name, errA, errB)
				}
			case <-time.After(20 * time.Second):
				hung = true
			}
		})
		if hung {
			en.dead = true
			s.abort = true
			s.c.Violate(prop, "two-writers-hang", "", "%s: a write batch that overlapped another one never finished its commit", en.name)
			return
		}
	}
	s.m.apply([]bop{{kind: bPut, k: f, v: fv}, {kind: bMerge, k: k, v: putLE64(d1)}})
	s.m.apply([]bop{{kind: bMerge, k: k, v: putLE64(d2)}})
	s.commits += 2
	s.verifyAllKeys("after-two-writers")
}
