package engsim

import (
	"sort"

	"verif/sim/core"
)

var Engine = core.Engine{Name: "engsim", Run: Run}

// Run executes one simulated run: every decision comes from c.Tape.
func Run(c *core.RunCtx) {
	s := &sim{c: c, t: c.Tape}
	if s.setup() {
		for i := 0; i < s.cf.Ops && !s.abort; i++ {
			s.step()
		}
	}
	s.finish()
	c.Events = int64(s.reads + s.iters + s.commits + s.envEvents)
	c.Count("reads", int64(s.reads))
	c.Count("iterators", int64(s.iters))
	c.Count("commits", int64(s.commits))
	c.Count("env-events", int64(s.envEvents))
	if s.withRocks {
		c.Count("runs.with-rocksdb", 1)
	}
	if s.adversarial {
		c.Count("runs.adversarial-keys", 1)
	}
	// non-trivial: a multi-operation batch was committed, reads and iterators
	// were compared and at least one environment event happened in between
	c.NonTrivial = s.bigCommits >= 1 && s.reads >= 10 && s.iters >= 1 && s.envEvents >= 1
	c.Sample = map[string]interface{}{"config": s.cf, "first_ops": s.sampleOps}
	// core.Worker reports the first violation of the run only: an unexplained
	// one must not hide behind a known (keyed) one.
	sort.SliceStable(c.Viol, func(i, j int) bool { return c.Viol[i].Key == "" && c.Viol[j].Key != "" })
}
