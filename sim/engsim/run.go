package engsim

import (
	"os"
	"sort"

	"verif/sim/core"
)

var Engine = core.Engine{Name: "engsim", Run: Run}

// VERIF_ENGSIM_DEBUG=1: read the whole key universe after every step (to
// localise a divergence while triaging a replay; changes the trace hash).
var debugVerify = os.Getenv("VERIF_ENGSIM_DEBUG") != ""

// Run executes one simulated run: every decision comes from c.Tape.
func Run(c *core.RunCtx) {
	s := &sim{c: c, t: c.Tape}
	if s.setup() {
		for i := 0; i < s.cf.Ops && !s.abort; i++ {
			// a zero here ends the run: a truncated tape (the shrinker's
			// first move) stops at once instead of padding with operations
			if c.Tape.Choose(4*s.cf.Ops+8) == 0 {
				break
			}
			s.step()
			if debugVerify && !s.abort {
				s.verifyAllKeys("debug-after-step")
			}
		}
	}
	s.finish()
	c.Events = int64(s.reads + s.iters + s.commits + s.envEvents)
	c.Count("reads", int64(s.reads))
	c.Count("iterators", int64(s.iters))
	c.Count("commits", int64(s.commits))
	c.Count("env-events", int64(s.envEvents))
	if s.withRocks {
		c.Count("runs.with-rocksdb", 1)
	}
	if s.adversarial {
		c.Count("runs.adversarial-keys", 1)
	}
	if s.emptyKeyRun {
		c.Count("runs.empty-key-stored(no pebble)", 1)
	}
	// non-trivial: a multi-operation batch was committed, reads and iterators
	// were compared and at least one environment event happened in between
	c.NonTrivial = s.bigCommits >= 1 && s.reads >= 10 && s.iters >= 1 && s.envEvents >= 1
	c.Sample = map[string]interface{}{"config": s.cf, "first_ops": s.sampleOps}
	// core.Worker reports the first violation of the run only: an unexplained
	// one must not hide behind a known (keyed) one.
	sort.SliceStable(c.Viol, func(i, j int) bool { return c.Viol[i].Key == "" && c.Viol[j].Key != "" })
}
