package engsim

import (
	"bytes"
	"encoding/binary"
	"fmt"
	"sort"
)

// Range type bits of common.RangeClose/LOpen/ROpen/Open (checked against the
// repository's constants in sim.go init()).
const (
	rangeClose uint8 = 0x00
	rangeLOpen uint8 = 0x01
	rangeROpen uint8 = 0x10
	rangeOpen  uint8 = 0x11
)

type kv struct {
	k []byte
	v []byte
}

// batch operation kinds
const (
	bPut = iota
	bDel
	bDelRange
	bMerge
)

type bop struct {
	kind int
	k    []byte
	v    []byte // value, range end, or merge operand
}

func (o bop) String() string {
	switch o.kind {
	case bPut:
		return fmt.Sprintf("put(%s,%s)", hx(o.k), hv(o.v))
	case bDel:
		return fmt.Sprintf("del(%s)", hx(o.k))
	case bDelRange:
		return fmt.Sprintf("delrange(%s,%s)", hx(o.k), hx(o.v))
	default:
		return fmt.Sprintf("merge(%s,%d)", hx(o.k), le64(o.v))
	}
}

func hx(b []byte) string {
	if b == nil {
		return "nil"
	}
	if len(b) == 0 {
		return "''"
	}
	return fmt.Sprintf("%x", b)
}

// hv prints a value: nil-ness, length and content (shortened).
func hv(b []byte) string {
	if b == nil {
		return "nil"
	}
	if len(b) <= 24 {
		return fmt.Sprintf("[%d]%x", len(b), b)
	}
	return fmt.Sprintf("[%d]%x..%x", len(b), b[:8], b[len(b)-4:])
}

func le64(b []byte) uint64 {
	if len(b) != 8 {
		return 0
	}
	return binary.LittleEndian.Uint64(b)
}

func putLE64(v uint64) []byte {
	b := make([]byte, 8)
	binary.LittleEndian.PutUint64(b, v)
	return b
}

// model is the sorted-map reference: the committed state only.
type model struct {
	m map[string][]byte
}

func newModel() *model { return &model{m: map[string][]byte{}} }

func (m *model) clone() *model {
	n := newModel()
	for k, v := range m.m {
		n.m[k] = v
	}
	return n
}

// snapshot returns the committed state in key order.
func (m *model) snapshot() []kv {
	ks := make([]string, 0, len(m.m))
	for k := range m.m {
		ks = append(ks, k)
	}
	sort.Strings(ks)
	out := make([]kv, len(ks))
	for i, k := range ks {
		out[i] = kv{k: []byte(k), v: m.m[k]}
	}
	return out
}

// get returns (value, present). A present value is never nil (an engine
// returns a non-nil empty slice for a stored empty value).
func (m *model) get(k []byte) ([]byte, bool) {
	v, ok := m.m[string(k)]
	return v, ok
}

// apply applies a write batch in operation order. The merge operator is the
// 8-byte little-endian unsigned add of engine.Uint64AddMerger / RocksDB's
// uint64add: an absent or empty existing value counts as 0. The generator
// guarantees that merge keys never hold values of another length (engines
// legitimately differ in how they report that corruption).
func (m *model) apply(ops []bop) {
	for _, o := range ops {
		switch o.kind {
		case bPut:
			v := o.v
			if v == nil {
				v = []byte{}
			}
			m.m[string(o.k)] = v
		case bDel:
			delete(m.m, string(o.k))
		case bDelRange:
			for k := range m.m {
				if bytes.Compare([]byte(k), o.k) >= 0 && bytes.Compare([]byte(k), o.v) < 0 {
					delete(m.m, k)
				}
			}
		case bMerge:
			cur := le64(m.m[string(o.k)])
			m.m[string(o.k)] = putLE64(cur + le64(o.v))
		}
	}
}

// iterSpec is the harness-side description of one iterator request.
type iterSpec struct {
	min, max  []byte
	typ       uint8
	reverse   bool
	limited   bool // NewDBRangeLimitIteratorWithOpts (offset/count honoured) vs NewDBRangeIteratorWithOpts
	offset    int
	count     int
	ignoreDel bool
	withSnap  bool
	noTs      byte // argument of NoTimestamp (0 = not called)
}

func (s iterSpec) String() string {
	tn := map[uint8]string{rangeClose: "[]", rangeLOpen: "(]", rangeROpen: "[)", rangeOpen: "()"}[s.typ]
	d := "fwd"
	if s.reverse {
		d = "rev"
	}
	l := "nolimit"
	if s.limited {
		l = fmt.Sprintf("off=%d cnt=%d", s.offset, s.count)
	}
	return fmt.Sprintf("%s %s min=%s max=%s %s snap=%v igndel=%v nots=%d", d, tn, hx(s.min), hx(s.max), l, s.withSnap, s.ignoreDel, s.noTs)
}

func stripTs(v []byte, noTs byte) []byte {
	// engine.KVType = 21, engine.HashType = 22, tsLen = 8
	if (noTs == 21 || noTs == 22) && len(v) >= 8 {
		return v[:len(v)-8]
	}
	return v
}

// refRange is the mathematical definition of a range/limit iterator: the keys
// of the snapshot inside the bounds (each bound open or closed by typ, nil =
// unbounded), ascending or descending, first `offset` skipped, at most `count`
// returned (count < 0: unlimited; offset < 0: nothing).
func refRange(snap []kv, s iterSpec) []kv {
	off, cnt := 0, -1
	if s.limited {
		off, cnt = s.offset, s.count
	}
	if off < 0 {
		return nil
	}
	var sel []kv
	for _, e := range snap {
		if s.min != nil {
			c := bytes.Compare(e.k, s.min)
			if c < 0 || (c == 0 && s.typ&rangeLOpen != 0) {
				continue
			}
		}
		if s.max != nil {
			c := bytes.Compare(e.k, s.max)
			if c > 0 || (c == 0 && s.typ&rangeROpen != 0) {
				continue
			}
		}
		sel = append(sel, kv{k: e.k, v: stripTs(e.v, s.noTs)})
	}
	if s.reverse {
		for i, j := 0, len(sel)-1; i < j; i, j = i+1, j-1 {
			sel[i], sel[j] = sel[j], sel[i]
		}
	}
	if off >= len(sel) {
		return nil
	}
	sel = sel[off:]
	if cnt >= 0 && cnt < len(sel) {
		sel = sel[:cnt]
	}
	return sel
}

// Deviation flags: known ways in which an engine's cursor differs from the
// contract. They are used only to *classify* a mismatch that the mathematical
// reference already rejected (known-finding key), never to accept it.
type devFlags struct {
	// SeekForPrev(k) positions strictly below k (pebble SeekLT, btree SeekLT)
	// instead of at the last key <= k.
	strictPrev bool
	// the cursor does not enforce the lower/upper bound itself (mem engines):
	// the wrapper's "SeekForPrev found nothing -> SeekToFirst" fallback then
	// lands on the first key of the whole store.
	unbounded bool
}

func (d devFlags) any() bool { return d.strictPrev || d.unbounded }

// simCursor re-enacts engine/iterator.go rangeLimitIterator over an abstract
// cursor with the given deviations. With no deviation it must agree with
// refRange (checked as a harness self-test on every call).
func simCursor(snap []kv, s iterSpec, d devFlags) []kv {
	off, cnt := 0, -1
	if s.limited {
		off, cnt = s.offset, s.count
	}
	if off < 0 {
		return nil
	}
	vis := snap
	if !d.unbounded {
		vis = nil
		var upper []byte
		if s.max != nil {
			upper = append([]byte{}, s.max...)
			if s.typ&rangeROpen == 0 {
				upper = append(upper, 0)
			}
		}
		for _, e := range snap {
			if s.min != nil && bytes.Compare(e.k, s.min) < 0 {
				continue
			}
			if upper != nil && bytes.Compare(e.k, upper) >= 0 {
				continue
			}
			vis = append(vis, e)
		}
	}
	n := len(vis)
	pos := -1 // invalid when outside [0,n)
	valid := func() bool { return pos >= 0 && pos < n }
	seek := func(k []byte) {
		pos = sort.Search(n, func(i int) bool { return bytes.Compare(vis[i].k, k) >= 0 })
	}
	seekForPrev := func(k []byte) {
		if d.strictPrev {
			pos = sort.Search(n, func(i int) bool { return bytes.Compare(vis[i].k, k) >= 0 }) - 1
		} else {
			pos = sort.Search(n, func(i int) bool { return bytes.Compare(vis[i].k, k) > 0 }) - 1
		}
	}
	step := 0
	wvalid := func() bool {
		if cnt >= 0 && step >= cnt {
			return false
		}
		if !valid() {
			return false
		}
		if !s.reverse {
			if s.max != nil {
				r := bytes.Compare(vis[pos].k, s.max)
				if s.typ&rangeROpen > 0 {
					return !(r >= 0)
				}
				return !(r > 0)
			}
		} else {
			if s.min != nil {
				r := bytes.Compare(vis[pos].k, s.min)
				if s.typ&rangeLOpen > 0 {
					return !(r <= 0)
				}
				return !(r < 0)
			}
		}
		return true
	}
	if !s.reverse {
		if s.min == nil {
			pos = 0
		} else {
			seek(s.min)
			if s.typ&rangeLOpen > 0 && valid() && bytes.Compare(vis[pos].k, s.min) <= 0 {
				pos++
			}
		}
	} else {
		if s.max == nil {
			pos = n - 1
		} else {
			seekForPrev(s.max)
			if !valid() {
				pos = 0
			}
			if s.typ&rangeROpen > 0 && valid() && bytes.Compare(vis[pos].k, s.max) >= 0 {
				pos--
			}
		}
	}
	for i := 0; i < off; i++ {
		if !wvalid() {
			break
		}
		if !s.reverse {
			pos++
		} else {
			pos--
		}
	}
	var out []kv
	for wvalid() {
		out = append(out, kv{k: vis[pos].k, v: stripTs(vis[pos].v, s.noTs)})
		step++
		if !s.reverse {
			pos++
		} else {
			pos--
		}
	}
	return out
}

func kvEqual(a, b []kv) bool {
	if len(a) != len(b) {
		return false
	}
	for i := range a {
		if !bytes.Equal(a[i].k, b[i].k) || !bytes.Equal(a[i].v, b[i].v) {
			return false
		}
	}
	return true
}

func kvString(l []kv) string {
	var b bytes.Buffer
	b.WriteString("{")
	for i, e := range l {
		if i > 0 {
			b.WriteString(" ")
		}
		if i >= 12 {
			fmt.Fprintf(&b, "...+%d", len(l)-i)
			break
		}
		fmt.Fprintf(&b, "%s=%s", hx(e.k), hv(e.v))
	}
	b.WriteString("}")
	return b.String()
}
