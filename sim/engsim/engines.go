package engsim

import (
	"fmt"
	"os"
	"path"

	"github.com/youzan/ZanRedisDB/engine"
)

// eng is one engine under test, driven in lock-step with the others.
type eng struct {
	name    string
	typ     string // engine_type handed to engine.NewKVEng
	memType int    // engine.VerifMem* for the mem variants, -1 otherwise
	sub     string // sub-directory the engine appends to DataDir
	dir     string
	cfg     *engine.RockEngConfig
	e       engine.KVEngine
	wb      engine.WriteBatch
	defwb   engine.WriteBatch // DefaultWriteBatch() of the currently open engine
	owned   bool              // wb came from NewWriteBatch (Destroy it when done)
	// holdable: an iterator of this engine is a point-in-time view and does
	// not block this goroutine's own later commits, so it may stay open
	// across commits. (btree: commit takes the write lock the iterator's
	// read lock excludes - in production that is blocking, not a behaviour;
	// skiplist: live view, and its C delete spins until no cursor references
	// the node, so an open cursor deadlocks this goroutine's own commit;
	// neither variant is selectable in production.)
	holdable bool
	dev      devFlags
	dead     bool // a call panicked: never touch this engine again
}

func (s *sim) use(en *eng) {
	if en.memType >= 0 {
		engine.VerifSetMemType(en.memType)
	}
}

// do runs one engine call, converting a Go panic of the code under test into
// a violation. (A C-level abort kills the worker process; the check script
// reports that as process-crash.)
func (s *sim) do(en *eng, what string, f func()) (ok bool) {
	if en.dead {
		return false
	}
	s.use(en)
	defer func() {
		if r := recover(); r != nil {
			en.dead = true
			s.abort = true
			s.c.Violate("C20", "panic", "", "%s: %s panicked: %v", en.name, what, r)
			ok = false
		}
	}()
	f()
	return true
}

func (s *sim) newCfg(en *eng, dir string, readOnly bool) *engine.RockEngConfig {
	cfg := engine.NewRockConfig() // production defaults first (rockredis does the same)
	cfg.DataDir = dir
	cfg.EngineType = en.typ
	cfg.ReadOnly = readOnly
	// small caches/buffers: the defaults take a percentage of host RAM
	cfg.BlockCache = 1 << 20
	cfg.WriteBufferSize = s.cf.WriteBuffer
	cfg.BlockSize = s.cf.BlockSize
	cfg.TargetFileSizeBase = uint64(s.cf.TargetFile)
	cfg.MaxBytesForLevelBase = uint64(s.cf.LevelBase)
	cfg.MaxBackgroundCompactions = 2
	cfg.MaxBackgroundFlushes = 1
	return cfg
}

func (s *sim) openEngine(en *eng, dir string, readOnly bool) (engine.KVEngine, error) {
	var e engine.KVEngine
	var err error
	cfg := s.newCfg(en, dir, readOnly)
	ok := s.do(en, "open", func() {
		e, err = engine.NewKVEng(cfg)
		if err != nil {
			return
		}
		err = e.OpenEng()
	})
	if !ok {
		return nil, fmt.Errorf("panic")
	}
	if err == nil {
		en.cfg = cfg
	}
	return e, err
}

// devNull silences the mem engine's checkpoint, which prints every key to
// stdout unconditionally (memEng.NewCheckpoint sets printToStdout: true).
func withStdoutSilenced(f func()) {
	old := os.Stdout
	dn, err := os.OpenFile(os.DevNull, os.O_WRONLY, 0)
	if err == nil {
		os.Stdout = dn
	}
	defer func() {
		os.Stdout = old
		if dn != nil {
			dn.Close()
		}
	}()
	f()
}

// saveCheckpoint writes a checkpoint of en into dataDir (a directory usable
// as DataDir of a fresh engine of the same type).
func (s *sim) saveCheckpoint(en *eng, dataDir string, withNotify bool) error {
	var err error
	os.MkdirAll(dataDir, 0755)
	s.do(en, "checkpoint", func() {
		var ck engine.KVCheckpoint
		ck, err = en.e.NewCheckpoint(false)
		if err != nil {
			return
		}
		var notify chan struct{}
		if withNotify {
			notify = make(chan struct{})
		}
		withStdoutSilenced(func() {
			err = ck.Save(path.Join(dataDir, en.sub), notify)
		})
		if err == nil && withNotify && en.memType >= 0 {
			// mem closes notify synchronously before returning
			select {
			case <-notify:
			default:
				err = fmt.Errorf("notify channel not closed by mem checkpoint")
			}
		}
	})
	return err
}

// reopen restarts one engine. Persistent engines are closed and opened on
// the same directory. The mem engine keeps nothing on close; what the
// repository does for a restarted mem node is restore a checkpoint file
// (mem.dat) into the data directory, so that is what "reopen" is here:
// checkpoint, close, move mem.dat into place, open (which loads the file).
func (s *sim) reopen(en *eng, newObject bool) error {
	if en.owned && en.wb != nil {
		wb := en.wb
		s.do(en, "wb.Destroy", func() { wb.Destroy() })
	}
	if en.memType >= 0 && en.defwb != nil {
		// the mem engine does not own its default batch; drop what it holds
		// (radix: an open write transaction) before the store goes away
		wb := en.defwb
		s.do(en, "wb.Clear", func() { wb.Clear() })
	}
	en.wb, en.owned, en.defwb = nil, false, nil
	var err error
	if en.memType >= 0 {
		tmp := path.Join(s.dir, fmt.Sprintf("memck-%s-%d", en.name, s.seq()))
		if err = s.saveCheckpoint(en, tmp, false); err != nil {
			return fmt.Errorf("mem checkpoint for reopen: %v", err)
		}
		s.do(en, "close", func() {
			if newObject {
				en.e.CloseAll()
			} else {
				en.e.CloseEng()
			}
		})
		dst := path.Join(en.dir, en.sub)
		os.MkdirAll(dst, 0755)
		if err = os.Rename(path.Join(tmp, en.sub, "mem.dat"), path.Join(dst, "mem.dat")); err != nil {
			return err
		}
		os.RemoveAll(tmp)
	} else {
		s.do(en, "close", func() {
			if newObject {
				en.e.CloseAll()
			} else {
				en.e.CloseEng()
			}
		})
	}
	if en.dead {
		return fmt.Errorf("panic")
	}
	if newObject {
		var e engine.KVEngine
		e, err = s.openEngine(en, en.dir, false)
		if err != nil {
			return err
		}
		en.e = e
		return nil
	}
	s.do(en, "OpenEng", func() { err = en.e.OpenEng() })
	return err
}
