// Package clustersim runs real node.KVNode replicas (through nodeh) under a
// tape-driven schedule of client requests, message delivery and faults, and
// decides C04 (linearizability of acknowledged writes in a replicated
// namespace) and C06 (a restarted data node serves exactly the acknowledged
// state).
package clustersim

import (
	"fmt"

	"github.com/absolute8511/redcon"

	"verif/sim/core"
	"verif/sim/lin"
	"verif/sim/nodeh"
)

// key pools: few keys so that operations collide
var kvCounter = []string{"t:c0", "t:c1"}
var kvString = []string{"t:s0", "t:s1"}
var listKeys = []string{"t:l0"}
var hashKeys = []string{"t:h0"}
var setKeys = []string{"t:e0"}
var zsetKeys = []string{"t:z0"}

// HyperLogLog keys: every PFADD adds one never-seen element, so PFCOUNT at the
// end lies between the acknowledged and the attempted adds (the sketch is
// exact at these sizes; a tolerance of 10% is allowed all the same). Not part
// of the linearizability history.
var hllKeys = []string{"t:p0"}

type gen struct {
	t    *core.Tape
	nval int
}

func (g *gen) val() string {
	g.nval++
	return fmt.Sprintf("v%d", g.nval)
}

func pickS(t *core.Tape, s []string) string { return s[t.Choose(len(s))] }

// write generates one value-revealing write command (model args: name, key, ...).
func (g *gen) write() []string {
	t := g.t
	switch t.Weighted([]int{30, 8, 8, 6, 6, 4, 10, 6, 6, 6, 6, 5, 5, 5, 5, 5, 5, 4, 8}) {
	case 0:
		return []string{"incr", pickS(t, kvCounter)}
	case 1:
		return []string{"set", pickS(t, kvString), g.val()}
	case 2:
		return []string{"getset", pickS(t, kvString), g.val()}
	case 3:
		return []string{"setnx", pickS(t, kvString), g.val()}
	case 4:
		return []string{"append", pickS(t, kvString), g.val()}
	case 5:
		return []string{"del", pickS(t, kvString)}
	case 6:
		return []string{"lpush", pickS(t, listKeys), g.val()}
	case 7:
		return []string{"rpush", pickS(t, listKeys), g.val()}
	case 8:
		return []string{"lpop", pickS(t, listKeys)}
	case 9:
		return []string{"rpop", pickS(t, listKeys)}
	case 10:
		return []string{"hincrby", pickS(t, hashKeys), "f" + fmt.Sprint(t.Choose(2)), "1"}
	case 11:
		return []string{"hset", pickS(t, hashKeys), "g" + fmt.Sprint(t.Choose(2)), g.val()}
	case 12:
		return []string{"hdel", pickS(t, hashKeys), "g" + fmt.Sprint(t.Choose(2))}
	case 13:
		return []string{"sadd", pickS(t, setKeys), "m" + fmt.Sprint(t.Choose(3))}
	case 14:
		return []string{"srem", pickS(t, setKeys), "m" + fmt.Sprint(t.Choose(3))}
	case 15:
		return []string{"zadd", pickS(t, zsetKeys), fmt.Sprint(1 + t.Choose(3)), "m" + fmt.Sprint(t.Choose(3))}
	case 16:
		return []string{"zrem", pickS(t, zsetKeys), "m" + fmt.Sprint(t.Choose(3))}
	case 17:
		return []string{"zincrby", pickS(t, zsetKeys), "1", "m" + fmt.Sprint(t.Choose(3))}
	default:
		return []string{"pfadd", pickS(t, hllKeys), g.val()}
	}
}

// finalReads lists the read that reveals the whole value of every key.
func finalReads() [][]string {
	var out [][]string
	for _, k := range kvCounter {
		out = append(out, []string{"get", k})
	}
	for _, k := range kvString {
		out = append(out, []string{"get", k})
	}
	for _, k := range listKeys {
		out = append(out, []string{"lrange", k, "0", "-1"})
	}
	for _, k := range hashKeys {
		out = append(out, []string{"hgetall", k})
	}
	for _, k := range setKeys {
		out = append(out, []string{"smembers", k})
	}
	for _, k := range zsetKeys {
		out = append(out, []string{"zrange", k, "0", "-1", "withscores"})
	}
	return out
}

// toCmd turns model args into a redis command on the simulated namespace.
func toCmd(args []string) redcon.Command {
	xs := make([]interface{}, 0, len(args))
	for i, a := range args {
		if i == 1 {
			xs = append(xs, nodeh.NS+":"+a)
		} else {
			xs = append(xs, a)
		}
	}
	return nodeh.Cmd(xs...)
}

type pending struct {
	call *nodeh.Call
	op   lin.Op
}
