package clustersim

import (
	"fmt"
	"os"
	"os/exec"
	"strings"
	"testing"
	"testing/synctest"
	"time"

	"github.com/youzan/ZanRedisDB/raft"
	"github.com/youzan/ZanRedisDB/raft/raftpb"

	"verif/sim/core"
	"verif/sim/lin"
	"verif/sim/model"
	"verif/sim/nodeh"
)

var Engine = core.Engine{Name: "clustersim", Run: Run}

type cfg struct {
	machines, replicas                                                                       int
	engine                                                                                   string
	snapCount, catchup                                                                       int
	keepBackup                                                                               int
	clients                                                                                  int
	events                                                                                   int
	dropPm, dupPm                                                                            int
	reorderPm                                                                                int
	wInvoke, wTick, wDeliver, wKill, wRestart, wStop, wTransfer, wPart, wHeal, wSleep, wPark int
	crashPoint                                                                               string // C06: named point to kill at ("" = quiescent instants only)
	crashAfterSnap                                                                           bool   // ... counting its hits only after a snapshot message reached machine 0
	crashHit                                                                                 int
	optFsync                                                                                 bool
}

type sim struct {
	c        *core.RunCtx
	t        *core.Tape
	cfg      cfg
	cl       *nodeh.Cluster
	g        *gen
	seq      int64
	hist     []lin.Op
	pend     []*pending // per client, nil = idle
	blocked  map[[2]int]bool
	believed int
	// C06 crash point machinery
	pointHits      int
	tripped        bool
	pointDone      bool
	armed          bool
	snapSeen       bool
	ackedAtPrelude int
	park           *parked
	releases       []func()
	killed         int
	acked          int
	dumps          []string
	parkCh         chan struct{}
	maxAppliedEver uint64
	unknown        map[string]int
	hllTried       map[string]int
	hllAcked       map[string]int
}

func pick(t *core.Tape, vals ...int) int { return vals[t.Choose(len(vals))] }

// parked: one goroutine of one machine held at a named point while other
// events run (intra-node interleavings: client calls and messages landing
// between publish and persist, between apply and the wait for raft, ...)
type parked struct {
	machine  int
	name     string
	release  func()
	isParked func() bool
	since    int
	replay   bool // armed before a restart (slow replay)
}

func (p *parked) maxEvents() int {
	if p.replay {
		return 150
	}
	return 40
}

var parkPoints = []string{"raft.beforePersist", "raft.afterPublish", "raft.afterPersist", "raft.beforeAppend", "raft.beforeAdvance",
	"apply.beforeApplyAll", "apply.afterApplyAll", "apply.beforeTriggerSnapshot", "snap.beforeSaveSnap", "snap.beforeSync", "snap.beforeCompact",
	"apply.beforeEntry"}

// points a restarting machine may be held at while it replays its log (a slow
// replay: ticks and messages keep arriving)
var replayParkPoints = []string{"apply.beforeEntry", "apply.beforeEntry", "apply.beforeApplyAll", "apply.afterApplyAll", "raft.afterPublish", "raft.beforeAdvance"}

func (s *sim) releasePark(why string) {
	if s.park != nil {
		s.c.Log("release", "m%d %s (%s) wasParked=%v", s.park.machine, s.park.name, why, s.park.isParked())
		if s.park.isParked() {
			s.c.Probe("goroutine_was_parked_at_" + s.park.name)
		}
		s.park.release()
		s.park = nil
		synctest.Wait()
	}
}

func (s *sim) releaseAll() {
	for _, r := range s.releases {
		r()
	}
}

var crashPoints = []string{"", "raft.ready.begin", "raft.beforePersist", "raft.beforePublish", "raft.afterPublish", "raft.afterPersist",
	"raft.persist.beforeSave", "raft.beforeAppend", "raft.beforeAdvance", "apply.beforeApplyAll", "apply.afterApplyAll",
	"apply.beforeTriggerSnapshot", "snap.beforeCreate", "snap.beforeSaveSnap", "snap.beforeSync", "snap.beforeRelease", "snap.beforeCompact",
	"raft.snap.beforeSync", "raft.snap.beforeRelease"}

// the points of the raft loop between receiving a Ready and advancing: armed
// "after an incoming snapshot" they fall into the Ready that records it
var afterSnapPoints = []string{"raft.beforePersist", "raft.persist.beforeSave", "raft.afterPersist", "raft.snap.beforeSync",
	"raft.snap.beforeRelease", "raft.beforeAppend", "raft.beforeAdvance", "apply.beforeApplyAll", "apply.afterApplyAll"}

func drawCfg(c *core.RunCtx) cfg {
	t := c.Tape
	var g cfg
	switch c.Prop {
	case "C06":
		g.machines = pick(t, 1, 1, 1, 3)
	default:
		g.machines = pick(t, 3, 3, 3, 2, 5)
	}
	g.replicas = g.machines
	g.engine = []string{"mem", "pebble"}[pick(t, 0, 0, 0, 1)]
	g.snapCount = pick(t, 10, 5, 20, 30, 200) // 200: restarts replay the whole log, membership entries included
	g.catchup = pick(t, 3, 2, 5, 10)
	g.keepBackup = pick(t, 0, 1, 2)
	g.clients = pick(t, 2, 1, 3, 4)
	g.events = pick(t, 500, 800, 1200)
	if c.Tier == "thorough" {
		g.events = pick(t, 800, 1500, 3000)
	}
	g.dropPm = pick(t, 0, 0, 20, 80)
	g.dupPm = pick(t, 0, 0, 30)
	g.reorderPm = pick(t, 0, 100, 300)
	g.wInvoke = pick(t, 150, 250)
	g.wTick = pick(t, 200, 300)
	g.wDeliver = pick(t, 400, 500)
	g.wKill = pick(t, 0, 1, 3)
	g.wRestart = pick(t, 10, 30)
	g.wStop = pick(t, 0, 0, 2)
	g.wTransfer = pick(t, 0, 0, 3)
	g.wPart = pick(t, 0, 0, 2)
	g.wHeal = pick(t, 5, 10)
	g.wSleep = pick(t, 5, 20)
	g.wPark = pick(t, 0, 4, 10)
	g.optFsync = false
	if c.Prop == "C06" {
		g.crashPoint = crashPoints[t.Choose(len(crashPoints))]
		g.crashHit = 1 + t.Choose(40)
		if t.Choose(3) == 0 {
			g.crashHit = 1 + t.Choose(4)
		}
		g.wKill = pick(t, 0, 1, 2)
		if afterSnap := t.Choose(3) == 0; (g.machines > 1 && afterSnap) || os.Getenv("CLUSTERSIM_FORCE_AFTERSNAP") != "" {
			if g.machines == 1 {
				g.machines, g.replicas = 3, 3
			}
			// the rare window: machine 0 is recording a snapshot sent by its leader
			g.crashAfterSnap = true
			g.crashPoint = afterSnapPoints[t.Choose(len(afterSnapPoints))]
			g.crashHit = pick(t, 1, 1, 1, 2)
			g.wKill = 1
			g.snapCount = 5
			if g.events < 800 {
				g.events = 800
			}
		}
		if g.machines == 1 {
			g.dropPm, g.dupPm, g.wPart, g.wTransfer = 0, 0, 0, 0
		}
	}
	return g
}

func Run(c *core.RunCtx) {
	s := &sim{c: c, t: c.Tape, blocked: map[[2]int]bool{}, unknown: map[string]int{}, hllTried: map[string]int{}, hllAcked: map[string]int{}}
	s.cfg = drawCfg(c)
	raft.VerifSeedGlobalRand(int64(c.Tape.U32()))
	c.Log("cfg", "%+v", s.cfg)
	var final []lin.Op
	var dumpMismatch string
	func() {
		defer func() {
			// the end-of-bubble deadlock panic is infrastructure, anything else is real
			if e := recover(); e != nil {
				msg := fmt.Sprint(e)
				if strings.Contains(msg, "deadlock: main bubble goroutine has exited") {
					c.Count("infra.bubble_leftover_goroutines", 1)
					return
				}
				panic(e)
			}
		}()
		synctest.Test(c.T, func(t *testing.T) {
			final, dumpMismatch = s.bubble()
		})
	}()
	if len(c.Viol) > 0 {
		return
	}
	// ---- oracles over the recorded history (outside the bubble: real clock) ----
	prop := c.Prop
	if prop == "" {
		prop = "C04"
	}
	all := append(append([]lin.Op{}, s.hist...), final...)
	res := lin.Check(all, false, 10*time.Second)
	switch res.Verdict {
	case "illegal":
		key := ""
		// known finding C04 "stale-precheck": re-check with the single relaxation
		// on the operations the ground truth marks
		relax := false
		for _, o := range all {
			if o.Relax {
				relax = true
			}
		}
		if relax {
			if r2 := lin.Check(all, true, 10*time.Second); r2.Verdict == "ok" {
				key = "stale-precheck"
			}
		}
		c.Violate(prop, "not-linearizable", key, "history of %s admits no linearization: %s", res.BadKey, strings.Join(res.BadOps, " ; "))
	case "unknown":
		c.Inconclusive++
	}
	if dumpMismatch != "" {
		c.Violate(prop, "replicas-differ", "", "%s", dumpMismatch)
	}
	nf := c.Stats["fault.kill"] + c.Stats["fault.kill_at_point"] + c.Stats["fault.stop_graceful"] + c.Stats["fault.leader_transfer"] + c.Stats["fault.drop"] + c.Stats["fault.partition"]
	c.NonTrivial = s.acked >= 10 && nf > 0
	c.Count("acked_writes", int64(s.acked))
	c.Count("history_ops", int64(len(all)))
	sample := []string{}
	for i, o := range all {
		if i >= 12 {
			break
		}
		r := "?"
		if o.Known {
			r = model.Canon(o.Reply)
		}
		sample = append(sample, fmt.Sprintf("c%d [%d,%d] %v -> %s", o.Client, o.Call, o.Ret, o.Args, r))
	}
	c.Sample = map[string]interface{}{"config": fmt.Sprintf("%+v", s.cfg), "acked": s.acked, "ops": len(all), "history_head": sample,
		"faults": faultSummary(c)}
}

func faultSummary(c *core.RunCtx) map[string]int64 {
	m := map[string]int64{}
	for _, k := range core.SortedKeys(c.Stats) {
		if strings.HasPrefix(k, "fault.") {
			m[k[6:]] = c.Stats[k]
		}
	}
	return m
}

func (s *sim) next() int64 { s.seq++; return s.seq }

// bubble is the simulated part. It returns the settle-time reads (as history
// operations) and a description of replica divergence, if any.
func (s *sim) bubble() (final []lin.Op, mismatch string) {
	c, t, g := s.c, s.t, s.cfg
	cl := nodeh.New(c, nodeh.Options{Machines: g.machines, Partitions: 1, Replicas: g.replicas, Engine: g.engine,
		SnapCount: g.snapCount, SnapCatchup: g.catchup, KeepBackup: g.keepBackup, OptFsync: g.optFsync,
		WalSegment: int64(pick(t, 256<<10, 64<<10, 1<<20, 8<<10, 16<<10))})
	s.cl = cl
	s.parkCh = make(chan struct{})
	defer cl.Close()
	defer close(s.parkCh)
	s.g = &gen{t: t}
	s.pend = make([]*pending, g.clients)
	if g.crashPoint != "" {
		cl.OnPoint = func(name string, gid, rid uint64) {
			if name == g.crashPoint && s.armed && (!g.crashAfterSnap || s.snapSeen) && !s.tripped && !s.pointDone && !cl.Stopping && rid == nodeh.ReplicaID(0, 0) && cl.M[0].Up {
				s.pointHits++
				if s.pointHits == g.crashHit {
					s.tripped = true
					// park this goroutine for the rest of the run: the process
					// is about to be killed with this thread stopped exactly here
					<-s.parkCh
				}
			}
		}
	}
	// boot: wait for a leader (no faults before that)
	cl.PumpFair(80, func() bool { return cl.Leader(0) >= 0 })
	if cl.Leader(0) < 0 {
		c.Violate(orProp(c, "C04"), "no-initial-leader", "", "no leader after 80 fair rounds on a fresh cluster")
		return
	}
	s.believed = cl.Leader(0)
	s.armed = true // crash points count from here on (no faults during boot)
	if g.crashAfterSnap && cl.M[0].Up {
		// machine 0 goes down right away so that it needs a snapshot when it returns
		c.Fault("kill")
		c.Log("kill", "m0 (prelude)")
		s.kill(cl.M[0])
		s.ackedAtPrelude = s.acked
	}
	w := []int{g.wInvoke, g.wTick, g.wDeliver, g.wKill, g.wRestart, g.wStop, g.wTransfer, g.wPart, g.wHeal, g.wSleep, g.wPark}
	defer s.releaseAll()
	ev := 0
	for ; ev < g.events && len(c.Viol) == 0; ev++ {
		cl.Clock = int64(ev)
		if s.park != nil && ev-s.park.since > s.park.maxEvents() {
			s.releasePark("timeout")
		}
		s.event(t.Weighted(w))
		s.poll()
		if s.tripped && cl.M[0].Up {
			// C06: the armed crash point was reached: kill -9 now
			c.Fault("kill_at_point")
			if g.crashAfterSnap {
				c.Fault("kill_at_point_after_incoming_snapshot")
			}
			c.Log("kill-at-point", "%s hit %d", g.crashPoint, g.crashHit)
			s.kill(cl.M[0])
			s.tripped = false
			s.pointDone = true
		}
	}
	c.Events = int64(ev)
	// the armed crash point is disarmed: no faults while settling
	s.pointDone = true
	s.releasePark("settle")
	// ---- settle: no more faults ----
	c.Log("settle", "")
	s.blocked = map[[2]int]bool{}
	for _, m := range cl.M {
		if !m.Up {
			if err := cl.Restart(m); err != nil {
				c.Violate(orProp(c, "C06"), "restart-failed", "", "machine %d does not come back on its directory: %v", m.Idx, err)
				return
			}
			c.Log("restart", "m%d", m.Idx)
		}
	}
	settled := func() bool {
		if cl.Leader(0) < 0 {
			return false
		}
		var ai uint64
		for i, m := range cl.M {
			a := m.Parts[0].Node.GetAppliedIndex()
			if i == 0 {
				ai = a
			} else if a != ai {
				return false
			}
		}
		for _, p := range s.pend {
			if p != nil && !p.call.Dead && !p.call.Done() {
				return false
			}
		}
		return true
	}
	revive := func() {
		for _, m := range cl.M {
			if len(cl.SelfStopped(m)) > 0 {
				c.Probe("self_stopped_node_revived")
				c.Log("revive", "m%d", m.Idx)
				if err := cl.ReviveSelfStopped(m); err != nil {
					c.Violate(orProp(c, "C06"), "restart-failed", "", "machine %d does not come back after it stopped itself: %v", m.Idx, err)
				}
			}
		}
	}
	cl.PumpFair(60, nil)
	for k := 0; k < 10 && !settled() && len(c.Viol) == 0; k++ {
		revive()
		cl.PumpFair(100, settled)
	}
	s.poll()
	c.SimMs = int64(time.Since(time.Date(2000, 1, 1, 0, 0, 0, 0, time.UTC)) / time.Millisecond)
	if !settled() {
		st := ""
		for _, m := range cl.M {
			st += fmt.Sprintf(" m%d(applied=%d lead=%v)", m.Idx, m.Parts[0].Node.GetAppliedIndex(), m.Parts[0].Node.IsLead())
		}
		for _, m := range cl.M {
			out, _ := exec.Command("sh", "-c", "cd "+m.Dir+"/default-0 && ls snap-* rocksdb_backup 2>&1 | tr '\\n' ' '").CombinedOutput()
			c.Log("dir", "m%d %s", m.Idx, out)
		}
		// ground truth for known finding "backpressure-ignores-commit"
		key := ""
		var maxA uint64
		for _, m := range cl.M {
			if a := m.Parts[0].Node.GetAppliedIndex(); a > maxA {
				maxA = a
			}
		}
		nlag, nbp := 0, 0
		for _, m := range cl.M {
			if m.Parts[0].Node.GetAppliedIndex() < maxA {
				nlag++
				if cl.BackpressureStuck(m, 0) {
					nbp++
				}
			}
		}
		if nlag > 0 && nlag == nbp && cl.Leader(0) >= 0 {
			key = "backpressure-ignores-commit"
		}
		c.Violate(orProp(c, "C04"), "no-settle", key, "after the last fault and 1060 fair rounds the replicas did not converge:%s", st)
		return
	}
	// unanswered calls stay unknown
	for i, p := range s.pend {
		if p != nil {
			p.op.Known = false
			p.op.Ret = lin.Inf
			if p.op.Args[0] != "pfadd" {
				s.hist = append(s.hist, p.op)
			}
			s.pend[i] = nil
		}
	}
	// final reads through the leader's command path; they must linearize too
	l := cl.Leader(0)
	for _, rd := range finalReads() {
		call := s.next()
		r, ok := cl.Do(cl.M[l], toCmd(rd), 100)
		ret := s.next()
		if !ok || nodeh.IsErr(r) {
			c.Violate(orProp(c, "C04"), "final-read-failed", "", "settle-time read %v on the leader failed: %v", rd, nodeh.Fmt(r))
			return
		}
		final = append(final, lin.Op{Client: 99, Args: rd, Call: call, Ret: ret, Reply: r, Known: true, Note: "settle-read"})
		c.Log("final", "%v -> %s", rd, nodeh.Fmt(r))
	}
	for _, k := range hllKeys {
		r, ok := cl.Do(cl.M[l], toCmd([]string{"pfcount", k}), 100)
		n, isInt := r.(int64)
		if !ok || !isInt {
			c.Violate(orProp(c, "C04"), "final-read-failed", "", "settle-time PFCOUNT %s on the leader failed: %v", k, nodeh.Fmt(r))
			return
		}
		a, tr := int64(s.hllAcked[k]), int64(s.hllTried[k])
		c.Log("final", "pfcount %s -> %d (acked %d, tried %d)", k, n, a, tr)
		if n < a-a/10 || n > tr+tr/10 {
			c.Violate(orProp(c, "C04"), "hll-count", "", "PFCOUNT %s = %d after settling, but %d PFADDs of distinct elements were acknowledged and %d attempted", k, n, a, tr)
			return
		}
	}
	// every replica must hold the same data
	var dumps []string
	for _, m := range cl.M {
		d := ""
		for _, rd := range finalReads() {
			r := directRead(m, rd)
			d += fmt.Sprintf("%v=%s;", rd[:2], nodeh.Fmt(r))
		}
		for _, k := range hllKeys {
			d += fmt.Sprintf("[pfcount %s]=%s;", k, nodeh.Fmt(directRead(m, []string{"pfcount", k})))
		}
		dumps = append(dumps, d)
	}
	for i := 1; i < len(dumps); i++ {
		if dumps[i] != dumps[0] {
			mismatch = fmt.Sprintf("after settling, machine %d holds %s but machine 0 holds %s", i, dumps[i], dumps[0])
		}
	}
	return
}

func orProp(c *core.RunCtx, def string) string {
	if c.Prop != "" {
		return c.Prop
	}
	return def
}

// directRead runs a read handler on a replica regardless of leadership.
func directRead(m *nodeh.Machine, args []string) interface{} {
	nn := m.Parts[0]
	h, ok := nn.Node.GetHandler(args[0])
	if !ok {
		return nodeh.RErr("no handler")
	}
	conn := &nodeh.CapConn{}
	h(conn, toCmd(args))
	r, _ := conn.Result()
	return r
}

func (s *sim) ups() []*nodeh.Machine {
	var out []*nodeh.Machine
	for _, m := range s.cl.M {
		if m.Up {
			out = append(out, m)
		}
	}
	return out
}

func (s *sim) kill(m *nodeh.Machine) {
	wasParked := s.park != nil && s.park.machine == m.Idx
	if wasParked && s.park.isParked() {
		// the process dies with that thread stopped exactly there
		s.c.Probe("killed_with_goroutine_parked")
		s.c.Log("kill-while-parked", "m%d %s", m.Idx, s.park.name)
	}
	s.cl.Kill(m) // takes the directory image
	s.killed++
	// whatever the dead process had not answered by now is never answered
	for _, p := range s.pend {
		if p != nil && p.call.Machine == m.Idx && !p.call.Done() {
			p.call.Dead = true
		}
	}
	if wasParked {
		// the image is taken; the abandoned goroutine may run on (it is dead to
		// the world) and the point must not catch the next incarnation
		s.park.release()
		s.park = nil
		synctest.Wait()
	}
}

func (s *sim) event(kind int) {
	c, t, cl := s.c, s.t, s.cl
	switch kind {
	case 0: // client invocation
		var idle []int
		for i, p := range s.pend {
			if p == nil {
				idle = append(idle, i)
			}
		}
		ups := s.ups()
		if len(idle) == 0 || len(ups) == 0 {
			return
		}
		ci := idle[t.Choose(len(idle))]
		// clients follow the leader they believe in, sometimes wrongly
		var m *nodeh.Machine
		if l := cl.Leader(0); l >= 0 && t.Bool(850) {
			m = cl.M[l]
		} else {
			m = ups[t.Choose(len(ups))]
		}
		args := s.g.write()
		// keep the number of open (outcome unknown) operations per key small:
		// linearizability checking is exponential in them
		for try := 0; try < 8 && s.unknown[model.TypeOf(args[0])+"|"+args[1]] >= 5; try++ {
			args = s.g.write()
		}
		if s.unknown[model.TypeOf(args[0])+"|"+args[1]] >= 5 {
			return
		}
		op := lin.Op{Client: ci, Args: args, Call: s.next()}
		if args[0] == "pfadd" {
			s.hllTried[args[1]]++
		}
		// ground truth for known finding "stale-precheck": the serving replica
		// has not applied everything that was acknowledged before this call
		if precheckCmd(args[0]) {
			s.noteApplied()
			if m.Parts[0].Node.GetAppliedIndex() < s.maxAppliedEver {
				op.Relax = true
				op.Note = "served-by-lagging-replica"
				c.Probe("precheck_on_lagging_replica")
			}
		}
		c.Log("invoke", "c%d m%d %v", ci, m.Idx, args)
		call := cl.Invoke(m, toCmd(args))
		s.pend[ci] = &pending{call: call, op: op}
	case 1: // tick
		ups := s.ups()
		if len(ups) == 0 {
			return
		}
		m := ups[t.Choose(len(ups))]
		if s.park != nil && s.park.replay && cl.M[s.park.machine].Up && t.Bool(700) {
			// time passes for the machine whose replay is slow, too
			m = cl.M[s.park.machine]
		}
		c.Log("tick", "m%d", m.Idx)
		cl.Tick(m)
		// simulated time flows with ticks
		cl.Sleep(time.Duration(100/len(cl.M)) * time.Millisecond)
	case 2: // deliver one message
		s.deliverOne()
	case 3: // kill -9
		ups := s.ups()
		// leave a majority alive
		if len(ups)-1 < s.cfg.machines/2+1 && s.cfg.machines > 1 {
			return
		}
		if len(ups) == 0 {
			return
		}
		m := ups[t.Choose(len(ups))]
		if l := cl.Leader(0); l >= 0 && t.Bool(500) {
			m = cl.M[l]
		}
		c.Fault("kill")
		c.Log("kill", "m%d", m.Idx)
		s.kill(m)
	case 4: // restart
		for _, m := range cl.M {
			if !m.Up && m.Idx == 0 && s.cfg.crashAfterSnap && !s.snapSeen && s.acked-s.ackedAtPrelude < 2*s.cfg.snapCount+s.cfg.catchup {
				// stays away until the others have compacted their logs
				continue
			}
			if !m.Up {
				if s.park == nil && t.Bool(250) {
					// a slow replay: one goroutine of the restarting process is held
					// at a point while ticks and messages keep arriving
					name := replayParkPoints[t.Choose(len(replayParkPoints))]
					skip := t.Choose(4)
					rel, isP := cl.ArmNth(name, 0, m.Idx, skip)
					s.park = &parked{machine: m.Idx, name: name, release: rel, isParked: isP, since: int(cl.Clock), replay: true}
					s.releases = append(s.releases, rel)
					c.Fault("park_during_replay")
					c.Log("park", "m%d %s skip=%d (restart)", m.Idx, name, skip)
				}
				c.Log("restart", "m%d", m.Idx)
				if err := cl.Restart(m); err != nil {
					c.Violate(orProp(c, "C06"), "restart-failed", "", "machine %d does not come back on its directory: %v", m.Idx, err)
				}
				return
			}
		}
	case 5: // graceful stop
		ups := s.ups()
		if len(ups)-1 < s.cfg.machines/2+1 || len(ups) == 0 {
			return
		}
		m := ups[t.Choose(len(ups))]
		if s.park != nil && s.park.machine == m.Idx {
			s.releasePark("graceful stop")
		}
		if s.tripped && m.Idx == 0 {
			// the released thread ran into the armed crash point: the kill (end
			// of this event) comes first, there is nothing left to stop
			return
		}
		c.Fault("stop_graceful")
		c.Log("stop", "m%d", m.Idx)
		// calls in flight on that process end with whatever it answers
		nn0 := m.Parts[0]
		defer func() {
			// ground truth bookkeeping only: what the stopping process had applied
			if nn0 != nil {
				if a := nn0.Node.GetAppliedIndex(); a > s.maxAppliedEver {
					s.maxAppliedEver = a
				}
			}
		}()
		if !cl.StopGraceful(m) {
			c.Violate(orProp(c, "C06"), "graceful-stop-hangs", "", "graceful stop of machine %d did not finish within two simulated minutes", m.Idx)
		}
	case 6: // leader transfer
		l := cl.Leader(0)
		ups := s.ups()
		if l < 0 || len(ups) < 2 {
			return
		}
		to := ups[t.Choose(len(ups))]
		if to.Idx == l {
			return
		}
		c.Fault("leader_transfer")
		c.Log("transfer", "m%d -> m%d", l, to.Idx)
		cl.M[l].Parts[0].TransferMyLeader(cl.NodeID(to.Idx), nodeh.ReplicaID(0, to.Idx))
		synctest.Wait()
	case 7: // partition one machine (a majority stays connected)
		if s.cfg.machines < 3 {
			return
		}
		m := t.Choose(len(cl.M))
		for o := range cl.M {
			if o != m {
				s.blocked[[2]int{m, o}] = true
				s.blocked[[2]int{o, m}] = true
			}
		}
		c.Fault("partition")
		c.Log("partition", "m%d", m)
	case 8: // heal
		if len(s.blocked) > 0 {
			s.blocked = map[[2]int]bool{}
			c.Log("heal", "")
		}
	case 10: // park a goroutine of one machine at a named point / release it
		if s.park != nil {
			s.releasePark("event")
			return
		}
		ups := s.ups()
		if len(ups) == 0 {
			return
		}
		m := ups[t.Choose(len(ups))]
		name := parkPoints[t.Choose(len(parkPoints))]
		rel, isP := cl.Arm(name, 0, m.Idx)
		s.park = &parked{machine: m.Idx, name: name, release: rel, isParked: isP, since: int(cl.Clock)}
		s.releases = append(s.releases, rel)
		c.Fault("park")
		c.Log("park", "m%d %s", m.Idx, name)
	case 9: // time passes
		d := time.Duration(1+t.Choose(20)) * 50 * time.Millisecond
		c.Log("sleep", "%v", d)
		cl.Sleep(d)
	}
}

// definiteFailure: error replies produced before a request is proposed
// (node.ErrNodeNoLeader in queueRequest, node.ErrNamespaceNotFound in routing).
func definiteFailure(msg string) bool {
	return strings.Contains(msg, "partition of the node has no leader") || strings.Contains(msg, "namespace is not found")
}

// precheckCmd: write commands that node/*.go answers from the local store
// without proposing when the store says there is nothing to do.
func precheckCmd(name string) bool {
	switch name {
	case "setnx", "lpop", "rpop", "sadd", "srem", "spop", "zrem":
		return true
	}
	return false
}

// noteApplied tracks the highest applied index any replica ever reported
// (ground truth for the stale-precheck known finding only; no oracle uses it).
func (s *sim) noteApplied() {
	for _, x := range s.cl.M {
		if x.Up && x.Parts[0] != nil {
			if a := x.Parts[0].Node.GetAppliedIndex(); a > s.maxAppliedEver {
				s.maxAppliedEver = a
			}
		}
	}
}

func (s *sim) deliverOne() {
	c, t, cl := s.c, s.t, s.cl
	// take the whole outbox, canonical order, put back all but one
	ms := cl.TakeOut()
	if len(ms) == 0 {
		return
	}
	nodeh.Canon(ms)
	k := 0
	if t.Bool(s.cfg.reorderPm) {
		k = t.Choose(len(ms))
	}
	m := ms[k]
	rest := append(append([]nodeh.Msg{}, ms[:k]...), ms[k+1:]...)
	// the transport is a TCP stream: it loses messages on reconnect but never
	// delivers one twice; raft tolerates duplicates of its own messages, a
	// forwarded client proposal (MsgProp) delivered twice would be two proposals
	if t.Bool(s.cfg.dupPm) && !m.Snap && m.M.Type != raftpb.MsgProp {
		rest = append(rest, m)
		c.Fault("dup")
	}
	cl.PutBack(rest)
	to, _ := cl.TargetOf(&m)
	switch {
	case m.Snap && cl.Clock-m.Born > 60:
		// a snapshot request is an HTTP POST: it fails, it is not delivered minutes later
		c.Log("drop", "m%d->m%d %v (stale)", m.From, to, m.M.Type)
		cl.ReportSnap(m, false)
		return
	case s.blocked[[2]int{m.From, to}]:
		c.Fault("partition_drop")
		c.Log("drop", "m%d->m%d %v", m.From, to, m.M.Type)
		if m.Snap {
			cl.ReportSnap(m, false)
		}
		return
	case t.Bool(s.cfg.dropPm):
		c.Fault("drop")
		c.Log("drop", "m%d->m%d %v", m.From, to, m.M.Type)
		if m.Snap {
			cl.ReportSnap(m, false)
		}
		return
	}
	if m.Snap {
		c.Probe("snapshot_message_delivered")
		if to == 0 {
			s.snapSeen = true // (C06) crash points armed "after an incoming snapshot" count from here
		}
	}
	ok := cl.Deliver(m)
	c.Log("deliver", "m%d->m%d %v t=%d i=%d n=%d ok=%v", m.From, to, m.M.Type, m.M.Term, m.M.Index, len(m.M.Entries), ok)
}

// poll records the completion of client calls.
func (s *sim) poll() {
	s.noteApplied()
	for i, p := range s.pend {
		if p == nil {
			continue
		}
		if p.call.Dead {
			p.op.Known = false
			p.op.Ret = lin.Inf
			if p.op.Args[0] != "pfadd" {
				s.unknown[model.TypeOf(p.op.Args[0])+"|"+p.op.Args[1]]++
				s.hist = append(s.hist, p.op)
			}
			s.pend[i] = nil
			s.c.Log("lost", "c%d %v", i, p.op.Args)
			continue
		}
		if !p.call.Done() {
			continue
		}
		r, ok := p.call.Reply()
		p.op.Ret = s.next()
		if e, isE := r.(nodeh.RErr); isE && definiteFailure(string(e)) {
			// rejected before anything was proposed: did not happen
			s.c.Log("reply", "c%d %v -> rejected %s", i, p.op.Args, nodeh.Fmt(r))
			s.c.Count("definite_failures", 1)
			s.pend[i] = nil
			continue
		}
		if !ok || nodeh.IsErr(r) {
			p.op.Known = false
			p.op.Ret = lin.Inf
			s.unknown[model.TypeOf(p.op.Args[0])+"|"+p.op.Args[1]]++
			s.c.Log("reply", "c%d %v -> error/none %s", i, p.op.Args, nodeh.Fmt(r))
		} else {
			p.op.Known = true
			p.op.Reply = r
			s.acked++
			s.c.Log("reply", "c%d %v -> %s", i, p.op.Args, nodeh.Fmt(r))
			if p.op.Args[0] == "pfadd" {
				s.hllAcked[p.op.Args[1]]++
			}
		}
		if p.op.Args[0] != "pfadd" {
			s.hist = append(s.hist, p.op)
		}
		s.pend[i] = nil
	}
}
