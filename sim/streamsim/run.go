// Package streamsim decides property C16: raft messages written to a peer
// stream through the rafthttp codecs (msgappv2 and the generic message
// codec) are read back as the same sequence; a truncated or corrupted stream
// yields an error, never a different message.
//
// One run: a generated message sequence (several raft groups interleaved on
// the one stream two nodes share) is encoded by the real encoder into a
// simulated pipe and decoded by the real decoder through short reads; then
// the byte stream is cut at every offset of tape-chosen messages (all offsets
// of small streams), the writer is broken mid-message, a fresh codec pair
// (reconnect) carries a continuation, and tape-chosen bytes are corrupted.
package streamsim

import (
	"bytes"
	"fmt"
	"hash/crc32"
	"io"
	"sort"

	"github.com/youzan/ZanRedisDB/pkg/types"
	pb "github.com/youzan/ZanRedisDB/raft/raftpb"
	"github.com/youzan/ZanRedisDB/stats"
	"github.com/youzan/ZanRedisDB/transport/rafthttp"

	"verif/sim/core"
)

var Engine = core.Engine{Name: "streamsim", Run: Run}

// Note on speed: every enumerated truncation point needs a fresh decoder and
// every decoder allocates a 1 MiB buffer, so with the default collector pacing
// a collection runs every fourth cut although almost nothing is live. The
// registration therefore starts the workers with GOGC=1600 GOMEMLIMIT=384MiB
// (per-tier "env" of checks.json); nothing in the engine depends on it.

const prop = "C16"

// known-finding key: the msgappv2 decoder has no bound on the lengths it
// reads from the stream (the generic codec has one).
const keyV2Unbounded = "v2-unbounded-length"

var crcTab = crc32.MakeTable(crc32.Castagnoli)

const (
	roleType = iota
	roleLen
	roleCount
	roleEntLen
	roleCommit
	rolePayload
)

type field struct{ off, n, role int }

type frame struct {
	start, end int
	kind       int // type byte on the v2 stream, -1 on the generic stream
	fields     []field
}

type run struct {
	c      *core.RunCtx
	t      *core.Tape
	cfg    cfg
	g      *gen
	msgs   []sent
	ctx    []ctxSnap // codec context (reference model) after each message
	stream []byte
	frames []frame

	cutsDone    int64
	cutFull     []int
	cutPartial  []int
	cutAll      bool
	reconnectAt int
	corrupts    []string
	oneByte     int
	inMain      bool
	cutErr      error // how a cut connection ends for the reader: nil = io.EOF, else a reset
}

type ctxSnap struct {
	term, index uint64
	group       int
	any         bool
}

type panicErr struct{ v interface{} }

func (p panicErr) Error() string { return fmt.Sprintf("panic: %v", p.v) }

func safeEncode(e rafthttp.VerifEncoder, m *pb.Message) (err error) {
	defer func() {
		if r := recover(); r != nil {
			err = panicErr{r}
		}
	}()
	return e.Encode(m)
}

func safeDecode(d rafthttp.VerifDecoder) (m pb.Message, err error) {
	defer func() {
		if r := recover(); r != nil {
			err = panicErr{r}
		}
	}()
	return d.Decode()
}

func isPanic(err error) bool { _, ok := err.(panicErr); return ok }

func errClass(err error) string {
	switch {
	case err == nil:
		return "nil"
	case err == io.EOF:
		return "EOF"
	case err == io.ErrUnexpectedEOF:
		return "UEOF"
	case err == rafthttp.ErrExceedSizeLimit:
		return "LIMIT"
	case isPanic(err):
		return "PANIC"
	}
	return "ERR"
}

// the constructors take what stream.go passes on every new connection
func (r *run) newEncoder(w io.Writer) rafthttp.VerifEncoder {
	if r.cfg.Codec == codecV2 {
		return rafthttp.VerifNewMsgAppV2Encoder(w, &stats.PeerStats{})
	}
	return rafthttp.VerifNewMessageEncoder(w)
}

func (r *run) newDecoder(rd io.Reader) rafthttp.VerifDecoder {
	if r.cfg.Codec == codecV2 {
		return rafthttp.VerifNewMsgAppV2Decoder(rd, types.ID(r.cfg.Local), types.ID(r.cfg.Remote))
	}
	return rafthttp.VerifNewMessageDecoder(rd)
}

func (r *run) violate(rule, key, format string, args ...interface{}) {
	r.c.Violate(prop, rule, key, format, args...)
}

func (r *run) failed() bool {
	for _, v := range r.c.Viol {
		if v.Key == "" {
			return true
		}
	}
	return false
}

func Run(c *core.RunCtx) {
	r := &run{c: c, t: c.Tape, reconnectAt: -1}
	r.cfg = drawCfg(c)
	c.Log("cfg", "%+v", r.cfg)
	r.g = newGen(c, r.cfg)
	for i, gr := range r.g.groups {
		c.Log("group", "%d from=%+v to=%+v term=%d idx=%d", i, gr.from, gr.to, gr.term, gr.idx)
	}
	for i := 0; i < r.cfg.NMsgs; i++ {
		r.msgs = append(r.msgs, r.g.next())
		r.ctx = append(r.ctx, r.snapCtx())
	}
	ok := r.encodeAll()
	if ok {
		ok = r.mainPass()
	}
	if ok && len(r.frames) > 0 {
		r.cutPass()
	}
	if !r.failed() && len(r.frames) > 0 {
		r.reconnectPass()
	}
	if !r.failed() && r.cfg.Codec == codecGeneric && r.t.Choose(5) < 2 {
		r.sizeLimitPass()
	}
	if !r.failed() && len(r.frames) > 0 {
		r.corruptPass()
	}
	r.evidence()
}

func (r *run) snapCtx() ctxSnap {
	return ctxSnap{term: r.g.ref.term, index: r.g.ref.index, group: r.g.lastGroup, any: r.g.ref.any}
}

// encodeAll writes the whole sequence through one encoder into the pipe.
func (r *run) encodeAll() bool {
	w := &pipeWriter{limit: -1}
	enc := r.newEncoder(w)
	for i := range r.msgs {
		s := &r.msgs[i]
		mm := s.m // the writer goroutine owns a copy: m := <-msgc; enc.encode(&m)
		start := len(w.buf)
		err := safeEncode(enc, &mm)
		r.c.Events++
		if err != nil {
			rule := "encode-error"
			if isPanic(err) {
				rule = "encoder-panic"
			}
			r.violate(rule, "", "message %d (%s) on an intact connection: encode returned %v", i, describe(&s.m), err)
			return false
		}
		f := frame{start: start, end: len(w.buf), kind: -1}
		if f.end == f.start {
			r.violate("empty-frame", "", "message %d (%s): encoder wrote nothing", i, describe(&s.m))
			return false
		}
		if r.cfg.Codec == codecV2 {
			f.kind = int(w.buf[start])
		}
		f.fields = r.layout(&f, &s.m)
		if f.fields == nil {
			r.c.Probe("frame_layout_unexpected")
		}
		if r.cfg.Codec == codecV2 && f.kind != s.predict {
			r.c.Probe("form_prediction_mismatch")
		}
		r.frames = append(r.frames, f)
		r.c.Log("enc."+r.frameName(&f, &s.m), "%d %s g=%d %s size=%d crc=%08x", i, s.ev, s.group, describe(&s.m), f.end-f.start,
			crc32.Checksum(w.buf[f.start:f.end], crcTab))
		if n := s.m.Size(); r.cfg.Codec == codecV2 && f.kind == int(rafthttp.VerifMsgTypeApp) && n > bufSize {
			r.c.Probe("full_form_message_gt_1MiB")
		} else if r.cfg.Codec == codecGeneric && n >= bufSize {
			r.c.Probe("generic_message_ge_buffer")
		}
	}
	r.stream = w.buf
	return true
}

func (r *run) frameName(f *frame, m *pb.Message) string {
	switch f.kind {
	case int(rafthttp.VerifMsgTypeLinkHeartbeat):
		return "hb"
	case int(rafthttp.VerifMsgTypeAppEntries):
		return "appentries"
	case int(rafthttp.VerifMsgTypeApp):
		return "app." + m.Type.String()
	}
	return "msg." + m.Type.String()
}

// layout computes the documented field map of a frame (msgappv2_codec.go's
// header comment; msg_codec.go: 8-byte length + message). nil if the frame
// length does not fit the map (then the frame is not used as a corruption or
// boundary target).
func (r *run) layout(f *frame, m *pb.Message) []field {
	n := f.end - f.start
	if r.cfg.Codec == codecGeneric {
		if n != 8+m.Size() {
			return nil
		}
		return []field{{0, 8, roleLen}, {8, n - 8, rolePayload}}
	}
	switch f.kind {
	case int(rafthttp.VerifMsgTypeLinkHeartbeat):
		if n != 1 {
			return nil
		}
		return []field{{0, 1, roleType}}
	case int(rafthttp.VerifMsgTypeApp):
		if n != 9+m.Size() {
			return nil
		}
		return []field{{0, 1, roleType}, {1, 8, roleLen}, {9, n - 9, rolePayload}}
	case int(rafthttp.VerifMsgTypeAppEntries):
		fs := []field{{0, 1, roleType}, {1, 8, roleCount}}
		off := 9
		for i := range m.Entries {
			s := m.Entries[i].Size()
			fs = append(fs, field{off, 8, roleEntLen}, field{off + 8, s, rolePayload})
			off += 8 + s
		}
		fs = append(fs, field{off, 8, roleCommit})
		if off+8 != n {
			return nil
		}
		return fs
	}
	return nil
}

func (r *run) drawSizes() []int {
	n := 1 + r.t.Choose(8)
	s := make([]int, n)
	for i := range s {
		s[i] = pick(r.t, 0, 1, 2, 3, 7, 8, 9, 13, 64, 512, 4096, 65536, 1<<20)
	}
	return s
}

func (r *run) cmp(a, b *pb.Message) string {
	o := cmpOpt{ignoreName: r.cfg.NameDrift}
	d := diffMsg(a, b, &o)
	if o.nameDiff && r.inMain {
		r.c.Probe("name_drift_not_carried_by_compact_form")
	}
	return d
}

// mainPass: the intact connection. Everything is decoded first and compared
// afterwards, as the receiver hands decoded entries to raft (which keeps
// their Data) before it decodes the next message.
func (r *run) mainPass() bool {
	rd := &pipeReader{data: r.stream, sizes: r.drawSizes(), eofWithData: r.t.Choose(3) == 0}
	r.c.Log("read", "sizes=%v eofWithData=%v", rd.sizes, rd.eofWithData)
	dec := r.newDecoder(rd)
	got := make([]pb.Message, 0, len(r.msgs))
	for i := range r.msgs {
		m, err := safeDecode(dec)
		r.c.Events++
		if err != nil {
			s := &r.msgs[i]
			if i > 0 && r.cfg.NodeMismatch && r.frames[i].kind == int(rafthttp.VerifMsgTypeAppEntries) &&
				(s.m.FromGroup.NodeId != r.cfg.Remote || s.m.ToGroup.NodeId != r.cfg.Local) && !isPanic(err) {
				// a pair that production could not route onto this stream: the
				// decoder refuses the compact form; the stream ends here
				r.c.Probe("node_mismatch_rejected")
				r.c.Log("dec.reject", "%d %v", i, err)
				r.msgs, r.ctx, r.frames = r.msgs[:i], r.ctx[:i], r.frames[:i]
				r.stream = r.stream[:r.frames[i-1].end]
				break
			}
			rule := "decode-error"
			if isPanic(err) {
				rule = "decoder-panic"
			}
			r.violate(rule, "", "message %d of %d (%s, frame bytes %d..%d) on an intact stream: decode returned %v", i, len(r.msgs), describe(&s.m), r.frames[i].start, r.frames[i].end, err)
			return false
		}
		got = append(got, m)
	}
	if len(got) == len(r.msgs) && len(r.stream) == len(rd.data) {
		if m, err := safeDecode(dec); err == nil {
			r.violate("message-after-end", "", "after the last sent message the decoder returned another message: %s", describe(&m))
			return false
		} else {
			r.c.Log("dec.end", "%s", errClass(err))
			if isPanic(err) {
				r.violate("decoder-panic", "", "at the end of the stream: %v", err)
				return false
			}
		}
	}
	r.inMain = true
	defer func() { r.inMain = false }()
	for i := range got {
		s := &r.msgs[i]
		if d := r.cmp(&s.m, &got[i]); d != "" {
			r.violate("roundtrip-mismatch", "", "message %d of %d differs after decoding: %s | sent %s | got %s | frame kind %d | previous: %s",
				i, len(r.msgs), d, describe(&s.m), describe(&got[i]), r.frames[i].kind, r.prevDesc(i))
			return false
		}
		if !deepEqualNormalised(&s.m, &got[i], r.cfg.NameDrift) {
			r.violate("roundtrip-mismatch-unlisted-field", "", "message %d differs in a field the comparison does not list: sent %+v got %+v", i, s.m, got[i])
			return false
		}
		r.c.Log("dec.ok", "%d", i)
	}
	r.oneByte += rd.oneByte
	if rd.oneByte > 0 {
		r.c.Probe("short_read_1_byte")
		r.c.Count("fault.short_read", int64(rd.oneByte))
	}
	if rd.eofWithData {
		r.c.Probe("eof_delivered_with_data")
	}
	return true
}

func (r *run) prevDesc(i int) string {
	if i == 0 {
		return "none"
	}
	return fmt.Sprintf("kind %d %s", r.frames[i-1].kind, describe(&r.msgs[i-1].m))
}

// complete returns how many frames are completely contained in stream[:k].
func (r *run) complete(k int) int {
	return sort.Search(len(r.frames), func(i int) bool { return r.frames[i].end > k })
}

// checkCut: the connection delivers exactly stream[:k]. The decoder must
// return the completely delivered messages as sent, then an error.
func (r *run) checkCut(k int, sizes []int, eofWithData bool) bool {
	fast := k - 2048
	rd := &pipeReader{data: r.stream[:k], sizes: sizes, fastUntil: fast, eofWithData: eofWithData, endErr: r.cutErr}
	dec := r.newDecoder(rd)
	want := r.complete(k)
	n := 0
	var err error
	for {
		var m pb.Message
		m, err = safeDecode(dec)
		r.c.Events++
		if err != nil {
			break
		}
		if n >= want {
			where := "at the end of the stream"
			if n < len(r.frames) {
				where = fmt.Sprintf("inside frame %d (bytes %d..%d, kind %d, sent %s)", n, r.frames[n].start, r.frames[n].end, r.frames[n].kind, describe(&r.msgs[n].m))
			}
			r.violate("message-from-truncated-stream", "", "stream of %d bytes cut at byte %d %s: decoder returned a message that was not completely delivered: %s", len(r.stream), k, where, describe(&m))
			return false
		}
		if d := r.cmp(&r.msgs[n].m, &m); d != "" {
			r.violate("cut-prefix-mismatch", "", "stream cut at byte %d: completely delivered message %d differs: %s", k, n, d)
			return false
		}
		n++
	}
	if isPanic(err) {
		r.violate("decoder-panic", "", "stream of %d bytes cut at byte %d: %v", len(r.stream), k, err)
		return false
	}
	if n < want {
		r.violate("cut-lost-message", "", "stream cut at byte %d: %d messages were completely delivered, decoder returned %d then %v", k, want, n, err)
		return false
	}
	r.oneByte += rd.oneByte
	r.cutsDone++
	if err == io.EOF && k < len(r.stream) && k != r.frames[want].start {
		// not a violation (an error, not a message), but stream.go takes
		// io.EOF for "all data is read out": io.ReadFull reports a cut that
		// falls exactly between two header fields as a clean end
		r.c.Probe("cut_inside_message_reported_as_clean_EOF")
	}
	r.c.Log("cut", "%d n=%d %s", k, n, errClass(err))
	return true
}

// cutPass enumerates truncation points.
func (r *run) cutPass() {
	t := r.t
	L := len(r.stream)
	sizes := r.drawSizes()
	eofWithData := t.Choose(4) == 0
	if t.Choose(4) == 1 {
		r.cutErr = errPipeBroken
		r.c.Probe("cut_ends_with_reset_error")
	}
	r.c.Log("cutcfg", "sizes=%v eofWithData=%v reset=%v", sizes, eofWithData, r.cutErr != nil)
	seen := map[int]bool{}
	var offs []int
	add := func(k int) {
		if k >= 0 && k <= L && !seen[k] {
			seen[k] = true
			offs = append(offs, k)
		}
	}
	type tgt struct {
		frame, from, to int // offs[from:to] belong to the frame
		full            bool
	}
	var tgts []tgt
	if L <= r.cfg.SmallAll {
		r.cutAll = true
		for k := 0; k <= L; k++ {
			add(k)
		}
	} else {
		var cand, compact []int
		for i := range r.frames {
			f := &r.frames[i]
			if f.end-f.start <= r.cfg.FullCap && f.end-f.start > 1 {
				cand = append(cand, i)
				if f.kind == int(rafthttp.VerifMsgTypeAppEntries) {
					compact = append(compact, i)
				}
			}
		}
		nT := 1 + t.Choose(2)
		for i := 0; i < nT; i++ {
			fi := t.Choose(len(r.frames))
			switch {
			case i == 0 && len(compact) > 0 && t.Choose(2) == 0:
				fi = compact[t.Choose(len(compact))]
			case len(cand) > 0 && t.Choose(4) != 0:
				fi = cand[t.Choose(len(cand))]
			}
			f := &r.frames[fi]
			from := len(offs)
			full := f.end-f.start <= r.cfg.FullCap
			if full {
				for k := f.start; k <= f.end; k++ {
					add(k)
				}
			} else {
				for k := f.start; k <= f.start+40; k++ {
					add(k)
				}
				for k := f.end - 24; k <= f.end; k++ {
					add(k)
				}
				fs := f.fields
				for j := 0; j < 16 && len(fs) > 0; j++ {
					fd := fs[t.Choose(len(fs))]
					if j < 4 && j < len(fs) {
						fd = fs[j]
					}
					for d := -10; d <= 10; d++ {
						if k := f.start + fd.off + d; k >= f.start && k <= f.end {
							add(k)
						}
					}
				}
				for j := 0; j < 32; j++ {
					add(f.start + t.Choose(f.end-f.start+1))
				}
			}
			tgts = append(tgts, tgt{fi, from, len(offs), full})
		}
		// cuts between messages
		b0 := t.Choose(len(r.frames))
		for j := 0; j < 64 && j < len(r.frames); j++ {
			add(r.frames[(b0+j)%len(r.frames)].end)
		}
		add(0)
		for j := 0; j < 24; j++ {
			add(t.Choose(L + 1))
		}
	}
	cost := int64(0)
	done := 0
	for _, k := range offs {
		if done >= r.cfg.MaxCuts || cost > r.cfg.CutCost {
			break
		}
		if !r.checkCut(k, sizes, eofWithData) {
			return
		}
		cost += 192<<10 + 2*int64(k)
		done++
		w := r.complete(k)
		switch {
		case w < len(r.frames) && k == r.frames[w].start || k == L:
			r.c.Count("cuts_at_message_boundary", 1)
		case w < len(r.frames) && r.fieldRole(w, k) == rolePayload:
			r.c.Count("cuts_inside_payload", 1)
		default:
			r.c.Count("cuts_inside_header", 1)
		}
	}
	if done < len(offs) {
		r.c.Count("cuts_dropped_by_budget", int64(len(offs)-done))
	}
	if r.cutAll && done == len(offs) {
		r.c.Count("streams_cut_at_every_offset", 1)
		r.c.Count("messages_cut_at_every_offset", int64(len(r.frames)))
		for i, f := range r.frames {
			if f.kind == int(rafthttp.VerifMsgTypeAppEntries) {
				r.c.Probe("compact_frame_cut_at_every_offset")
			}
			r.cutFull = append(r.cutFull, i)
		}
	}
	for _, tg := range tgts {
		switch {
		case tg.full && tg.to <= done:
			r.cutFull = append(r.cutFull, tg.frame)
			r.c.Count("messages_cut_at_every_offset", 1)
			if r.frames[tg.frame].kind == int(rafthttp.VerifMsgTypeAppEntries) {
				r.c.Probe("compact_frame_cut_at_every_offset")
			}
		case tg.from < done:
			r.cutPartial = append(r.cutPartial, tg.frame)
			r.c.Count("messages_cut_partially", 1)
			if r.frames[tg.frame].end-r.frames[tg.frame].start > bufSize {
				r.c.Probe("frame_gt_1MiB_cut_at_field_boundaries")
			}
		}
	}
	r.c.Count("cuts_enumerated", int64(done))
	r.c.Count("fault.stream_cut", int64(done))
}

// fieldRole says which field of frame fi the stream offset k lies in (the
// cut falls before byte k).
func (r *run) fieldRole(fi, k int) int {
	f := &r.frames[fi]
	rel := k - f.start
	for _, fd := range f.fields {
		if rel >= fd.off && rel < fd.off+fd.n {
			if rel == fd.off && fd.role == rolePayload {
				return roleLen // exactly after the header
			}
			return fd.role
		}
	}
	return roleType
}

// reconnectPass: the writer's connection breaks after kc bytes (short write,
// then error); the reader sees stream[:kc]; then both sides get a fresh
// codec, as stream.go does for every new connection, and the sender carries
// on from where the old context stood.
func (r *run) reconnectPass() {
	t := r.t
	L := len(r.stream)
	var kc int
	fi := t.Choose(len(r.frames))
	f := &r.frames[fi]
	switch t.Choose(4) {
	case 0, 1:
		kc = f.start + t.Choose(f.end-f.start)
	case 2:
		kc = f.start
	default:
		kc = t.Choose(L)
	}
	r.reconnectAt = kc
	w := &pipeWriter{limit: kc}
	enc := r.newEncoder(w)
	failedAt := -1
	var ferr error
	for i := range r.msgs {
		mm := r.msgs[i].m
		if err := safeEncode(enc, &mm); err != nil {
			failedAt, ferr = i, err
			break
		}
	}
	want := r.complete(kc)
	r.c.Fault("write_error")
	r.c.Log("wbreak", "at=%d failed=%d want=%d %s", kc, failedAt, want, errClass(ferr))
	switch {
	case isPanic(ferr):
		r.violate("encoder-panic", "", "connection broken after %d bytes: encode of message %d: %v", kc, failedAt, ferr)
		return
	case failedAt != want:
		r.violate("write-error-not-reported", "", "connection broken after %d bytes (inside message %d): encode reported the error at message %d (-1 = never)", kc, want, failedAt)
		return
	case !bytes.Equal(w.buf, r.stream[:kc]):
		r.violate("broken-writer-prefix-differs", "", "connection broken after %d bytes: the bytes written are not the prefix of the unbroken stream", kc)
		return
	}
	if !r.checkCut(kc, r.drawSizes(), t.Choose(4) == 0) {
		return
	}
	r.c.Count("fault.stream_cut", 1)

	// the new connection
	g := r.g
	var old ctxSnap
	if want > 0 {
		old = r.ctx[want-1]
	}
	g.resetRef()
	wouldContinue := false
	if old.any && old.group >= 0 && t.Choose(4) != 0 {
		gr := g.groups[old.group]
		gr.term, gr.idx = old.term, old.index
		g.cur = old.group
		wouldContinue = true
	}
	n2 := 1 + t.Choose(8)
	var seq []sent
	saveSw, saveHb, saveW := g.cfg.SwitchPm, g.cfg.HbPm, g.cfg.WEv
	for i := 0; i < n2; i++ {
		if i == 0 && wouldContinue {
			g.cfg.SwitchPm, g.cfg.HbPm, g.cfg.WEv = 0, 0, []int{1, 0, 0, 0, 0, 0, 0}
			s := g.nextAppend()
			g.cfg.SwitchPm, g.cfg.HbPm, g.cfg.WEv = saveSw, saveHb, saveW
			seq = append(seq, s)
			continue
		}
		seq = append(seq, g.next())
	}
	w2 := &pipeWriter{limit: -1}
	enc2 := r.newEncoder(w2)
	var ends []int
	for i := range seq {
		mm := seq[i].m
		st := len(w2.buf)
		if err := safeEncode(enc2, &mm); err != nil {
			r.violate("encode-error", "", "after reconnect, message %d (%s): %v", i, describe(&seq[i].m), err)
			return
		}
		ends = append(ends, len(w2.buf))
		kind := -1
		if r.cfg.Codec == codecV2 {
			kind = int(w2.buf[st])
		}
		if i == 0 && wouldContinue && seq[0].m.Type == pb.MsgApp {
			r.c.Probe("reconnect_first_message_continues_old_context")
			if kind == int(rafthttp.VerifMsgTypeAppEntries) {
				r.c.Probe("reconnect_first_frame_compact")
			}
		}
		r.c.Log("enc2", "%d %s kind=%d %s crc=%08x", i, seq[i].ev, kind, describe(&seq[i].m), crc32.Checksum(w2.buf[st:], crcTab))
	}
	rd := &pipeReader{data: w2.buf, sizes: r.drawSizes()}
	dec2 := r.newDecoder(rd)
	for i := range seq {
		m, err := safeDecode(dec2)
		r.c.Events++
		if err != nil {
			if r.cfg.NodeMismatch && !isPanic(err) {
				r.c.Probe("node_mismatch_rejected")
				return
			}
			r.violate("reconnect-decode-error", "", "fresh codec pair after a cut at byte %d: message %d (%s) yields %v", kc, i, describe(&seq[i].m), err)
			return
		}
		if d := r.cmp(&seq[i].m, &m); d != "" {
			r.violate("reconnect-mismatch", "", "fresh codec pair after a cut at byte %d: message %d differs: %s | sent %s | got %s", kc, i, d, describe(&seq[i].m), describe(&m))
			return
		}
	}
	if _, err := safeDecode(dec2); err == nil {
		r.violate("message-after-end", "", "after reconnect: decoder returned a message past the end of the stream")
		return
	}
	r.c.Probe("reconnect_checked")
	r.c.Log("reconnect.ok", "%d msgs", len(seq))
}

// sizeLimitPass (generic codec): the decoder accepts a message whose size is
// exactly the limit and refuses a larger one with an error. The limit is
// lowered through the package variable, as the package's own test does.
func (r *run) sizeLimitPass() {
	t := r.t
	limit := pick(t, 1000, 100, 200, 4096, 65536, bufSize-1, bufSize, bufSize+1)
	old := rafthttp.VerifSetReadBytesLimit(uint64(limit))
	defer rafthttp.VerifSetReadBytesLimit(old)
	g := r.g
	g.budget = 4 * (limit + 64)
	mk := func(target int) (pb.Message, bool) {
		m := g.freeForm(t.Choose(len(g.groups)))
		for m.Size() > target-16 {
			// shrink: a plain message
			m = pb.Message{Type: m.Type, From: uint64(1 + t.Choose(3)), To: uint64(1 + t.Choose(3)), Term: uint64(t.Choose(9))}
			if m.Size() > target-16 {
				return m, false
			}
		}
		return m, g.fitMsg(&m, target)
	}
	under, okU := mk(limit - t.Choose(3))
	over, okO := mk(limit + 1 + t.Choose(3))
	if !okU || !okO {
		r.c.Probe("size_limit_fit_failed")
		return
	}
	tail := pb.Message{Type: pb.MsgHeartbeat, From: 1, To: 2, Term: 3}
	w := &pipeWriter{limit: -1}
	enc := r.newEncoder(w)
	for _, m := range []*pb.Message{&under, &over, &tail} {
		mm := *m
		if err := safeEncode(enc, &mm); err != nil {
			r.violate("encode-error", "", "size-limit pass: %v", err)
			return
		}
	}
	dec := r.newDecoder(&pipeReader{data: w.buf, sizes: r.drawSizes()})
	m, err := safeDecode(dec)
	r.c.Log("limit", "limit=%d under=%d over=%d first=%s", limit, under.Size(), over.Size(), errClass(err))
	if err != nil {
		r.violate("size-limit-rejects-allowed-size", "", "size limit %d: a message of %d bytes yields %v", limit, under.Size(), err)
		return
	}
	if d := r.cmp(&under, &m); d != "" {
		r.violate("roundtrip-mismatch", "", "size-limit pass: message of %d bytes differs: %s", under.Size(), d)
		return
	}
	if under.Size() == limit {
		r.c.Probe("size_limit_exact_accepted")
	}
	m, err = safeDecode(dec)
	r.c.Log("limit2", "%s", errClass(err))
	if err == nil {
		r.violate("oversize-accepted", "", "size limit %d: a length prefix of %d bytes was accepted and decoded as %s", limit, over.Size(), describe(&m))
		return
	}
	if isPanic(err) {
		r.violate("decoder-panic", "", "size-limit pass: %v", err)
		return
	}
	r.c.Probe("size_limit_oversize_rejected")
}

// corruptPass: single corrupted bytes. Checked exactly where the format can
// detect the corruption (unknown frame type; a length beyond the limit);
// everywhere else the outcome is only counted.
func (r *run) corruptPass() {
	n := 2 + r.t.Choose(7)
	for i := 0; i < n && !r.failed(); i++ {
		r.corruptOnce()
	}
}

func (r *run) corruptOnce() {
	t := r.t
	fi := t.Choose(len(r.frames))
	f := &r.frames[fi]
	if f.fields == nil {
		return
	}
	v2 := r.cfg.Codec == codecV2
	// what to corrupt
	const (
		cTypeInvalid = iota // v2: frame type byte -> unknown value: must be an error
		cLenHuge            // v2: a length/count with a high byte set (>= 2^49): must be an error
		cLenLimit           // generic: length beyond the size limit: must be an error
		cPayload            // a byte of an opaque (protobuf) field: outcome counted
		cCommit             // v2 compact form: commit index: undetectable, counted
		cMisframe           // generic: length changed within the limit: outcome counted
	)
	var what int
	if v2 {
		what = []int{cTypeInvalid, cLenHuge, cPayload, cCommit}[t.Weighted([]int{3, 3, 3, 1})]
	} else {
		what = []int{cLenLimit, cPayload, cMisframe}[t.Weighted([]int{4, 3, 2})]
	}
	pickField := func(roles ...int) *field {
		var c []int
		for i := range f.fields {
			for _, ro := range roles {
				if f.fields[i].role == ro && f.fields[i].n > 0 {
					c = append(c, i)
				}
			}
		}
		if len(c) == 0 {
			return nil
		}
		return &f.fields[c[t.Choose(len(c))]]
	}
	var fd *field
	off := 0
	var newByte byte
	name := ""
	exact := false
	switch what {
	case cTypeInvalid:
		fd = pickField(roleType)
		if fd == nil {
			return
		}
		off, newByte, name, exact = f.start, byte(3+t.Choose(253)), "frame-type-unknown", true
	case cLenHuge:
		fd = pickField(roleLen, roleCount, roleEntLen)
		if fd == nil {
			r.c.Probe("corrupt_no_target")
			return
		}
		b := t.Choose(2)
		v := 1 + t.Choose(255)
		if b == 1 && v < 2 {
			v = 2
		}
		off, newByte, exact = f.start+fd.off+b, byte(v), true
		name = [...]string{roleLen: "v2-message-length-huge", roleCount: "v2-entry-count-huge", roleEntLen: "v2-entry-length-huge"}[fd.role]
	case cLenLimit:
		fd = pickField(roleLen)
		if fd == nil {
			return
		}
		// far beyond the production limit of 512 MiB: one of the two upper
		// bytes set (>= 2^49). Lengths just above the limit are the business
		// of sizeLimitPass (with a lowered limit); here a decoder without the
		// check must fail in a recoverable way, not by exhausting memory.
		b := t.Choose(2)
		v := 1 + t.Choose(255)
		if b == 1 && v < 2 {
			v = 2
		}
		off, newByte, name, exact = f.start+fd.off+b, byte(v), "length-beyond-limit", true
	case cPayload:
		fd = pickField(rolePayload)
		if fd == nil {
			r.c.Probe("corrupt_no_target")
			return
		}
		off = f.start + fd.off + t.Choose(fd.n)
		newByte = r.stream[off] ^ byte(1<<uint(t.Choose(8)))
		name = "payload-bit"
	case cCommit:
		fd = pickField(roleCommit)
		if fd == nil {
			r.c.Probe("corrupt_no_target")
			return
		}
		off = f.start + fd.off + t.Choose(8)
		newByte = r.stream[off] ^ byte(1<<uint(t.Choose(8)))
		name = "commit-bit"
	case cMisframe:
		fd = pickField(roleLen)
		if fd == nil {
			return
		}
		b := 5 + t.Choose(3)
		off = f.start + fd.off + b
		newByte = r.stream[off] ^ byte(1<<uint(t.Choose(8)))
		name = "length-within-limit"
	}
	if newByte == r.stream[off] {
		newByte ^= 0x40
		if what == cTypeInvalid && newByte < 3 {
			newByte = 0x7f
		}
	}
	mut := append([]byte(nil), r.stream...)
	mut[off] = newByte
	r.c.Fault("bitflip")
	dec := r.newDecoder(&pipeReader{data: mut})
	outcome := ""
	for j := 0; j <= fi; j++ {
		m, err := safeDecode(dec)
		r.c.Events++
		if j < fi {
			if err != nil {
				r.violate("corrupt-prefix-lost", "", "byte %d corrupted (frame %d): intact earlier message %d yields %v", off, fi, j, err)
				return
			}
			if d := r.cmp(&r.msgs[j].m, &m); d != "" {
				r.violate("corrupt-prefix-mismatch", "", "byte %d corrupted (frame %d): intact earlier message %d differs: %s", off, fi, j, d)
				return
			}
			continue
		}
		outcome = errClass(err)
		desc := fmt.Sprintf("stream of %d bytes, frame %d at %d..%d (kind %d, sent %s), byte %d (offset %d in frame) %#02x -> %#02x [%s]",
			len(r.stream), fi, f.start, f.end, f.kind, describe(&r.msgs[fi].m), off, off-f.start, r.stream[off], newByte, name)
		switch {
		case isPanic(err) && what == cLenHuge:
			// the msgappv2 decoder passes any 64-bit length to make(): a
			// recoverable panic here (>= 2^49), an out-of-memory abort for
			// smaller corrupted lengths (those are not injected)
			r.violate("v2-corrupt-length-panics", keyV2Unbounded, "%s: decoder panicked instead of returning an error: %v", desc, err)
		case isPanic(err):
			r.violate("decoder-panic-on-corrupt-stream", "", "%s: %v", desc, err)
		case err == nil && exact:
			r.violate("corrupt-stream-accepted", "", "%s: decoder returned a message instead of an error: %s", desc, describe(&m))
		case err == nil:
			if d := r.cmp(&r.msgs[fi].m, &m); d != "" {
				outcome = "different"
			} else {
				outcome = "same"
			}
		}
	}
	r.c.Probe("corrupt_" + name + "_" + outcome)
	r.c.Log("corrupt."+name, "frame=%d off=%d new=%#02x %s", fi, off, newByte, outcome)
	if len(r.corrupts) < 8 {
		r.corrupts = append(r.corrupts, fmt.Sprintf("%s@%d(frame %d)->%s", name, off, fi, outcome))
	}
}

func (r *run) evidence() {
	c := r.c
	g := r.g
	// a violation that is not a known finding is reported first
	sort.SliceStable(c.Viol, func(i, j int) bool { return c.Viol[i].Key == "" && c.Viol[j].Key != "" })
	c.SimMs = int64(len(r.msgs))
	c.Count("messages_sent", int64(len(r.msgs)))
	c.Count("stream_bytes", int64(len(r.stream)))
	if r.oneByte > 0 {
		c.Probe("short_read_1_byte_any_pass")
	}
	interleaved := len(g.groupsUsed) >= 2 && g.interleaves >= 2
	if interleaved {
		c.Probe("groups_interleaved")
	}
	compact := 0
	for _, f := range r.frames {
		if f.kind == int(rafthttp.VerifMsgTypeAppEntries) {
			compact++
		}
	}
	c.Count("compact_frames", int64(compact))
	// non-trivial: at least one message was cut at every byte offset, at
	// least two messages; on the append stream at least two groups
	// interleaved and the compact form used; on the message stream at least
	// two groups and three message types.
	fullCut := len(r.cutFull) > 0
	if r.cfg.Codec == codecV2 {
		c.NonTrivial = fullCut && len(r.frames) >= 2 && interleaved && compact >= 1
	} else {
		c.NonTrivial = fullCut && len(r.frames) >= 2 && len(g.groupsUsed) >= 2 && len(g.typesUsed) >= 3
	}
	var ml []string
	for i := range r.msgs {
		if i >= 12 {
			ml = append(ml, fmt.Sprintf("... %d more", len(r.msgs)-i))
			break
		}
		if i < len(r.frames) {
			f := &r.frames[i]
			ml = append(ml, fmt.Sprintf("[%d..%d) %s g%d %s", f.start, f.end, r.frameName(f, &r.msgs[i].m), r.msgs[i].group, describe(&r.msgs[i].m)))
		}
	}
	capList := func(l []int) []int {
		if len(l) > 8 {
			return l[:8]
		}
		return l
	}
	c.Sample = map[string]interface{}{
		"codec":                      [...]string{"msgappv2", "message"}[r.cfg.Codec],
		"config":                     fmt.Sprintf("%+v", r.cfg),
		"groups":                     len(g.groups),
		"messages":                   ml,
		"stream_bytes":               len(r.stream),
		"compact_frames":             compact,
		"cuts_enumerated":            r.cutsDone,
		"cut_every_offset_of_stream": r.cutAll,
		"frames_cut_at_every_offset": capList(r.cutFull),
		"frames_cut_partially":       capList(r.cutPartial),
		"reconnect_after_byte":       r.reconnectAt,
		"corruptions":                r.corrupts,
	}
}
