package streamsim

import (
	"errors"
	"io"
)

var errPipeBroken = errors.New("streamsim: connection broken")

// pipeWriter is the writing end of the simulated connection: it records the
// byte stream (copying, as a real connection does) and can break after a
// given number of bytes (a short write followed by an error).
type pipeWriter struct {
	buf    []byte
	limit  int // -1: never breaks
	broken bool
	writes int
}

func (w *pipeWriter) Write(p []byte) (int, error) {
	w.writes++
	if w.broken {
		return 0, errPipeBroken
	}
	if w.limit >= 0 && len(w.buf)+len(p) > w.limit {
		n := w.limit - len(w.buf)
		if n < 0 {
			n = 0
		}
		w.buf = append(w.buf, p[:n]...)
		w.broken = true
		return n, errPipeBroken
	}
	w.buf = append(w.buf, p...)
	return len(p), nil
}

// pipeReader is the reading end: it delivers the stream in chunks whose
// sizes were chosen by the tape (short reads down to one byte) and ends with
// io.EOF where the connection was cut.
type pipeReader struct {
	data        []byte
	pos         int
	fastUntil   int   // before this offset reads are served in full (keeps long prefixes cheap)
	sizes       []int // cycle of maximum chunk sizes; 0 = as much as asked
	si          int
	eofWithData bool  // deliver io.EOF together with the last bytes (allowed by io.Reader)
	endErr      error // what the end of the delivered bytes looks like: nil = io.EOF (closed), else e.g. a reset
	reads       int
	oneByte     int // reads that returned a single byte although more was asked for
}

func (r *pipeReader) Read(p []byte) (int, error) {
	r.reads++
	if r.pos >= len(r.data) {
		return 0, r.end()
	}
	if len(p) == 0 {
		return 0, nil
	}
	n := len(p)
	if r.pos >= r.fastUntil && len(r.sizes) > 0 {
		if s := r.sizes[r.si%len(r.sizes)]; s > 0 && s < n {
			n = s
		}
		r.si++
	}
	if rem := len(r.data) - r.pos; n > rem {
		n = rem
	}
	copy(p, r.data[r.pos:r.pos+n])
	r.pos += n
	if n == 1 && len(p) > 1 {
		r.oneByte++
	}
	if r.eofWithData && r.pos == len(r.data) {
		return n, r.end()
	}
	return n, nil
}

func (r *pipeReader) end() error {
	if r.endErr != nil {
		return r.endErr
	}
	return io.EOF
}
