package streamsim

import (
	"bytes"
	"fmt"
	"reflect"

	pb "github.com/youzan/ZanRedisDB/raft/raftpb"
)

// The oracle: a decoded message equals the sent one field by field. A nil
// and an empty slice are the same value (the wire format cannot and need not
// distinguish them).

type cmpOpt struct {
	// ignoreName: probe-only "name drift" mode; a difference that is only in
	// Group.Name is reported through nameDiff, not as a difference.
	ignoreName bool
	nameDiff   bool
}

func diffBytes(path string, a, b []byte) string {
	if bytes.Equal(a, b) {
		return ""
	}
	if len(a) != len(b) {
		return fmt.Sprintf("%s: sent %d bytes, got %d bytes", path, len(a), len(b))
	}
	for i := range a {
		if a[i] != b[i] {
			return fmt.Sprintf("%s: %d bytes, first difference at byte %d (sent %#x got %#x)", path, len(a), i, a[i], b[i])
		}
	}
	return ""
}

func diffU64(path string, a, b uint64) string {
	if a == b {
		return ""
	}
	return fmt.Sprintf("%s: sent %d got %d", path, a, b)
}

// diffU64p is diffU64 with a path that is only built on a difference.
func diffU64p(path, field string, a, b uint64) string {
	if a == b {
		return ""
	}
	return diffU64(path+field, a, b)
}

func diffGroup(path string, a, b *pb.Group, o *cmpOpt) string {
	if d := diffU64p(path, ".NodeId", a.NodeId, b.NodeId); d != "" {
		return d
	}
	if d := diffU64p(path, ".GroupId", a.GroupId, b.GroupId); d != "" {
		return d
	}
	if d := diffU64p(path, ".RaftReplicaId", a.RaftReplicaId, b.RaftReplicaId); d != "" {
		return d
	}
	if a.Name != b.Name {
		if o != nil && o.ignoreName {
			o.nameDiff = true
			return ""
		}
		return fmt.Sprintf("%s.Name: sent %q got %q", path, a.Name, b.Name)
	}
	return ""
}

func diffU64s(path string, a, b []uint64) string {
	if len(a) != len(b) {
		return fmt.Sprintf("%s: sent %d values, got %d", path, len(a), len(b))
	}
	for i := range a {
		if a[i] != b[i] {
			return fmt.Sprintf("%s[%d]: sent %d got %d", path, i, a[i], b[i])
		}
	}
	return ""
}

func diffGroups(path string, a, b []*pb.Group) string {
	if len(a) != len(b) {
		return fmt.Sprintf("%s: sent %d groups, got %d", path, len(a), len(b))
	}
	for i := range a {
		if a[i] == nil || b[i] == nil {
			if a[i] != b[i] {
				return fmt.Sprintf("%s[%d]: nil mismatch", path, i)
			}
			continue
		}
		if d := diffGroup("", a[i], b[i], nil); d != "" {
			return fmt.Sprintf("%s[%d]%s", path, i, d)
		}
	}
	return ""
}

func diffEntry(path string, a, b *pb.Entry) string {
	if d := diffU64p(path, ".Term", a.Term, b.Term); d != "" {
		return d
	}
	if d := diffU64p(path, ".Index", a.Index, b.Index); d != "" {
		return d
	}
	if a.Type != b.Type {
		return fmt.Sprintf("%s.Type: sent %v got %v", path, a.Type, b.Type)
	}
	if d := diffU64p(path, ".ID", a.ID, b.ID); d != "" {
		return d
	}
	if a.DataType != b.DataType {
		return fmt.Sprintf("%s.DataType: sent %d got %d", path, a.DataType, b.DataType)
	}
	if a.Timestamp != b.Timestamp {
		return fmt.Sprintf("%s.Timestamp: sent %d got %d", path, a.Timestamp, b.Timestamp)
	}
	if bytes.Equal(a.Data, b.Data) {
		return ""
	}
	return diffBytes(path+".Data", a.Data, b.Data)
}

// diffMsg returns "" when got equals sent, else the first differing field.
func diffMsg(a, b *pb.Message, o *cmpOpt) string {
	if a.Type != b.Type {
		return fmt.Sprintf("Type: sent %v got %v", a.Type, b.Type)
	}
	for _, f := range []struct {
		n    string
		x, y uint64
	}{{"To", a.To, b.To}, {"From", a.From, b.From}, {"Term", a.Term, b.Term}, {"LogTerm", a.LogTerm, b.LogTerm},
		{"Index", a.Index, b.Index}, {"Commit", a.Commit, b.Commit}, {"RejectHint", a.RejectHint, b.RejectHint}} {
		if d := diffU64(f.n, f.x, f.y); d != "" {
			return d
		}
	}
	if a.Reject != b.Reject {
		return fmt.Sprintf("Reject: sent %v got %v", a.Reject, b.Reject)
	}
	if d := diffGroup("FromGroup", &a.FromGroup, &b.FromGroup, o); d != "" {
		return d
	}
	if d := diffGroup("ToGroup", &a.ToGroup, &b.ToGroup, o); d != "" {
		return d
	}
	if d := diffBytes("Context", a.Context, b.Context); d != "" {
		return d
	}
	if len(a.Entries) != len(b.Entries) {
		return fmt.Sprintf("Entries: sent %d got %d", len(a.Entries), len(b.Entries))
	}
	for i := range a.Entries {
		if d := diffEntry("", &a.Entries[i], &b.Entries[i]); d != "" {
			return fmt.Sprintf("Entries[%d]%s", i, d)
		}
	}
	if d := diffBytes("Snapshot.Data", a.Snapshot.Data, b.Snapshot.Data); d != "" {
		return d
	}
	am, bm := &a.Snapshot.Metadata, &b.Snapshot.Metadata
	if d := diffU64("Snapshot.Metadata.Index", am.Index, bm.Index); d != "" {
		return d
	}
	if d := diffU64("Snapshot.Metadata.Term", am.Term, bm.Term); d != "" {
		return d
	}
	if d := diffU64s("Snapshot.Metadata.ConfState.Nodes", am.ConfState.Nodes, bm.ConfState.Nodes); d != "" {
		return d
	}
	if d := diffU64s("Snapshot.Metadata.ConfState.Learners", am.ConfState.Learners, bm.ConfState.Learners); d != "" {
		return d
	}
	if d := diffGroups("Snapshot.Metadata.ConfState.Groups", am.ConfState.Groups, bm.ConfState.Groups); d != "" {
		return d
	}
	if d := diffGroups("Snapshot.Metadata.ConfState.LearnerGroups", am.ConfState.LearnerGroups, bm.ConfState.LearnerGroups); d != "" {
		return d
	}
	return ""
}

// normalised returns a copy in which every nil slice is an empty one, so
// that reflect.DeepEqual can serve as a second line of defence against a
// struct field the field-by-field comparison does not know.
func normalised(m *pb.Message, dropNames bool) pb.Message {
	n := *m
	nb := func(b []byte) []byte {
		if b == nil {
			return []byte{}
		}
		return b
	}
	n.Context = nb(n.Context)
	n.Snapshot.Data = nb(n.Snapshot.Data)
	es := make([]pb.Entry, len(m.Entries))
	copy(es, m.Entries)
	for i := range es {
		es[i].Data = nb(es[i].Data)
	}
	n.Entries = es
	cs := &n.Snapshot.Metadata.ConfState
	if cs.Nodes == nil {
		cs.Nodes = []uint64{}
	}
	if cs.Learners == nil {
		cs.Learners = []uint64{}
	}
	if cs.Groups == nil {
		cs.Groups = []*pb.Group{}
	}
	if cs.LearnerGroups == nil {
		cs.LearnerGroups = []*pb.Group{}
	}
	if dropNames {
		n.FromGroup.Name, n.ToGroup.Name = "", ""
	}
	return n
}

func deepEqualNormalised(a, b *pb.Message, dropNames bool) bool {
	x, y := normalised(a, dropNames), normalised(b, dropNames)
	return reflect.DeepEqual(&x, &y)
}

func lastIdx(m *pb.Message) uint64 {
	if l := len(m.Entries); l > 0 {
		return m.Entries[l-1].Index
	}
	return m.Index
}

func payloadBytes(m *pb.Message) int {
	n := len(m.Context) + len(m.Snapshot.Data)
	for i := range m.Entries {
		n += len(m.Entries[i].Data)
	}
	return n
}

func describe(m *pb.Message) string {
	return fmt.Sprintf("%v from=%d(n%d g%d r%d %q) to=%d(n%d g%d r%d %q) term=%d logterm=%d index=%d commit=%d reject=%v hint=%d ctx=%d ents=%d snap=%d/%d payload=%d",
		m.Type, m.From, m.FromGroup.NodeId, m.FromGroup.GroupId, m.FromGroup.RaftReplicaId, short(m.FromGroup.Name),
		m.To, m.ToGroup.NodeId, m.ToGroup.GroupId, m.ToGroup.RaftReplicaId, short(m.ToGroup.Name),
		m.Term, m.LogTerm, m.Index, m.Commit, m.Reject, m.RejectHint, len(m.Context), len(m.Entries),
		m.Snapshot.Metadata.Index, m.Snapshot.Metadata.Term, payloadBytes(m))
}

func short(s string) string {
	if len(s) > 24 {
		return s[:24] + "..."
	}
	return s
}
