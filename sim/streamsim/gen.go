package streamsim

import (
	"fmt"
	"math"

	pb "github.com/youzan/ZanRedisDB/raft/raftpb"
	"github.com/youzan/ZanRedisDB/transport/rafthttp"

	"verif/sim/core"
)

// bufSize is the size of the codecs' internal buffers (1 MiB): entries and
// messages up to this size go through the reused buffer, larger ones through
// a fresh allocation.
const bufSize = rafthttp.VerifMsgAppV2BufSize

const (
	codecV2      = 0 // msgappv2 stream: MsgApp and link heartbeats, stateful
	codecGeneric = 1 // "message" stream: every message type, stateless
)

// cfg is the per-run configuration (swarm: every run draws its own mix).
type cfg struct {
	Codec        int
	Local        uint64 // node id of the reading side (Transport.ID)
	Remote       uint64 // node id of the writing side (peer id)
	NGroups      int
	NMsgs        int
	SwitchPm     int   // probability of re-drawing the group for a message
	HbPm         int   // link heartbeats
	WEv          []int // weights: steady, termbump, gap, sync, arbitrary, foreign, recombine
	ZeroEntPm    int   // MsgApp without entries (commit update / probe)
	SameStart    bool  // all groups start at the same (term,index)
	SizeProf     int   // 0 small only, 1 mixed, 2 boundary/big heavy
	Budget       int   // bytes of payload this run may generate
	NameDrift    bool  // probe-only mode: a group's Name changes mid-stream
	NodeMismatch bool  // probe-only mode: a group whose node ids are not the stream's
	V2Foreign    bool  // non-MsgApp messages (LogTerm != Term) on the v2 stream
	MaxCuts      int
	CutCost      int64 // bytes of work the cut enumeration may spend
	FullCap      int   // largest frame that is enumerated at every offset
	SmallAll     int   // streams up to this size are cut at every offset
}

func pick(t *core.Tape, vals ...int) int { return vals[t.Choose(len(vals))] }

func drawCfg(c *core.RunCtx) cfg {
	t := c.Tape
	th := c.Tier == "thorough"
	var g cfg
	g.Codec = t.Weighted([]int{7, 3})
	g.Local = uint64(1 + t.Choose(5))
	g.Remote = uint64(1 + t.Choose(5))
	if t.Choose(8) == 0 {
		g.Local, g.Remote = smallU64(t)|1, smallU64(t)|1
	}
	if g.Remote == g.Local {
		g.Remote = g.Local + 1
	}
	g.NGroups = pick(t, 2, 1, 3, 4, 6, 2, 3)
	if th && t.Choose(4) == 0 {
		g.NGroups = 8 + t.Choose(9)
	}
	switch t.Choose(5) {
	case 0:
		g.NMsgs = 2 + t.Choose(7)
	case 1, 2, 3:
		g.NMsgs = 9 + t.Choose(32)
	default:
		g.NMsgs = 41 + t.Choose(80)
		if th {
			g.NMsgs = 41 + t.Choose(360)
		}
	}
	g.SwitchPm = pick(t, 300, 100, 500, 800, 1000, 30)
	g.HbPm = pick(t, 30, 0, 100, 250)
	g.WEv = []int{pick(t, 60, 40, 80, 20), pick(t, 6, 2, 15), pick(t, 6, 2, 15), pick(t, 8, 0, 20, 40), pick(t, 6, 0, 20), 0, pick(t, 6, 0, 15)}
	g.ZeroEntPm = pick(t, 300, 100, 600, 0)
	g.SameStart = t.Choose(2) == 0
	bigPm := 80
	g.Budget = 5 << 20
	g.MaxCuts = 5000
	g.CutCost = 1200 << 20
	g.FullCap = 4096
	g.SmallAll = 1536
	if th {
		bigPm = 200
		g.Budget = 24 << 20
		g.MaxCuts = 40000
		g.CutCost = 10 << 30
		g.FullCap = 32768
		g.SmallAll = 6144
	}
	switch {
	case t.Bool(bigPm):
		g.SizeProf = 2
	case t.Bool(300):
		g.SizeProf = 1
	}
	if g.SizeProf == 2 && g.NMsgs > 60 {
		g.NMsgs = 60
	}
	// rare modes; each is off at tape value 0
	if g.Codec == codecV2 {
		g.V2Foreign = t.Bool(150)
		if g.V2Foreign {
			g.WEv[5] = pick(t, 10, 30)
		}
		g.NameDrift = t.Bool(40)
		g.NodeMismatch = !g.NameDrift && t.Bool(30)
	}
	return g
}

func smallU64(t *core.Tape) uint64 { return uint64(t.U32()) }

// group is one raft group pair on the stream: the sending replica's identity
// and the receiving replica's identity, plus the (term,index) the next
// "steady" append of this pair carries.
type group struct {
	from, to  pb.Group
	term, idx uint64
	// header fields of this pair's previous message (for "recombine")
	has                            bool
	pTerm, pLogTerm, pIndex, pLast uint64
	pCommit                        uint64
	pN                             int
}

type gen struct {
	c      *core.RunCtx
	t      *core.Tape
	cfg    cfg
	groups []*group
	cur    int
	budget int
	seq    uint32
	// reference model of the documented continuation rule (a fresh encoder
	// starts from the zero state); used to steer the workload and for probes,
	// never as an oracle.
	ref struct {
		term, index uint64
		from, to    pb.Group
		any         bool
		wasForeign  bool
		lastHB      bool
	}
	nCompact, nFull, nHB int
	groupsUsed           map[int]bool
	typesUsed            map[int32]bool
	interleaves          int
	lastGroup            int
}

func newGen(c *core.RunCtx, g cfg) *gen {
	ge := &gen{c: c, t: c.Tape, cfg: g, budget: g.Budget, groupsUsed: map[int]bool{}, typesUsed: map[int32]bool{}, lastGroup: -1}
	ge.makeGroups()
	return ge
}

var namePalette = []string{"", "a", "ns", "\xff\xfe\x00bin", "名字-空间"}

func (g *gen) name(gid uint64) string {
	switch g.t.Choose(6) {
	case 0, 1, 2:
		return fmt.Sprintf("ns-%d", gid)
	case 3:
		return namePalette[g.t.Choose(len(namePalette))]
	case 4:
		b := make([]byte, 100+g.t.Choose(300))
		for i := range b {
			b[i] = byte('a' + i%26)
		}
		return string(b)
	default:
		return fmt.Sprintf("test_namespace_with_long_name-%d", gid%1024)
	}
}

// id draws a replica / group id: small values first.
func (g *gen) id() uint64 {
	switch g.t.Choose(6) {
	case 0, 1, 2:
		return uint64(1 + g.t.Choose(4))
	case 3:
		return uint64(1 + g.t.Choose(1000))
	default:
		v := g.u64()
		if v == 0 {
			v = 1
		}
		return v
	}
}

func (g *gen) makeGroups() {
	t := g.t
	var t0, i0 uint64
	t0, i0 = uint64(1+t.Choose(5)), uint64(t.Choose(20))
	if t.Choose(6) == 0 {
		t0, i0 = g.u64(), g.u64()
	}
	for i := 0; i < g.cfg.NGroups; i++ {
		var gr group
		if i > 0 && t.Choose(3) != 0 {
			// derive from an existing pair by changing as little as possible
			// (the case that matters for a continuation test that forgets a
			// field): 0 = both group ids (another namespace partition with the
			// same replica ids, the common production case), then one field
			// of one side only.
			base := g.groups[t.Choose(len(g.groups))]
			gr.from, gr.to = base.from, base.to
			switch t.Choose(6) {
			case 0:
				gid := g.freshGID()
				gr.from.GroupId, gr.to.GroupId = gid, gid
				nm := g.name(gid)
				gr.from.Name, gr.to.Name = nm, nm
			case 1:
				gr.to.RaftReplicaId = g.freshReplica(gr.to.RaftReplicaId)
			case 2:
				gr.from.RaftReplicaId = g.freshReplica(gr.from.RaftReplicaId)
			case 3:
				gr.to.GroupId = g.freshGID()
			case 4:
				gr.from.GroupId = g.freshGID()
			default:
				gr.from.RaftReplicaId, gr.to.RaftReplicaId = g.freshReplica(gr.from.RaftReplicaId), g.freshReplica(gr.to.RaftReplicaId)
			}
		} else {
			gid := g.id()
			nm := g.name(gid)
			gr.from = pb.Group{NodeId: g.cfg.Remote, Name: nm, GroupId: gid, RaftReplicaId: g.id()}
			gr.to = pb.Group{NodeId: g.cfg.Local, Name: nm, GroupId: gid, RaftReplicaId: g.id()}
			if t.Choose(8) == 0 {
				gr.to.Name = g.name(gid)
			}
		}
		// the same identity twice would be the same group; keep pairs distinct
		for _, o := range g.groups {
			if sameID(&o.from, &gr.from) && sameID(&o.to, &gr.to) {
				gid := g.freshGID()
				gr.from.GroupId, gr.to.GroupId = gid, gid
			}
		}
		if g.cfg.SameStart || i == 0 {
			gr.term, gr.idx = t0, i0
		} else {
			gr.term, gr.idx = uint64(1+t.Choose(5)), uint64(t.Choose(20))
			if t.Choose(6) == 0 {
				gr.term, gr.idx = g.u64(), g.u64()
			}
		}
		g.groups = append(g.groups, &gr)
	}
	if g.cfg.NodeMismatch {
		// one pair whose node ids are not this stream's two nodes (cannot be
		// routed onto this stream in production; probe-only)
		gr := g.groups[len(g.groups)-1]
		if t.Choose(2) == 0 {
			gr.from.NodeId = g.cfg.Remote + 1 + uint64(t.Choose(3))
		} else {
			gr.to.NodeId = g.cfg.Local + 1 + uint64(t.Choose(3))
		}
	}
}

func (g *gen) freshGID() uint64 {
	for {
		v := g.id()
		ok := true
		for _, o := range g.groups {
			if o.from.GroupId == v || o.to.GroupId == v {
				ok = false
			}
		}
		if ok {
			return v
		}
		// collisions are likely among small ids: move on deterministically
		g.seq++
		v = 1000 + uint64(g.seq)*7
		ok = true
		for _, o := range g.groups {
			if o.from.GroupId == v || o.to.GroupId == v {
				ok = false
			}
		}
		if ok {
			return v
		}
	}
}

func (g *gen) freshReplica(not uint64) uint64 {
	v := g.id()
	if v == not {
		v = not + 1
		if v == 0 {
			v = 1
		}
	}
	return v
}

func sameID(l, r *pb.Group) bool {
	return l.NodeId == r.NodeId && l.GroupId == r.GroupId && l.RaftReplicaId == r.RaftReplicaId
}

// u64 draws an "arbitrary" 64-bit value: small first, then encodings' edge
// values (varint length changes, sign bit, wrap-around), then random.
func (g *gen) u64() uint64 {
	t := g.t
	switch t.Choose(12) {
	case 0:
		return uint64(t.Choose(8))
	case 1:
		return 0
	case 2:
		return uint64(t.Choose(1000))
	case 3:
		return uint64(pick(t, 127, 128, 255, 256, 16383, 16384, 65535, 65536))
	case 4:
		return 1<<31 - 1 + uint64(t.Choose(3))
	case 5:
		return 1<<32 - 1 + uint64(t.Choose(3))
	case 6:
		return 1<<63 - 1 + uint64(t.Choose(3))
	case 7:
		return math.MaxUint64 - uint64(t.Choose(3))
	case 8:
		return uint64(t.U32())
	default:
		return uint64(t.U32())<<32 | uint64(t.U32())
	}
}

// fill returns n deterministic bytes; every call gets distinct content so
// that an aliased buffer shows.
func (g *gen) fill(n int) []byte {
	g.seq++
	b := make([]byte, n)
	mode := 0
	if n > 0 && g.t.Choose(10) == 0 {
		mode = 1 + g.t.Choose(3)
	}
	switch mode {
	case 1: // zeros
	case 2:
		for i := range b {
			b[i] = 0xff
		}
	case 3: // looks like frame headers of the v2 stream
		for i := range b {
			b[i] = byte(i % 3)
		}
	default:
		x := uint64(g.seq)*0x9e3779b97f4a7c15 + 0x1234567
		i := 0
		for ; i+8 <= n; i += 8 {
			x ^= x << 13
			x ^= x >> 7
			x ^= x << 17
			b[i], b[i+1], b[i+2], b[i+3] = byte(x), byte(x>>8), byte(x>>16), byte(x>>24)
			b[i+4], b[i+5], b[i+6], b[i+7] = byte(x>>32), byte(x>>40), byte(x>>48), byte(x>>56)
		}
		for ; i < n; i++ {
			x = x*6364136223846793005 + 1442695040888963407
			b[i] = byte(x >> 33)
		}
	}
	return b
}

// size classes of payload bytes
const (
	szSmall = iota
	szNil
	szEmpty
	szOne
	szMedium
	szKB
	szNearBuf // the owner is later fitted so that its encoded size is bufSize-1..bufSize+2
	szBig     // > 1 MiB
)

func (g *gen) sizeClass() int {
	var w []int
	switch g.cfg.SizeProf {
	case 0:
		w = []int{50, 8, 8, 8, 20, 0, 0, 0}
	case 1:
		w = []int{40, 6, 6, 6, 25, 15, 0, 0}
	default:
		w = []int{30, 5, 5, 5, 15, 10, 15, 15}
	}
	return g.t.Weighted(w)
}

// data draws a payload; the second result says that the owner should be
// fitted to the buffer boundary.
func (g *gen) data() ([]byte, bool) {
	cl := g.sizeClass()
	var n int
	switch cl {
	case szNil:
		return nil, false
	case szEmpty:
		return []byte{}, false
	case szOne:
		n = 1
	case szSmall:
		n = 1 + g.t.Choose(16)
	case szMedium:
		n = 17 + g.t.Choose(300)
	case szKB:
		n = 1024 + g.t.Choose(20000)
	case szNearBuf:
		n = bufSize - 64
	case szBig:
		n = bufSize + 1 + g.t.Choose(bufSize*3/2)
		if g.c.Tier == "thorough" && g.t.Choose(4) == 0 {
			n = bufSize + 1 + g.t.Choose(3*bufSize)
		}
	}
	if n+64 > g.budget {
		n = 1 + g.t.Choose(16)
		cl = szSmall
	}
	g.budget -= n
	return g.fill(n), cl == szNearBuf
}

func (g *gen) entryMeta(e *pb.Entry) {
	t := g.t
	if t.Choose(4) == 0 {
		e.Type = pb.EntryConfChange
	}
	if t.Choose(2) == 0 {
		e.ID = g.u64()
	}
	if t.Choose(3) == 0 {
		e.DataType = int32(pick(t, 1, 2, 0, -1, math.MaxInt32, math.MinInt32))
	}
	if t.Choose(3) == 0 {
		e.Timestamp = int64(g.u64())
	}
}

// fitEntry resizes e.Data so that e.Size() == target (the v2 codec switches
// between its buffer and a fresh allocation on the entry's encoded size).
func (g *gen) fitEntry(e *pb.Entry, target int) bool {
	for it := 0; it < 4; it++ {
		s := e.Size()
		if s == target {
			return true
		}
		n := len(e.Data) + target - s
		if n < 0 {
			return false
		}
		e.Data = g.fill(n)
	}
	return e.Size() == target
}

// fitMsg pads the last entry (or the context) so that m.Size() == target.
func (g *gen) fitMsg(m *pb.Message, target int) bool {
	for it := 0; it < 5; it++ {
		s := m.Size()
		if s == target {
			return true
		}
		d := target - s
		if l := len(m.Entries); l > 0 {
			e := &m.Entries[l-1]
			n := len(e.Data) + d
			if n < 0 {
				return false
			}
			e.Data = g.fill(n)
		} else {
			n := len(m.Context) + d
			if n < 0 {
				return false
			}
			m.Context = g.fill(n)
		}
	}
	return m.Size() == target
}

func (g *gen) entryCount() int {
	t := g.t
	if t.Bool(g.cfg.ZeroEntPm) {
		return 0
	}
	switch t.Weighted([]int{45, 35, 14, 6}) {
	case 0:
		return 1
	case 1:
		return 2 + t.Choose(4)
	case 2:
		return 6 + t.Choose(35)
	default:
		if g.cfg.SizeProf == 2 {
			return 2
		}
		if t.Choose(6) == 0 {
			// very many tiny entries in one message (a follower caught up in
			// replicate state): around and beyond the decoders' preallocation caps
			g.c.Probe("message_with_1000plus_entries")
			return []int{1023, 1024, 1025, 1026, 2048, 2049, 3000}[t.Choose(7)]
		}
		return 64 + t.Choose(240)
	}
}

// entries makes k entries; consecutive indexes/terms as a leader sends them,
// or arbitrary ones.
func (g *gen) entries(k int, term, after uint64, arbitrary bool) []pb.Entry {
	if k == 0 {
		if g.t.Choose(2) == 0 {
			return nil
		}
		return []pb.Entry{}
	}
	es := make([]pb.Entry, k)
	for i := range es {
		e := &es[i]
		e.Term, e.Index = term, after+1+uint64(i)
		if arbitrary {
			e.Term, e.Index = g.u64(), g.u64()
		}
		g.entryMeta(e)
		var fit bool
		if k > 50 {
			e.Data = g.fill(1 + g.t.Choose(8))
			g.budget -= len(e.Data)
		} else {
			e.Data, fit = g.data()
		}
		if fit {
			target := bufSize + pick(g.t, 0, 1, -1, 2)
			if g.fitEntry(e, target) {
				switch target {
				case bufSize:
					g.c.Probe("entry_size_eq_buffer")
				case bufSize + 1:
					g.c.Probe("entry_size_buffer_plus_1")
				}
			}
		}
		if len(e.Data) > bufSize {
			g.c.Probe("entry_gt_1MiB")
		}
	}
	return es
}

type sent struct {
	m       pb.Message
	group   int // index into groups, -1 for heartbeats and free-form messages
	predict int // predicted v2 frame kind (0 heartbeat, 1 compact, 2 full)
	ev      string
	drifted bool // a Name of this message's group pair was changed after the stream's context was set
}

// nextAppend produces a message through the raft-like group machinery: what
// a leader replica on the remote node sends to a follower replica on the
// local node.
func (g *gen) nextAppend() sent {
	t := g.t
	if t.Bool(g.cfg.HbPm) {
		g.nHB++
		g.ref.lastHB = true
		return sent{m: rafthttp.VerifLinkHeartbeatMessage(), group: -1, predict: 0, ev: "hb"}
	}
	gi := g.cur
	if len(g.groups) > 1 && t.Bool(g.cfg.SwitchPm) {
		gi = t.Choose(len(g.groups))
	}
	g.cur = gi
	gr := g.groups[gi]
	drift := false
	if g.cfg.NameDrift && t.Bool(150) {
		if t.Choose(2) == 0 {
			gr.from.Name = gr.from.Name + "'"
		} else {
			gr.to.Name = g.name(gr.to.GroupId + 1)
		}
		drift = true
	}
	m := pb.Message{Type: pb.MsgApp, From: gr.from.RaftReplicaId, To: gr.to.RaftReplicaId, FromGroup: gr.from, ToGroup: gr.to}
	ev := t.Weighted(g.cfg.WEv)
	evName := [...]string{"steady", "termbump", "gap", "sync", "arbitrary", "foreign", "recombine"}[ev]
	if ev == 6 && !gr.has {
		ev = 0
	}
	switch ev {
	case 1: // a new leader term: the previous entry is of the old term
		old := gr.term
		gr.term += uint64(1 + t.Choose(3))
		m.Term, m.LogTerm, m.Index = gr.term, old, gr.idx
		et := gr.term
		if t.Choose(3) == 0 {
			et = old
		}
		m.Entries = g.entries(g.entryCount(), et, m.Index, false)
	case 2: // retransmission after a reject / jump
		switch t.Choose(4) {
		case 0:
			gr.idx -= uint64(1 + t.Choose(3))
		case 1:
			gr.idx += uint64(1 + t.Choose(3))
		case 2:
			gr.idx = uint64(t.Choose(30))
		default:
			gr.idx = g.u64()
		}
		fallthrough
	case 0:
		m.Term, m.LogTerm, m.Index = gr.term, gr.term, gr.idx
		m.Entries = g.entries(g.entryCount(), gr.term, m.Index, t.Choose(12) == 0)
	case 3: // this pair happens to be at exactly the stream's current (term,index)
		gr.term, gr.idx = g.ref.term, g.ref.index
		m.Term, m.LogTerm, m.Index = gr.term, gr.term, gr.idx
		m.Entries = g.entries(g.entryCount(), gr.term, m.Index, false)
	case 4:
		m.Term, m.Index = g.u64(), g.u64()
		m.LogTerm = m.Term
		if t.Choose(2) == 0 {
			m.LogTerm = g.u64()
		}
		m.Entries = g.entries(g.entryCount(), m.Term, m.Index, t.Choose(2) == 0)
	case 6: // header values that a confused codec could mistake for each other:
		// term and index recombined from this pair's previous message
		m.Term = []uint64{gr.pLogTerm, gr.pTerm, g.ref.term, gr.pIndex}[t.Choose(4)]
		m.LogTerm = m.Term
		m.Index = []uint64{g.ref.index, gr.pIndex, gr.pLast, gr.pIndex + uint64(gr.pN), gr.pCommit, gr.pTerm}[t.Choose(6)]
		m.Entries = g.entries(g.entryCount(), m.Term, m.Index, false)
	case 5: // another message type on the append stream, never continuable
		m = g.freeForm(gi)
		if m.Type == pb.MsgApp {
			m.Type = pb.MsgAppResp
		}
		m.From, m.To = gr.from.RaftReplicaId, gr.to.RaftReplicaId
		m.FromGroup, m.ToGroup = gr.from, gr.to
		if m.LogTerm == m.Term {
			m.LogTerm = m.Term + 1
		}
	}
	if ev != 5 {
		switch t.Choose(4) {
		case 0:
			m.Commit = m.Index
		case 1:
			m.Commit = m.Index + uint64(len(m.Entries))
		case 2:
			m.Commit = uint64(t.Choose(40))
		default:
			m.Commit = g.u64()
		}
	}
	// whole-message boundary (the full form and the generic codec switch
	// buffers on the message's encoded size)
	if g.cfg.SizeProf == 2 && len(m.Entries) > 0 && len(m.Entries) < 8 && t.Choose(3) == 0 && g.budget > bufSize+4096 {
		before := m.Size()
		target := bufSize + pick(t, 0, 1, -1, -2)
		if before < target && g.fitMsg(&m, target) {
			g.budget -= target - before
			switch target {
			case bufSize:
				g.c.Probe("message_size_eq_buffer")
			case bufSize - 1:
				g.c.Probe("message_size_buffer_minus_1")
			}
		}
	}
	s := sent{m: m, group: gi, ev: evName, drifted: drift}
	s.predict = g.track(&s)
	gr.has = true
	gr.pTerm, gr.pLogTerm, gr.pIndex, gr.pLast, gr.pCommit, gr.pN = m.Term, m.LogTerm, m.Index, lastIdx(&m), m.Commit, len(m.Entries)
	return s
}

// track advances the reference model of the continuation rule and counts
// the probes about entering and leaving the compact form.
func (g *gen) track(s *sent) int {
	m := &s.m
	r := &g.ref
	groupSame := sameID(&r.to, &m.ToGroup) && sameID(&r.from, &m.FromGroup)
	termOK := r.term == m.LogTerm && m.LogTerm == m.Term
	idxOK := r.index == m.Index
	gr := g.groups[s.group]
	probe := func(n string) {
		if g.cfg.Codec == codecV2 {
			g.c.Probe(n)
		}
	}
	if s.group != g.lastGroup && g.lastGroup >= 0 {
		g.interleaves++
	}
	g.lastGroup = s.group
	g.groupsUsed[s.group] = true
	if groupSame && termOK && idxOK {
		g.nCompact++
		probe("compact_form_used")
		if len(m.Entries) == 0 {
			probe("compact_zero_entries")
		}
		if r.lastHB {
			probe("compact_after_heartbeat")
		}
		if r.wasForeign {
			probe("compact_after_non_msgapp")
		}
		if m.Type != pb.MsgApp {
			probe("non_msgapp_predicted_compact")
		}
		r.index += uint64(len(m.Entries))
		r.lastHB = false
		r.wasForeign = false
		gr.idx = r.index
		return 1
	}
	g.nFull++
	if r.any && m.Type == pb.MsgApp {
		switch {
		case !groupSame && termOK && idxOK:
			probe("left_compact_group_switch_only")
			fs, ts := sameID(&r.from, &m.FromGroup), sameID(&r.to, &m.ToGroup)
			switch {
			case fs && !ts:
				probe("left_compact_only_to_group_differs")
			case !fs && ts:
				probe("left_compact_only_from_group_differs")
			}
		case !groupSame:
			probe("left_compact_group_switch")
		case !termOK:
			probe("left_compact_term_change")
		default:
			probe("left_compact_index_gap")
		}
	}
	if m.Type != pb.MsgApp {
		probe("non_msgapp_on_append_stream")
	}
	r.term, r.index, r.from, r.to = m.Term, m.Index, m.FromGroup, m.ToGroup
	if l := len(m.Entries); l > 0 {
		r.index = m.Entries[l-1].Index
	}
	r.any = true
	r.lastHB = false
	r.wasForeign = m.Type != pb.MsgApp
	gr.term, gr.idx = m.Term, r.index
	return 2
}

// resetRef is what a reconnect does to the codec context.
func (g *gen) resetRef() {
	g.ref.term, g.ref.index = 0, 0
	g.ref.from, g.ref.to = pb.Group{}, pb.Group{}
	g.ref.any, g.ref.wasForeign, g.ref.lastHB = false, false, false
}

func (g *gen) bytesField() []byte {
	switch g.t.Choose(5) {
	case 0, 1:
		return nil
	case 2:
		return []byte{}
	default:
		b, _ := g.data()
		return b
	}
}

func (g *gen) anyGroup(gi int) pb.Group {
	t := g.t
	switch t.Choose(5) {
	case 0, 1:
		gr := g.groups[gi]
		if t.Choose(2) == 0 {
			return gr.from
		}
		return gr.to
	case 2:
		return pb.Group{}
	default:
		gid := g.u64()
		return pb.Group{NodeId: g.u64(), Name: g.name(gid), GroupId: gid, RaftReplicaId: g.u64()}
	}
}

func (g *gen) u64List(max int) []uint64 {
	n := g.t.Choose(max + 1)
	if n == 0 {
		if g.t.Choose(2) == 0 {
			return nil
		}
		return []uint64{}
	}
	l := make([]uint64, n)
	for i := range l {
		l[i] = g.u64()
	}
	return l
}

func (g *gen) groupList(gi, max int) []*pb.Group {
	n := g.t.Choose(max + 1)
	if n == 0 {
		return nil
	}
	l := make([]*pb.Group, n)
	for i := range l {
		gr := g.anyGroup(gi)
		l[i] = &gr
	}
	return l
}

func (g *gen) snapshot(gi int) pb.Snapshot {
	var s pb.Snapshot
	s.Data = g.bytesField()
	s.Metadata.Index, s.Metadata.Term = g.u64(), g.u64()
	cs := &s.Metadata.ConfState
	cs.Nodes = g.u64List(7)
	cs.Learners = g.u64List(3)
	cs.Groups = g.groupList(gi, 7)
	cs.LearnerGroups = g.groupList(gi, 3)
	return s
}

// freeForm makes a message of any type with arbitrary field values.
func (g *gen) freeForm(gi int) pb.Message {
	t := g.t
	var m pb.Message
	m.Type = pb.MessageType(t.Choose(19))
	opt := func() uint64 {
		if t.Choose(5) < 2 {
			return 0
		}
		return g.u64()
	}
	m.From, m.To = opt(), opt()
	m.Term, m.LogTerm, m.Index, m.Commit, m.RejectHint = opt(), opt(), opt(), opt(), opt()
	m.Reject = t.Choose(3) == 0
	m.Context = g.bytesField()
	m.FromGroup, m.ToGroup = g.anyGroup(gi), g.anyGroup(gi)
	switch m.Type {
	case pb.MsgApp, pb.MsgProp, pb.MsgReadIndex, pb.MsgReadIndexResp:
		m.Entries = g.entries(g.entryCount(), m.Term, m.Index, t.Choose(2) == 0)
	default:
		if t.Choose(6) == 0 {
			m.Entries = g.entries(1+t.Choose(3), m.Term, m.Index, true)
		}
	}
	if m.Type == pb.MsgSnap && t.Choose(10) != 0 || t.Choose(20) == 0 {
		m.Snapshot = g.snapshot(gi)
		g.c.Probe("snapshot_metadata_sent")
	}
	return m
}

// nextGeneric produces a message for the "message" stream: everything the
// transport routes there (all types; MsgApp too while the append stream is
// not attached; link heartbeats).
func (g *gen) nextGeneric() sent {
	t := g.t
	if t.Choose(3) == 0 {
		s := g.nextAppend()
		return s
	}
	gi := t.Choose(len(g.groups))
	m := g.freeForm(gi)
	if g.cfg.SizeProf == 2 && t.Choose(3) == 0 && g.budget > bufSize+4096 {
		before := m.Size()
		target := bufSize + pick(t, -1, 0, -2, 1)
		if before < target && g.fitMsg(&m, target) {
			g.budget -= target - before
			switch target {
			case bufSize:
				g.c.Probe("message_size_eq_buffer")
			case bufSize - 1:
				g.c.Probe("message_size_buffer_minus_1")
			}
		}
	}
	if g.lastGroup >= 0 && gi != g.lastGroup {
		g.interleaves++
	}
	g.lastGroup = gi
	g.groupsUsed[gi] = true
	return sent{m: m, group: gi, predict: 2, ev: "free"}
}

func (g *gen) next() sent {
	var s sent
	if g.cfg.Codec == codecV2 {
		s = g.nextAppend()
	} else {
		s = g.nextGeneric()
	}
	g.typesUsed[int32(s.m.Type)] = true
	return s
}
