// Package routesim decides C15: every key is served by exactly one
// partition, the one the client SDK computes; multi-key commands that span
// partitions act per key in its own partition and combine like one store.
// A multi-partition namespace of real KVNode groups is spread over simulated
// machines (nodeh) so that a machine does not host every partition; commands
// go through the server's real routing (serverRedis / merge.go).
package routesim

import (
	"fmt"
	"sort"
	"strings"
	"testing"
	"testing/synctest"
	"time"

	"github.com/youzan/ZanRedisDB/node"
	"github.com/youzan/ZanRedisDB/raft"
	zanredisdb "github.com/youzan/go-zanredisdb"

	"verif/sim/core"
	"verif/sim/model"
	"verif/sim/nodeh"
)

var Engine = core.Engine{Name: "routesim", Run: Run}

type cfg struct {
	machines, partitions, replicas int
	engine                         string
	ops                            int
	faults                         bool
	oldPartitions                  int
}

func pick(t *core.Tape, vals ...int) int { return vals[t.Choose(len(vals))] }

type sim struct {
	c        *core.RunCtx
	t        *core.Tape
	cfg      cfg
	cl       *nodeh.Cluster
	mdl      *model.Store
	keys     []string // table:key pool
	nval     int
	nchecked int
	ncross   int
}

// hashPart: pure-function part (generator-only): server hash == SDK hash.
func hashPart(c *core.RunCtx) {
	t := c.Tape
	n := 200
	for i := 0; i < n; i++ {
		l := 1 + t.Choose(40)
		k := make([]byte, l)
		for j := range k {
			switch t.Choose(6) {
			case 0:
				k[j] = ':'
			case 1:
				k[j] = byte(t.Choose(256))
			default:
				k[j] = "abcdefghijklmnopqrstuvwxyz0123456789"[t.Choose(36)]
			}
		}
		pn := 1 + t.Choose(1024)
		srv := node.GetHashedPartitionID(k, pn)
		sdk := zanredisdb.GetHashedPartitionID(k, pn)
		if srv != sdk || srv < 0 || srv >= pn {
			c.Violate("C15", "hash-mismatch", "", "key %q partitions %d: server %d, SDK %d", k, pn, srv, sdk)
			return
		}
		// the SDK hashes PKey.ShardingKey() = everything after "namespace:"; so does the server
		pk := zanredisdb.NewPKey("default", "t"+fmt.Sprint(i%3), k)
		if string(pk.ShardingKey()) != string(pk.RawKey[len("default")+1:]) {
			c.Violate("C15", "sharding-key", "", "sharding key of %q", pk.RawKey)
			return
		}
	}
	c.Count("hash_pairs_compared", int64(n))
}

func Run(c *core.RunCtx) {
	s := &sim{c: c, t: c.Tape, mdl: model.New()}
	t := c.Tape
	hashPart(c)
	if len(c.Viol) > 0 {
		return
	}
	s.cfg.partitions = pick(t, 2, 3, 4, 5, 8)
	s.cfg.machines = pick(t, 2, 3, 1, 3)
	s.cfg.replicas = 1
	if s.cfg.machines == 3 && t.Choose(2) == 0 {
		s.cfg.replicas = 2
	}
	s.cfg.engine = []string{"mem", "pebble"}[pick(t, 0, 0, 1)]
	s.cfg.ops = pick(t, 40, 80, 120)
	s.cfg.faults = t.Choose(3) == 0 && s.cfg.replicas > 1
	if t.Choose(4) == 0 {
		// the namespace existed before with another partition count
		s.cfg.oldPartitions = pick(t, 1, 2, 3, 4, 6)
		if s.cfg.oldPartitions == s.cfg.partitions {
			s.cfg.oldPartitions++
		}
	}
	raft.VerifSeedGlobalRand(int64(t.U32()))
	c.Log("cfg", "%+v", s.cfg)
	func() {
		defer func() {
			if e := recover(); e != nil {
				if strings.Contains(fmt.Sprint(e), "deadlock: main bubble goroutine has exited") {
					c.Count("infra.bubble_leftover_goroutines", 1)
					return
				}
				panic(e)
			}
		}()
		synctest.Test(c.T, func(tt *testing.T) { s.bubble() })
	}()
	c.NonTrivial = s.nchecked >= 20 && s.ncross >= 1
	c.Count("commands_checked", int64(s.nchecked))
	c.Count("cross_partition_multikey", int64(s.ncross))
	c.Sample = map[string]interface{}{"config": fmt.Sprintf("%+v", s.cfg), "commands": s.nchecked, "cross_partition_multikey_commands": s.ncross}
}

func (s *sim) part(key string) int {
	return zanredisdb.GetHashedPartitionID([]byte(key), s.cfg.partitions)
}

func (s *sim) val() string { s.nval++; return fmt.Sprintf("v%d", s.nval) }

func (s *sim) allLeaders() bool {
	for p := 0; p < s.cfg.partitions; p++ {
		if s.cl.Leader(p) < 0 {
			return false
		}
	}
	return true
}

// holders: which partitions' stores (any replica) physically hold KV key k.
func (s *sim) holders(key string) []int {
	var out []int
	for p := 0; p < s.cfg.partitions; p++ {
		found := false
		for _, m := range s.cl.M {
			nn := m.Parts[p]
			if !m.Up || nn == nil {
				continue
			}
			st := node.VerifKVStore(nn.Node.VerifStateMachine())
			if st == nil {
				continue
			}
			if n, _ := st.KVExists([]byte(key)); n > 0 {
				found = true
			}
		}
		if found {
			out = append(out, p)
		}
	}
	return out
}

func (s *sim) bubble() {
	c, t, g := s.c, s.t, s.cfg
	cl := nodeh.New(c, nodeh.Options{Machines: g.machines, Partitions: g.partitions, Replicas: g.replicas, Engine: g.engine,
		SnapCount: 50, SnapCatchup: 10, KeepBackup: 3, OldPartitions: g.oldPartitions})
	if g.oldPartitions > 0 {
		c.Fault("namespace_recreated_with_other_partition_count")
	}
	s.cl = cl
	defer cl.Close()
	cl.PumpFair(150, s.allLeaders)
	if !s.allLeaders() {
		c.Violate("C15", "no-initial-leader", "", "not every partition elected a leader in 150 fair rounds")
		return
	}
	// key pool: make sure several partitions are hit
	for i := 0; len(s.keys) < 10 && i < 200; i++ {
		k := fmt.Sprintf("t%d:k%d", t.Choose(2), t.Choose(50))
		dup := false
		for _, x := range s.keys {
			if x == k {
				dup = true
			}
		}
		if !dup {
			s.keys = append(s.keys, k)
		}
	}
	sort.Strings(s.keys)
	for op := 0; op < g.ops && len(c.Viol) == 0; op++ {
		cl.Clock = int64(op)
		s.step()
	}
	c.Events = int64(g.ops)
	c.SimMs = int64(time.Since(time.Date(2000, 1, 1, 0, 0, 0, 0, time.UTC)) / time.Millisecond)
}

func ns(k string) string { return nodeh.NS + ":" + k }

// pickMachine returns any live machine (clients may connect anywhere).
func (s *sim) pickMachine() *nodeh.Machine {
	var ups []*nodeh.Machine
	for _, m := range s.cl.M {
		if m.Up {
			ups = append(ups, m)
		}
	}
	return ups[s.t.Choose(len(ups))]
}

func hosts(cl *nodeh.Cluster, m *nodeh.Machine, p int) bool { return m.Parts[p] != nil }

func (s *sim) step() {
	c, t, cl := s.c, s.t, s.cl
	switch t.Weighted([]int{30, 15, 15, 15, 10, 8, 4}) {
	case 0: // single-key SET on any machine: executed by the owner partition or rejected
		k := s.keys[t.Choose(len(s.keys))]
		v := s.val()
		m := s.pickMachine()
		p := s.part(k)
		r, ok := cl.Do(m, nodeh.Cmd("set", ns(k), v), 100)
		c.Log("set", "m%d %s p%d -> %s", m.Idx, k, p, nodeh.Fmt(r))
		s.nchecked++
		if !ok {
			c.Violate("C15", "no-reply", "", "SET %s on machine %d got no reply", k, m.Idx)
			return
		}
		if nodeh.IsErr(r) {
			// the property allows a rejection; only the partition's own leader has
			// no excuse in a fault-free run
			if cl.Leader(p) == m.Idx && !s.cfg.faults {
				c.Violate("C15", "owner-rejected", "", "machine %d leads partition %d of key %s but rejected SET: %s", m.Idx, p, k, nodeh.Fmt(r))
			}
			c.Probe("rejected_by_non_host")
			// a rejected command changes nothing anywhere
		} else {
			if !hosts(cl, m, p) {
				c.Violate("C15", "executed-elsewhere", "", "machine %d does not host partition %d of key %s but executed SET", m.Idx, p, k)
				return
			}
			s.mdl.Apply([]string{"set", k, v})
		}
		cl.PumpFair(3, nil)
		s.checkHolders(k)
	case 1: // GET through the owner's leader must see the model value
		k := s.keys[t.Choose(len(s.keys))]
		p := s.part(k)
		l := cl.Leader(p)
		if l < 0 {
			cl.PumpFair(20, s.allLeaders)
			return
		}
		r, ok := cl.Do(cl.M[l], nodeh.Cmd("get", ns(k)), 100)
		want := s.mdl.Apply([]string{"get", k})
		s.nchecked++
		c.Log("get", "%s -> %s", k, nodeh.Fmt(r))
		if !ok || !model.Equal(r, want) {
			c.Violate("C15", "get-mismatch", "", "GET %s through the leader of partition %d returned %s, model %s", k, p, nodeh.Fmt(r), model.Canon(want))
		}
	case 2, 3, 4, 5: // multi-key merge commands on any machine
		n := 2 + t.Choose(4)
		var ks []string
		for i := 0; i < n; i++ {
			ks = append(ks, s.keys[t.Choose(len(s.keys))]) // duplicates happen
		}
		parts := map[int]bool{}
		for _, k := range ks {
			parts[s.part(k)] = true
		}
		m := s.pickMachine()
		hostAll := true
		for p := range parts {
			if !hosts(cl, m, p) || cl.Leader(p) < 0 {
				hostAll = false
			}
		}
		leadAll := true
		for p := range parts {
			if cl.Leader(p) != m.Idx {
				leadAll = false
			}
		}
		if len(parts) > 1 {
			s.ncross++
		}
		kind := []string{"del", "exists", "mget", "plset"}[t.Choose(4)]
		var args []interface{}
		var margs []string
		args = append(args, kind)
		margs = append(margs, kind)
		var vals []string
		for _, k := range ks {
			args = append(args, ns(k))
			margs = append(margs, k)
			if kind == "plset" {
				v := s.val()
				vals = append(vals, v)
				args = append(args, v)
			}
		}
		r, ok := cl.Do(m, nodeh.Cmd(args...), 150)
		c.Log("multi", "m%d %v parts=%d hostAll=%v leadAll=%v -> %s", m.Idx, margs, len(parts), hostAll, leadAll, nodeh.Fmt(r))
		s.nchecked++
		if !ok {
			c.Violate("C15", "no-reply", "", "%v on machine %d got no reply", margs, m.Idx)
			return
		}
		isErr := nodeh.IsErr(r)
		if arr, isArr := r.([]interface{}); isArr && kind == "plset" {
			for _, x := range arr {
				if nodeh.IsErr(x) {
					isErr = true
				}
			}
		}
		if isErr {
			if leadAll && !s.cfg.faults {
				c.Violate("C15", "owner-rejected", "", "machine %d leads every partition of %v but rejected it: %s", m.Idx, margs, nodeh.Fmt(r))
			}
			c.Probe("multikey_rejected")
			// a rejected multi-key command may have acted on some partitions: the
			// statement only speaks about executed commands; resync the model
			// from the owners
			cl.PumpFair(5, nil)
			s.resync(ks)
			return
		}
		// executed: must equal the single-store model
		switch kind {
		case "del":
			want := s.mdl.Apply(append([]string{"del"}, dedup(ks)...))
			// Redis counts a key once even if named twice
			if !model.Equal(r, want) {
				key := ""
				if hasDup(ks) {
					key = "multikey-duplicate-counted-per-occurrence"
				}
				c.Violate("C15", "merged-reply", key, "DEL %v returned %s, one store would return %s", ks, nodeh.Fmt(r), model.Canon(want))
				if key == "" {
					return
				}
			}
		case "exists":
			want := s.mdl.Apply(append([]string{"exists"}, ks...)) // Redis counts per occurrence
			if !model.Equal(r, want) {
				c.Violate("C15", "merged-reply", "", "EXISTS %v returned %s, one store would return %s", ks, nodeh.Fmt(r), model.Canon(want))
				return
			}
		case "mget":
			var want []interface{}
			for _, k := range ks {
				want = append(want, s.mdl.Apply([]string{"get", k}))
			}
			if !model.Equal(r, want) {
				key := ""
				if len(parts) > 1 {
					key = "mget-routed-by-first-key"
				}
				c.Violate("C15", "merged-reply", key, "MGET %v (partitions %d) returned %s, one store would return %s", ks, len(parts), nodeh.Fmt(r), model.Canon(want))
				if key == "" {
					return
				}
			}
		case "plset":
			for i, k := range ks {
				s.mdl.Apply([]string{"set", k, vals[i]})
			}
		}
		cl.PumpFair(3, nil)
		for _, k := range dedup(ks) {
			s.checkHolders(k)
		}
	case 6: // leader transfer / kill of a replica (only with replication)
		if !s.cfg.faults {
			return
		}
		p := t.Choose(s.cfg.partitions)
		l := cl.Leader(p)
		if l < 0 {
			return
		}
		hs := cl.Hosts(p)
		to := hs[t.Choose(len(hs))]
		if to == l || !cl.M[to].Up {
			return
		}
		c.Fault("leader_transfer")
		c.Log("transfer", "p%d m%d -> m%d", p, l, to)
		cl.M[l].Parts[p].TransferMyLeader(cl.NodeID(to), nodeh.ReplicaID(p, to))
		cl.PumpFair(30, s.allLeaders)
	}
}

func dedup(ks []string) []string {
	seen := map[string]bool{}
	var out []string
	for _, k := range ks {
		if !seen[k] {
			seen[k] = true
			out = append(out, k)
		}
	}
	return out
}

func hasDup(ks []string) bool { return len(dedup(ks)) != len(ks) }

// resync reads the truth of the given keys from their owner partitions.
func (s *sim) resync(ks []string) {
	for _, k := range dedup(ks) {
		p := s.part(k)
		l := s.cl.Leader(p)
		if l < 0 {
			continue
		}
		r, ok := s.cl.Do(s.cl.M[l], nodeh.Cmd("get", ns(k)), 100)
		if !ok || nodeh.IsErr(r) {
			continue
		}
		if b, isB := r.([]byte); isB {
			s.mdl.KV[k] = string(b)
		} else {
			delete(s.mdl.KV, k)
		}
	}
}

// checkHolders: exactly the owner partition's stores hold the key (or none if
// the model says it does not exist).
func (s *sim) checkHolders(k string) {
	hs := s.holders(k)
	p := s.part(k)
	_, exists := s.mdl.KV[k]
	for _, h := range hs {
		if h != p {
			s.c.Violate("C15", "stored-in-wrong-partition", "", "key %s belongs to partition %d (SDK hash) but partition %d holds it", k, p, h)
			return
		}
	}
	if exists && len(hs) == 0 {
		s.c.Violate("C15", "not-stored-in-owner", "", "key %s should exist in partition %d but no store holds it", k, p)
	}
	if !exists && len(hs) > 0 {
		s.c.Violate("C15", "deleted-key-still-stored", "", "key %s should not exist but partition %v holds it", k, hs)
	}
}
