package core

import "time"

// Shrink minimises a failing tape with a budgeted delta-debugging pass:
// truncate the tail, delete chunks of decreasing size, then lower values
// toward zero. fails(tape) must re-run the simulation and report whether the
// same violation class recurs. Returns the smallest failing tape found and
// the number of executions spent.
func Shrink(tape []uint32, fails func([]uint32) bool, maxExec int, maxWall time.Duration) ([]uint32, int) {
	start := time.Now()
	nexec := 0
	try := func(c []uint32) bool {
		if nexec >= maxExec || time.Since(start) > maxWall {
			return false
		}
		nexec++
		return fails(c)
	}
	out := func() bool { return nexec >= maxExec || time.Since(start) > maxWall }
	cur := append([]uint32(nil), tape...)
	// 1. truncate the tail (missing values read as 0)
	for cut := len(cur) / 2; cut >= 1 && !out(); {
		if cut > len(cur) {
			cut = len(cur)
		}
		cand := cur[:len(cur)-cut]
		if try(cand) {
			cur = append([]uint32(nil), cand...)
		} else {
			cut /= 2
		}
	}
	// 2. delete chunks
	for size := len(cur) / 2; size >= 1 && !out(); size /= 2 {
		for i := 0; i+size <= len(cur) && !out(); {
			cand := append(append([]uint32(nil), cur[:i]...), cur[i+size:]...)
			if try(cand) {
				cur = cand
			} else {
				i += size
			}
		}
	}
	// 3. zero chunks, then single values
	for size := len(cur) / 4; size >= 1 && !out(); size /= 2 {
		for i := 0; i+size <= len(cur) && !out(); i += size {
			allz := true
			for _, v := range cur[i : i+size] {
				if v != 0 {
					allz = false
				}
			}
			if allz {
				continue
			}
			cand := append([]uint32(nil), cur...)
			for k := i; k < i+size; k++ {
				cand[k] = 0
			}
			if try(cand) {
				cur = cand
			}
		}
	}
	// trailing zeros are implicit
	for len(cur) > 0 && cur[len(cur)-1] == 0 {
		cur = cur[:len(cur)-1]
	}
	return cur, nexec
}
