package core

import (
	"fmt"
	"hash/fnv"
	"sort"
	"testing"
)

// Violation is one oracle failure.
type Violation struct {
	Prop string `json:"property"`
	Rule string `json:"rule"`
	Msg  string `json:"msg"`
	// Key is non-empty only when the harness ground truth shows that this
	// violation is exactly the situation a known finding describes (the
	// oracle re-run with that finding's single relaxation accepts the run).
	Key string `json:"key,omitempty"`
}

func (v Violation) Class() string { return v.Prop + "/" + v.Rule + "/" + v.Key }

// RunCtx is handed to an engine for one simulated run.
type RunCtx struct {
	T         *testing.T
	Prop      string // property whose check is running ("" = all)
	Tier      string // quick | thorough
	Tape      *Tape
	KeepTrace bool
	Trace     []string
	MaxTrace  int

	hash     uint64
	sig      uint64
	nlog     int
	Stats    map[string]int64
	Viol     []Violation
	violSeen map[string]bool
	// NonTrivial is set by the engine per its stated rule.
	NonTrivial bool
	Sample     interface{}
	// Inconclusive counts oracle evaluations that timed out (never reported
	// as violations).
	Inconclusive int
	SimMs        int64
	Events       int64
}

func NewRunCtx(t *testing.T, prop, tier string, tape *Tape) *RunCtx {
	return &RunCtx{T: t, Prop: prop, Tier: tier, Tape: tape, Stats: map[string]int64{},
		hash: 14695981039346656037, sig: 14695981039346656037, violSeen: map[string]bool{}, MaxTrace: 200000}
}

func fnvAdd(h uint64, s string) uint64 {
	for i := 0; i < len(s); i++ {
		h ^= uint64(s[i])
		h *= 1099511628211
	}
	h ^= 0xff
	h *= 1099511628211
	return h
}

// Log records one trace line. kind goes into the run signature (shape of the
// run without payloads); the full line goes into the trace hash used by the
// determinism self-test and by replay verification. Never draws from the tape.
func (c *RunCtx) Log(kind string, format string, args ...interface{}) {
	c.sig = fnvAdd(c.sig, kind)
	c.nlog++
	if format == "" && !c.KeepTrace {
		c.hash = fnvAdd(c.hash, kind)
		return
	}
	line := kind
	if format != "" {
		line = kind + " " + fmt.Sprintf(format, args...)
	}
	c.hash = fnvAdd(c.hash, line)
	if c.KeepTrace && len(c.Trace) < c.MaxTrace {
		c.Trace = append(c.Trace, line)
	}
}

// Fault counts a fault that actually fired.
func (c *RunCtx) Fault(kind string) { c.Stats["fault."+kind]++ }

// Probe counts a reached rare situation.
func (c *RunCtx) Probe(name string) { c.Stats["probe."+name]++ }

func (c *RunCtx) Count(name string, n int64) { c.Stats[name] += n }

// Violate records an oracle failure (first per class is kept).
func (c *RunCtx) Violate(prop, rule, key, format string, args ...interface{}) {
	v := Violation{Prop: prop, Rule: rule, Key: key, Msg: fmt.Sprintf(format, args...)}
	if c.violSeen[v.Class()] {
		return
	}
	c.violSeen[v.Class()] = true
	c.Viol = append(c.Viol, v)
	c.Log("VIOLATION", "%s %s %s", prop, rule, v.Msg)
}

func (c *RunCtx) Hash() uint64 { return c.hash }
func (c *RunCtx) Sig() uint64  { return c.sig }

// HashString hashes an arbitrary string with the same function.
func HashString(s string) uint64 {
	h := fnv.New64a()
	h.Write([]byte(s))
	return h.Sum64()
}

// SortedKeys returns the keys of a string-keyed map in sorted order so that
// no harness decision or output depends on map iteration order.
func SortedKeys[V any](m map[string]V) []string {
	ks := make([]string, 0, len(m))
	for k := range m {
		ks = append(ks, k)
	}
	sort.Strings(ks)
	return ks
}

// Engine is one simulator.
type Engine struct {
	Name string
	// Run executes one run; everything it decides comes from c.Tape.
	Run func(c *RunCtx)
}
