package core

import (
	"encoding/json"
	"fmt"
	"os"
	"path/filepath"
	"strconv"
	"strings"
	"testing"
	"time"
)

// Stdout is the process's original standard output; engines may redirect
// os.Stdout to silence debug prints of the code under test.
var Stdout = os.Stdout

// ReplayFile is what a violation is reported as.
type ReplayFile struct {
	Property  string   `json:"property"`
	Engine    string   `json:"engine"`
	Tier      string   `json:"tier"`
	Seed      uint64   `json:"seed"`
	Run       int64    `json:"run"`
	RunSeed   uint64   `json:"run_seed"`
	Tape      []uint32 `json:"tape"`
	OrigLen   int      `json:"orig_tape_len"`
	Rule      string   `json:"rule"`
	Key       string   `json:"key,omitempty"`
	Msg       string   `json:"msg"`
	TraceHash string   `json:"trace_hash"`
	ShrinkRun int      `json:"shrink_executions"`
	Trace     []string `json:"trace,omitempty"`
	Params    string   `json:"params,omitempty"`
}

// WorkerOut is the per-process report merged by the check script.
type WorkerOut struct {
	Engine       string           `json:"engine"`
	Property     string           `json:"property"`
	Tier         string           `json:"tier"`
	Seed         uint64           `json:"seed"`
	RunFrom      int64            `json:"run_from"`
	Runs         int64            `json:"runs"`
	NonTrivial   int64            `json:"nontrivial"`
	Sigs         []uint64         `json:"sigs"` // signatures of non-trivial runs
	Stats        map[string]int64 `json:"stats"`
	SimMs        int64            `json:"sim_ms"`
	Events       int64            `json:"events"`
	Inconclusive int64            `json:"inconclusive"`
	WallS        float64          `json:"wall_s"`
	Violations   []WorkerViol     `json:"violations"`
	Samples      []interface{}    `json:"samples"`
	Hashes       []string         `json:"hashes,omitempty"` // selftest: run:hash
	Done         bool             `json:"done"`
}

type WorkerViol struct {
	Violation
	Run    int64  `json:"run"`
	Replay string `json:"replay"`
}

func envInt(name string, def int64) int64 {
	if s := os.Getenv(name); s != "" {
		if v, err := strconv.ParseInt(s, 10, 64); err == nil {
			return v
		}
	}
	return def
}

// RunSeed derives the seed of run i from the check seed.
func RunSeed(seed uint64, run int64) uint64 {
	x := seed*0x9E3779B97F4A7C15 + uint64(run)*0xD1B54A32D192ED03 + 0x1234567
	return splitmix(&x)
}

func execRun(t *testing.T, e Engine, prop, tier string, tape *Tape, keep bool) (c *RunCtx) {
	c = NewRunCtx(t, prop, tier, tape)
	c.KeepTrace = keep
	e.Run(c)
	return c
}

// pick returns the violation this check reports: one of the requested
// property (or any if prop is empty).
func pick(c *RunCtx, prop string) *Violation {
	for i := range c.Viol {
		if prop == "" || c.Viol[i].Prop == prop {
			return &c.Viol[i]
		}
	}
	return nil
}

// Worker is the body of every engine's TestWorker.
func Worker(t *testing.T, e Engine) {
	prop := os.Getenv("VERIF_PROP")
	tier := os.Getenv("VERIF_TIER")
	if tier == "" {
		tier = "quick"
	}
	if rp := os.Getenv("VERIF_REPLAY"); rp != "" {
		replay(t, e, rp)
		return
	}
	seed := uint64(envInt("VERIF_SEED", 1))
	from := envInt("VERIF_RUN_FROM", 0)
	maxRuns := envInt("VERIF_MAXRUNS", 20)
	budget := time.Duration(envInt("VERIF_BUDGET_S", 30)) * time.Second
	outPath := os.Getenv("VERIF_OUT")
	replayDir := os.Getenv("VERIF_REPLAY_DIR")
	if replayDir == "" {
		replayDir = "/verif/replays"
	}
	selftest := os.Getenv("VERIF_SELFTEST") != ""
	shrinkBudget := time.Duration(envInt("VERIF_SHRINK_S", 60)) * time.Second
	shrinkExec := int(envInt("VERIF_SHRINK_EXEC", 400))

	out := &WorkerOut{Engine: e.Name, Property: prop, Tier: tier, Seed: seed, RunFrom: from, Stats: map[string]int64{}}
	start := time.Now()
	flush := func() {
		out.WallS = time.Since(start).Seconds()
		if outPath != "" {
			b, _ := json.Marshal(out)
			os.WriteFile(outPath+".tmp", b, 0644)
			os.Rename(outPath+".tmp", outPath)
		}
	}
	seenKey := map[string]bool{}
	knownKeys := map[string]bool{}
	for _, k := range strings.Split(os.Getenv("VERIF_KNOWN_KEYS"), ",") {
		if k != "" {
			knownKeys[k] = true
		}
	}
	for i := int64(0); i < maxRuns; i++ {
		if time.Since(start) > budget {
			break
		}
		run := from + i
		rs := RunSeed(seed, run)
		if outPath != "" {
			os.WriteFile(outPath+".cur", []byte(fmt.Sprintf("{\"run\":%d,\"run_seed\":%d}", run, rs)), 0644)
		}
		c := execRun(t, e, prop, tier, NewTape(rs), os.Getenv("VERIF_TRACE_RUNS") != "")
		if d := os.Getenv("VERIF_TRACE_RUNS"); d != "" {
			// debugging aid: the event log of every run, one file per run
			os.MkdirAll(d, 0755)
			os.WriteFile(fmt.Sprintf("%s/run-%d.txt", d, run), []byte(strings.Join(c.Trace, "\n")+"\n"), 0644)
		}
		out.Runs++
		out.SimMs += c.SimMs
		out.Events += c.Events
		out.Inconclusive += int64(c.Inconclusive)
		for k, v := range c.Stats {
			out.Stats[k] += v
		}
		if c.NonTrivial {
			out.NonTrivial++
			out.Sigs = append(out.Sigs, c.Sig())
		}
		if c.Sample != nil && len(out.Samples) < 2 && (c.NonTrivial || len(out.Samples) == 0) {
			out.Samples = append(out.Samples, c.Sample)
		}
		if selftest {
			c2 := execRun(t, e, prop, tier, NewTape(rs), false)
			h := fmt.Sprintf("%d:%016x", run, c.Hash())
			if c2.Hash() != c.Hash() {
				h += ":NONDET"
			}
			out.Hashes = append(out.Hashes, h)
		}
		if v := pick(c, prop); v != nil {
			if v.Key != "" && seenKey[v.Class()] {
				continue
			}
			seenKey[v.Class()] = true
			tape := c.Tape.Values()
			orig := len(tape)
			nexec := 0
			if os.Getenv("VERIF_NOSHRINK") == "" && !knownKeys[v.Key] {
				tape, nexec = Shrink(tape, func(cand []uint32) bool {
					cc := execRun(t, e, prop, tier, ReplayTape(cand), false)
					for _, w := range cc.Viol {
						if w.Class() == v.Class() {
							return true
						}
					}
					return false
				}, shrinkExec, shrinkBudget)
			}
			// final execution of the minimised tape with trace kept
			fc := execRun(t, e, prop, tier, ReplayTape(tape), true)
			var fv *Violation
			for k := range fc.Viol {
				if fc.Viol[k].Class() == v.Class() {
					fv = &fc.Viol[k]
				}
			}
			if fv == nil {
				// shrinking lost it (non-determinism): fall back to the original
				tape = c.Tape.Values()
				fc = execRun(t, e, prop, tier, ReplayTape(tape), true)
				fv = pick(fc, prop)
				if fv == nil {
					fv = v
				}
			}
			rf := ReplayFile{Property: fv.Prop, Engine: e.Name, Tier: tier, Seed: seed, Run: run, RunSeed: rs,
				Tape: tape, OrigLen: orig, Rule: fv.Rule, Key: fv.Key, Msg: fv.Msg,
				TraceHash: fmt.Sprintf("%016x", fc.Hash()), ShrinkRun: nexec, Trace: tailTrace(fc.Trace, 400)}
			os.MkdirAll(replayDir, 0755)
			name := fmt.Sprintf("%s-%d-%d-%016x.json", fv.Prop, seed, run, fc.Hash())
			p := filepath.Join(replayDir, name)
			b, _ := json.MarshalIndent(rf, "", " ")
			os.WriteFile(p, b, 0644)
			out.Violations = append(out.Violations, WorkerViol{Violation: *fv, Run: run, Replay: p})
			flush()
			if fv.Key == "" {
				// an unknown violation ends this worker
				break
			}
		}
		if i%16 == 15 {
			flush()
		}
	}
	out.Done = true
	flush()
	if outPath != "" {
		os.Remove(outPath + ".cur")
	}
}

func tailTrace(tr []string, n int) []string {
	if len(tr) <= n {
		return tr
	}
	out := []string{fmt.Sprintf("... %d earlier lines omitted ...", len(tr)-n)}
	return append(out, tr[len(tr)-n:]...)
}

// replay re-executes a replay file; the test fails (exit 1) iff the same
// violation class recurs.
func replay(t *testing.T, e Engine, path string) {
	b, err := os.ReadFile(path)
	if err != nil {
		fmt.Fprintf(Stdout, "REPLAY-ERROR cannot read %s: %v\n", path, err)
		os.Exit(2)
	}
	var rf ReplayFile
	if err := json.Unmarshal(b, &rf); err != nil {
		fmt.Fprintf(Stdout, "REPLAY-ERROR cannot parse %s: %v\n", path, err)
		os.Exit(2)
	}
	var tape *Tape
	if len(rf.Tape) == 0 && rf.RunSeed != 0 {
		tape = NewTape(rf.RunSeed)
	} else {
		tape = ReplayTape(rf.Tape)
	}
	c := execRun(t, e, rf.Property, rf.Tier, tape, true)
	if os.Getenv("VERIF_REPLAY_TRACE") != "" {
		for _, l := range c.Trace {
			fmt.Fprintln(Stdout, l)
		}
	}
	for _, v := range c.Viol {
		if v.Prop == rf.Property && (rf.Rule == "" || v.Rule == rf.Rule) {
			same := fmt.Sprintf("%016x", c.Hash()) == rf.TraceHash
			fmt.Fprintf(Stdout, "REPLAY-REPRODUCED property=%s rule=%s key=%s same_trace=%v msg=%s\n", v.Prop, v.Rule, v.Key, same, v.Msg)
			return
		}
	}
	fmt.Fprintf(Stdout, "REPLAY-NOT-REPRODUCED property=%s rule=%s (violations now: %d)\n", rf.Property, rf.Rule, len(c.Viol))
}
