// Package core is the simulator core shared by all engines: the choice
// source ("tape"), result/evidence records, the worker loop and the shrinker.
package core

// Tape is the single source of every decision a simulated run takes.
// In search mode values come from a PRNG seeded by one integer and are
// recorded; in replay mode the recorded values are read back (missing = 0).
type Tape struct {
	s       [4]uint64 // xoshiro256** state
	rec     []uint32
	replay  bool
	pos     int
	overrun int
}

func splitmix(x *uint64) uint64 {
	*x += 0x9e3779b97f4a7c15
	z := *x
	z = (z ^ (z >> 30)) * 0xbf58476d1ce4e5b9
	z = (z ^ (z >> 27)) * 0x94d049bb133111eb
	return z ^ (z >> 31)
}

// NewTape returns a recording tape driven by a PRNG seeded with seed.
func NewTape(seed uint64) *Tape {
	t := &Tape{}
	x := seed
	for i := range t.s {
		t.s[i] = splitmix(&x)
	}
	return t
}

// ReplayTape returns a tape that reads vals back; reads past the end give 0.
func ReplayTape(vals []uint32) *Tape {
	return &Tape{rec: append([]uint32(nil), vals...), replay: true}
}

func rotl(x uint64, k uint) uint64 { return (x << k) | (x >> (64 - k)) }

func (t *Tape) next() uint32 {
	if t.replay {
		if t.pos < len(t.rec) {
			v := t.rec[t.pos]
			t.pos++
			return v
		}
		t.pos++
		t.overrun++
		return 0
	}
	s := &t.s
	r := rotl(s[1]*5, 7) * 9
	x := s[1] << 17
	s[2] ^= s[0]
	s[3] ^= s[1]
	s[1] ^= s[2]
	s[0] ^= s[3]
	s[2] ^= x
	s[3] = rotl(s[3], 45)
	v := uint32(r >> 32)
	t.rec = append(t.rec, v)
	return v
}

// Choose returns a value in [0,n). n<=1 consumes nothing.
// Choice 0 should be the "simplest" alternative: the shrinker lowers values.
func (t *Tape) Choose(n int) int {
	if n <= 1 {
		return 0
	}
	return int(t.next() % uint32(n))
}

// Range returns a value in [lo,hi].
func (t *Tape) Range(lo, hi int) int {
	if hi <= lo {
		return lo
	}
	return lo + t.Choose(hi-lo+1)
}

// Bool is true with probability permille/1000. A zero on the tape is false.
func (t *Tape) Bool(permille int) bool {
	if permille <= 0 {
		return false
	}
	if permille >= 1000 {
		return true
	}
	v := t.next() % 1000
	// high values are true so that shrinking toward 0 removes faults
	return int(v) >= 1000-permille
}

// U32 returns a raw value.
func (t *Tape) U32() uint32 { return t.next() }

// Values returns what was drawn so far (search mode) or the tape (replay).
func (t *Tape) Values() []uint32 {
	if t.replay {
		n := t.pos
		if n > len(t.rec) {
			n = len(t.rec)
		}
		return append([]uint32(nil), t.rec[:n]...)
	}
	return append([]uint32(nil), t.rec...)
}

// Used reports how many values have been consumed.
func (t *Tape) Used() int {
	if t.replay {
		return t.pos
	}
	return len(t.rec)
}

// Weighted picks an index with probability proportional to w[i].
func (t *Tape) Weighted(w []int) int {
	sum := 0
	for _, x := range w {
		sum += x
	}
	if sum <= 0 {
		return 0
	}
	v := t.Choose(sum)
	for i, x := range w {
		if v < x {
			return i
		}
		v -= x
	}
	return len(w) - 1
}
