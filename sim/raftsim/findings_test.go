//go:build verif

package raftsim

import (
	"context"
	"testing"

	"github.com/youzan/ZanRedisDB/node"
	"github.com/youzan/ZanRedisDB/raft"
	pb "github.com/youzan/ZanRedisDB/raft/raftpb"
	"github.com/youzan/ZanRedisDB/wal"
	"github.com/youzan/ZanRedisDB/wal/walpb"
)

// TestFindingReplacedEntriesAfterIncomingSnapshot shows, with the real WAL and
// the real raft, the defect the simulation found through its durable model
// (fixed: property=C03 5be6e26): a follower whose log was replaced by a
// snapshot from the leader still reads its old entries back from the WAL and,
// restarted with them, grants its vote to a candidate that misses committed
// entries. With the entry filter of replayWAL the vote is refused.
func TestFindingReplacedEntriesAfterIncomingSnapshot(t *testing.T) {
	dir := t.TempDir() + "/wal"
	w, err := wal.Create(dir, []byte("m"), false)
	if err != nil {
		t.Fatal(err)
	}
	// entries 1..10 of term 1 (6..10 never committed)
	var ents []pb.Entry
	for i := uint64(1); i <= 10; i++ {
		ents = append(ents, pb.Entry{Term: 1, Index: i, Data: []byte("old")})
	}
	if err := w.Save(pb.HardState{Term: 1, Vote: 1, Commit: 3}, ents); err != nil {
		t.Fatal(err)
	}
	// a leader of term 3 sends its snapshot at index 5 (term 3): raft restores
	// from it and drops its log; persistRaftState writes marker + hard state
	snap := pb.Snapshot{Metadata: pb.SnapshotMetadata{Index: 5, Term: 3, ConfState: pb.ConfState{Nodes: []uint64{1, 2, 3},
		Groups: []*pb.Group{grp(1), grp(2), grp(3)}}}}
	if err := w.SaveSnapshot(walpb.Snapshot{Index: 5, Term: 3}); err != nil {
		t.Fatal(err)
	}
	if err := w.Save(pb.HardState{Term: 3, Vote: 0, Commit: 5}, nil); err != nil {
		t.Fatal(err)
	}
	w.Sync()
	w.Close()
	// restart
	valid, err := wal.ValidSnapshotEntries(dir)
	if err != nil || len(valid) == 0 || valid[len(valid)-1].Index != 5 {
		t.Fatalf("valid snapshots: %v %v", valid, err)
	}
	w2, err := wal.Open(dir, walpb.Snapshot{Index: 5, Term: 3}, false)
	if err != nil {
		t.Fatal(err)
	}
	_, hs, got, err := w2.ReadAll()
	if err != nil {
		t.Fatal(err)
	}
	w2.Close()
	t.Logf("WAL returns hs=%v and %d entries after snapshot 5 (first %d@%d)", hs, len(got), got[0].Index, got[0].Term)
	if len(got) != 5 || got[0].Term != 1 {
		t.Fatalf("expected the WAL to return the replaced entries 6..10 of term 1, got %d", len(got))
	}
	for _, filtered := range []bool{false, true} {
		e := got
		if filtered {
			e = node.VerifEntriesAfterSnapshot(&snap, got)
		}
		st := raft.NewRealMemoryStorage()
		st.ApplySnapshot(snap)
		st.SetHardState(hs)
		st.Append(e)
		n := raft.RestartNode(&raft.Config{ID: 1, ElectionTick: 10, HeartbeatTick: 1, Storage: st,
			MaxSizePerMsg: 1 << 20, MaxInflightMsgs: 16, CheckQuorum: true, PreVote: true,
			Group: *grp(1)})
		// candidate 2 of term 4 whose log ends at index 4 / term 2: it misses the
		// committed index 5
		n.Step(context.Background(), pb.Message{Type: pb.MsgVote, From: 2, To: 1, Term: 4, LogTerm: 2, Index: 4,
			FromGroup: *grp(2), ToGroup: *grp(1)})
		granted := false
		seen := false
		for i := 0; i < 5 && !seen; i++ {
			rd, ok := n.StepNode(true, false)
			if !ok {
				continue
			}
			for _, m := range rd.Messages {
				if m.Type == pb.MsgVoteResp {
					seen = true
					granted = !m.Reject
				}
			}
			n.Advance(rd)
		}
		n.Stop()
		t.Logf("filtered=%v: vote response seen=%v granted=%v", filtered, seen, granted)
		if !seen {
			t.Fatalf("no vote response")
		}
		if filtered && granted {
			t.Fatalf("with the replayWAL filter the vote must be refused")
		}
		if !filtered && !granted {
			t.Fatalf("expected the unfiltered log to grant the vote (the defect)")
		}
	}
}

func grp(id uint64) *pb.Group {
	return &pb.Group{NodeId: id, GroupId: 1, RaftReplicaId: id, Name: "g"}
}
