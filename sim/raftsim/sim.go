// Package raftsim is a single-threaded deterministic simulation of one raft
// group built from the repository's real raft.Node (driven through StepNode /
// Advance exactly like node/raft.go does), with a simulated network, a
// durable-state model and crash/restart. It decides C01, C02 and C03.
package raftsim

import (
	"fmt"
	"hash/fnv"
	"runtime"
	"sort"

	"github.com/youzan/ZanRedisDB/node"
	"github.com/youzan/ZanRedisDB/raft"
	pb "github.com/youzan/ZanRedisDB/raft/raftpb"

	"verif/sim/core"
)

type panicLogger struct{ c *core.RunCtx }

func (panicLogger) Debug(v ...interface{})                   {}
func (panicLogger) Debugf(format string, v ...interface{})   {}
func (panicLogger) Error(v ...interface{})                   {}
func (panicLogger) Errorf(format string, v ...interface{})   {}
func (panicLogger) Info(v ...interface{})                    {}
func (panicLogger) Infof(format string, v ...interface{})    {}
func (panicLogger) Warning(v ...interface{})                 {}
func (panicLogger) Warningf(format string, v ...interface{}) {}
func (panicLogger) Fatal(v ...interface{})                   { panic(raftPanic(fmt.Sprint(v...))) }
func (panicLogger) Fatalf(format string, v ...interface{})   { panic(raftPanic(fmt.Sprintf(format, v...))) }
func (panicLogger) Panic(v ...interface{})                   { panic(raftPanic(fmt.Sprint(v...))) }
func (panicLogger) Panicf(format string, v ...interface{})   { panic(raftPanic(fmt.Sprintf(format, v...))) }

type raftPanic string

type entID struct {
	term uint64
	typ  pb.EntryType
	h    uint64
}

func idOf(e *pb.Entry) entID {
	h := fnv.New64a()
	h.Write(e.Data)
	return entID{e.Term, e.Type, h.Sum64()}
}

type replica struct {
	id      uint64
	up      bool
	started bool // has ever been started
	gone    bool // removed from the group and shut down for good
	n       raft.Node
	st      *raft.MemoryStorage
	learner bool // started as learner (join)

	// durable model: the records saved to the log, in order (wal.Save /
	// SaveSnapshot) together with the snapshot files. wal.Save leaves its
	// records in the process' write buffer unless raft.MustSync (or a snapshot
	// marker) asks for a sync: a crash may lose the records after the last flush.
	recs     []drec
	nFlushed int
	walState pb.HardState // wal.WAL.state: the previously saved hard state
	promised bool         // the unflushed records hold a term, vote or entry (not only a commit index)
	voteOnly bool

	// volatile application state of this incarnation
	cursor    uint64 // highest index handed out / covered by snapshot
	confState pb.ConfState
	selfLearn bool // learner in its own applied configuration
	selfVoter bool
	genLearn  bool // learner view at the time the current Ready's messages were generated
	curHS     pb.HardState
	state     raft.StateType
	incarn    int
	pending   bool // StepNode may have more to hand out
	stall     bool // receives no ticks
	// deferred conf change apply in flight (leader path)
	deferred chan struct{}
	maxApplied uint64 // over all incarnations
	// production: a replica that applied its own removal blocks its apply loop
	// and destroys itself one second (10 ticks) later; raft keeps running
	removing int
}

type flight struct {
	m   pb.Message
	dup bool
}

type cfg struct {
	nUniverse   int
	nInit       int
	preVote     bool
	checkQuorum bool
	prodOrder   bool // new leader sends before persisting (node/raft.go)
	maxSizeMsg  uint64
	maxCommSize uint64
	inflight    int
	events      int
	dropPm      int
	dupPm       int
	wTick, wDeliver, wPropose, wConf, wCrash, wRestart, wPart, wHeal, wCompact, wTransfer, wCampaign, wStall, wPoke int
	subCrashPm  int
	tailCrashPm int // extra crash probability while the log holds unflushed records
	backPressPm int
	template    int
	lazyProcPm  int
}

type sim struct {
	c    *core.RunCtx
	t    *core.Tape
	cfg  cfg
	rs   []*replica // index id-1
	net  []flight
	blocked map[[2]uint64]bool
	nprop   int

	// oracles
	leaderOf   map[uint64]uint64            // term -> replica acting as leader
	votes      map[[2]uint64]uint64         // (voter, term) -> candidate granted
	applied    map[uint64]entID             // index -> first handed-out identity
	committed  map[uint64]entID             // index -> identity reported committed
	hot        *replica // directed continuation after a crash that lost a promise (run.go hotStep)
	hotLeft    int
	commitTerm map[uint64]uint64            // index -> term of the replica that first reported it committed (>= the term it was committed in)
	maxCommit  uint64
	confApplied int
	faultsOn   bool
	dead       bool // a raft panic happened; run ends
	leaderChanges int
	lastConf   pb.ConfState // newest conf state applied anywhere (by index)
	lastConfIdx uint64
	removedIDs map[uint64]bool
	maybeRemoved map[uint64]bool
	poison     string
}

// v records a violation. If the run already passed through the precursor of a
// listed known finding (ground truth the oracles do not use), the violation
// carries that finding's key.
func (s *sim) v(prop, rule, format string, args ...interface{}) {
	s.c.Violate(prop, rule, s.poison, format, args...)
}

func (s *sim) group(id uint64) pb.Group {
	return pb.Group{NodeId: id, Name: "g", GroupId: 1, RaftReplicaId: id}
}

func (s *sim) config(r *replica) *raft.Config {
	return &raft.Config{ID: r.id, ElectionTick: 10, HeartbeatTick: 1, Storage: r.st,
		MaxSizePerMsg: s.cfg.maxSizeMsg, MaxCommittedSizePerReady: s.cfg.maxCommSize,
		MaxInflightMsgs: s.cfg.inflight, CheckQuorum: s.cfg.checkQuorum, PreVote: s.cfg.preVote,
		Logger: panicLogger{}, Group: s.group(r.id)}
}

// guard runs f and converts a raft-internal panic into a violation.
func (s *sim) guard(r *replica, where string, f func()) (ok bool) {
	defer func() {
		if e := recover(); e != nil {
			s.dead = true
			ok = false
			msg := fmt.Sprint(e)
			if _, isRaft := e.(raftPanic); !isRaft {
				buf := make([]byte, 2048)
				buf = buf[:runtime.Stack(buf, false)]
				msg += " @ " + string(buf)
			}
			// a panic of the raft core breaks every raft property; report it
			// under the property being checked
			p := s.c.Prop
			if p == "" {
				p = "C02"
			}
			rule := "raft-panic"
			if where == "restart" {
				rule = "restart-panic"
			}
			s.v(p, rule, "replica %d %s: %s", r.id, where, msg)
		}
	}()
	f()
	return true
}

func (s *sim) startFresh(r *replica, peers []raft.Peer, learner bool) {
	r.st = raft.NewRealMemoryStorage()
	r.up, r.started, r.learner = true, true, learner
	r.cursor, r.confState = 0, pb.ConfState{}
	r.selfLearn, r.selfVoter = learner, false
	r.curHS = pb.HardState{}
	r.state = raft.StateFollower
	r.incarn++
	s.guard(r, "start", func() { r.n = raft.StartNode(s.config(r), peers, learner) })
	r.pending = true
}

func (s *sim) restart(r *replica) {
	// rebuild the storage object the way startRaft/replayWAL do: the hard state
	// is the newest one in the log, the snapshot the newest whose marker is
	// valid (index <= that commit, wal.ValidSnapshotEntries), the entries what
	// wal.ReadAll returns from that marker
	var dHS pb.HardState
	for i := range r.recs {
		if r.recs[i].kind == dState {
			dHS = r.recs[i].hs
		}
	}
	var dSnap pb.Snapshot
	for i := range r.recs {
		if r.recs[i].kind == dSnapRec && r.recs[i].snap.Metadata.Index <= dHS.Commit && r.recs[i].snap.Metadata.Index >= dSnap.Metadata.Index {
			dSnap = r.recs[i].snap
		}
	}
	var ents []pb.Entry
	for i := range r.recs {
		if r.recs[i].kind != dEnt {
			continue
		}
		e := r.recs[i].ent
		if e.Index > dSnap.Metadata.Index {
			up := e.Index - dSnap.Metadata.Index - 1
			if up > uint64(len(ents)) {
				s.c.Violate("C03", "restart-wal-gap", "", "replica %d restart: log replay from snapshot %d hits entry %d after %d entries (wal.ReadAll: index out of range)", r.id, dSnap.Metadata.Index, e.Index, len(ents))
				return
			}
			ents = append(ents[:up], e)
		}
	}
	st := raft.NewRealMemoryStorage()
	if !raft.IsEmptySnap(dSnap) {
		// replayWAL (real code): entries the snapshot replaced are dropped
		n0 := len(ents)
		ents = node.VerifEntriesAfterSnapshot(&dSnap, ents)
		if len(ents) != n0 {
			s.c.Probe("replaced_entries_dropped_at_restart")
		}
		st.ApplySnapshot(dSnap)
	}
	st.SetHardState(dHS)
	st.Append(ents)
	r.st = st
	r.up = true
	r.incarn++
	r.cursor = dSnap.Metadata.Index
	r.confState = dSnap.Metadata.ConfState
	r.selfLearn, r.selfVoter = false, false
	for _, id := range r.confState.Learners {
		if id == r.id {
			r.selfLearn = true
		}
	}
	for _, id := range r.confState.Nodes {
		if id == r.id {
			r.selfVoter = true
		}
	}
	if raft.IsEmptySnap(dSnap) && r.learner {
		// a learner that joined and has no snapshot yet knows itself as learner
		// only after replaying its log; production restarts it with the
		// learner role configured, RestartNode ignores that, so do we.
	}
	r.curHS = dHS
	r.state = raft.StateFollower
	r.deferred = nil
	ok := s.guard(r, "restart", func() { r.n = raft.RestartNode(s.config(r)) })
	if ok {
		// production: advanceTicksForElection
		if s.t.Bool(500) {
			for i := 0; i < 9; i++ {
				r.n.Tick()
			}
		}
	}
	r.pending = true
	s.c.Log("restart", "r%d hs=%v snap=%d ents=%d", r.id, dHS, dSnap.Metadata.Index, len(ents))
}

// tickOf delivers one tick, counting down the self-destruct of a removed replica.
func (s *sim) tickOf(r *replica) {
	if r.removing > 0 {
		r.removing--
		if r.removing == 0 {
			r.up = false
			r.gone = true
			r.n.Stop()
			s.c.Log("destroyed", "r%d", r.id)
			return
		}
	}
	r.n.Tick()
	s.process(r)
}

func (s *sim) crash(r *replica, where string) {
	if !r.up {
		return
	}
	r.up = false
	if r.n != nil {
		r.n.Stop()
	}
	if r.deferred != nil {
		<-r.deferred // ApplyConfChange returns on Stop
		r.deferred = nil
	}
	s.c.Fault("crash_" + where)
	s.c.Log("crash", "r%d at %s", r.id, where)
	if r.nFlushed < len(r.recs) {
		if s.t.Bool(700) {
			s.c.Fault("lost_unflushed_wal_tail")
			if r.promised {
				s.c.Fault("lost_promise")
				s.hot, s.hotLeft = r, 2+s.t.Choose(10)
			}
			s.c.Log("lostTail", "r%d loses %d buffered records", r.id, len(r.recs)-r.nFlushed)
			r.recs = r.recs[:r.nFlushed]
		} else {
			r.nFlushed = len(r.recs)
		}
	}
	r.walState = pb.HardState{} // ReadAll does not restore WAL.state
	r.promised, r.voteOnly = false, false
}

type drecKind uint8

const (
	dEnt drecKind = iota
	dState
	dSnapRec
)

type drec struct {
	kind drecKind
	ent  pb.Entry
	hs   pb.HardState
	snap pb.Snapshot
}

// saveSnap: snapshot file + log marker, synced (SaveSnap / wal.SaveSnapshot)
func (r *replica) saveSnap(sn pb.Snapshot) {
	r.recs = append(r.recs, drec{kind: dSnapRec, snap: sn})
	r.nFlushed = len(r.recs)
}

// ---- durable model -------------------------------------------------------

// persist mirrors persistRaftState.
func (r *replica) persist(rd *raft.Ready) {
	if !raft.IsEmptySnap(rd.Snapshot) {
		r.saveSnap(rd.Snapshot)
	}
	if raft.IsEmptyHardState(rd.HardState) && len(rd.Entries) == 0 {
		return // wal.Save short cut
	}
	mustSync := raft.MustSync(rd.HardState, r.walState, len(rd.Entries))
	if !raft.IsEmptyHardState(rd.HardState) && (rd.HardState.Vote != r.walState.Vote || rd.HardState.Term != r.walState.Term || len(rd.Entries) > 0) {
		// what raft promises to others in the messages of this step
		r.promised = true
		if len(rd.Entries) == 0 && rd.HardState.Term == r.walState.Term {
			r.voteOnly = true
		}
	}
	for _, e := range rd.Entries {
		ce := e
		ce.Data = append([]byte(nil), e.Data...)
		r.recs = append(r.recs, drec{kind: dEnt, ent: ce})
	}
	if !raft.IsEmptyHardState(rd.HardState) {
		r.recs = append(r.recs, drec{kind: dState, hs: rd.HardState})
		r.walState = rd.HardState
	}
	if mustSync {
		r.nFlushed = len(r.recs)
	}
	if r.nFlushed == len(r.recs) {
		r.promised = false
	}
}

// ---- network ---------------------------------------------------------------

func (s *sim) send(from *replica, msgs []pb.Message) {
	ms := make([]pb.Message, 0, len(msgs))
	for _, m := range msgs {
		if m.To == 0 {
			continue
		}
		ms = append(ms, m)
	}
	// raft iterates Go maps when broadcasting: canonical order before the
	// tape looks at anything
	sort.SliceStable(ms, func(i, j int) bool { return ms[i].To < ms[j].To })
	for _, m := range ms {
		m.Entries = append([]pb.Entry(nil), m.Entries...)
		for i := range m.Entries {
			m.Entries[i].Data = append([]byte(nil), m.Entries[i].Data...)
		}
		s.observeSent(from, &m)
		s.net = append(s.net, flight{m: m})
		s.c.Log("send", "%d->%d %v t=%d i=%d lt=%d c=%d n=%d rej=%v s=%d", m.From, m.To, m.Type, m.Term, m.Index, m.LogTerm, m.Commit, len(m.Entries), m.Reject, m.Snapshot.Metadata.Index)
	}
}

func (s *sim) observeSent(from *replica, m *pb.Message) {
	switch m.Type {
	case pb.MsgVoteResp:
		if !m.Reject {
			k := [2]uint64{m.From, m.Term}
			if prev, ok := s.votes[k]; ok && prev != m.To {
				s.v("C01", "double-vote", "replica %d granted its vote in term %d to %d and to %d", m.From, m.Term, prev, m.To)
			}
			s.votes[k] = m.To
			if from.genLearn {
				s.v("C01", "learner-vote", "learner %d granted a vote in term %d to %d", m.From, m.Term, m.To)
			}
		}
	case pb.MsgPreVoteResp:
		if !m.Reject && from.genLearn {
			s.v("C01", "learner-vote", "learner %d granted a pre-vote (term %d) to %d", m.From, m.Term, m.To)
		}
	case pb.MsgVote, pb.MsgPreVote:
		if from.genLearn {
			s.v("C01", "learner-campaign", "learner %d sent %v term %d", m.From, m.Type, m.Term)
		}
	case pb.MsgApp, pb.MsgHeartbeat, pb.MsgSnap, pb.MsgTimeoutNow:
		s.actsAsLeader(from, m.Term, m.Type.String())
	}
}

func (s *sim) actsAsLeader(r *replica, term uint64, how string) {
	if term == 0 {
		return
	}
	if prev, ok := s.leaderOf[term]; ok && prev != r.id {
		s.v("C01", "two-leaders", "replicas %d and %d both acted as leader in term %d (%s)", prev, r.id, term, how)
		return
	}
	if _, ok := s.leaderOf[term]; !ok {
		s.leaderOf[term] = r.id
		s.leaderChanges++
		if len(s.net) > 0 {
			s.c.Probe("leader_change_with_traffic")
		}
	}
	if r.genLearn {
		s.v("C01", "learner-leads", "learner %d acted as leader in term %d (%s)", r.id, term, how)
	}
}

// ---- the Ready loop, as node/raft.go processReady -------------------------------

func (s *sim) process(r *replica) {
	for iter := 0; iter < 64 && r.up && !s.dead; iter++ {
		more, busy := true, false
		if s.faultsOn && s.t.Bool(s.cfg.backPressPm) {
			more = s.t.Bool(500)
			busy = !more || s.t.Bool(300)
			s.c.Fault("back_pressure")
		}
		if r.removing > 0 {
			// its apply loop is blocked for good: nothing more is handed out
			more = false
		}
		var rd raft.Ready
		var has bool
		if !s.guard(r, "StepNode", func() { rd, has = r.n.StepNode(more, busy) }) {
			return
		}
		if !has {
			r.pending = !more
			return
		}
		s.handleReady(r, &rd)
		if !rd.MoreCommittedEntries && iter > 0 {
			// one more round picks up effects of conf changes
		}
	}
}

func (s *sim) handleReady(r *replica, rd *raft.Ready) {
	c := s.c
	// messages of a Ready are generated inside StepNode, before the Ready's
	// committed entries are applied: judge them by the configuration the
	// replica had applied at that time
	r.genLearn = r.selfLearn
	newLeader := false
	if !raft.IsEmptyHardState(rd.HardState) {
		if rd.HardState.Term < r.curHS.Term {
			s.v("C01", "term-regress", "replica %d hard state term %d -> %d", r.id, r.curHS.Term, rd.HardState.Term)
		}
		if rd.HardState.Term == r.curHS.Term && r.curHS.Vote != 0 && rd.HardState.Vote != r.curHS.Vote {
			s.v("C01", "vote-changed", "replica %d changed vote in term %d from %d to %d", r.id, rd.HardState.Term, r.curHS.Vote, rd.HardState.Vote)
		}
		if rd.HardState.Commit < r.curHS.Commit {
			s.v("C03", "commit-regress", "replica %d commit %d -> %d", r.id, r.curHS.Commit, rd.HardState.Commit)
		}
		r.curHS = rd.HardState
		c.Log("hs", "r%d %v", r.id, rd.HardState)
	}
	if rd.SoftState != nil {
		r.state = rd.SoftState.RaftState
		c.Log("soft", "r%d %v lead=%d term=%d", r.id, rd.SoftState.RaftState, rd.SoftState.Lead, r.curHS.Term)
		switch rd.SoftState.RaftState {
		case raft.StateLeader:
			newLeader = true
			if r.cursor < uint64(s.cfg.nInit) && s.poison == "" {
				// ground truth for known finding "bootstrap-prefix-leader": the
				// replica lost its bootstrap entries (crash before the first
				// persist), was re-fed them one message at a time and elected itself
				// on a proper prefix of the bootstrap configuration
				s.poison = "bootstrap-prefix-leader"
				s.c.Probe("bootstrap_prefix_leader")
				s.c.Log("poison", "r%d leads with cursor %d < %d", r.id, r.cursor, s.cfg.nInit)
			}
			s.actsAsLeader(r, r.curHS.Term, "SoftState")
		case raft.StateCandidate, raft.StatePreCandidate:
			if r.selfLearn {
				s.v("C01", "learner-campaign", "learner %d became %v", r.id, rd.SoftState.RaftState)
			}
		}
	}
	msgs := processMessages(rd.Messages)
	// node/raft.go: a Ready whose commit index covers its own unstable entries
	// (single-voter leader) is persisted before anything is sent or applied
	if r.voteOnly {
		r.voteOnly = false
		s.c.Probe("vote_only_hard_state_change")
	}
	persistFirst := s.cfg.prodOrder && raft.IsEmptySnap(rd.Snapshot) && shouldPersistFirst(rd)
	if persistFirst {
		s.c.Probe("persist_first")
		if s.subCrash(r, "before_persist") {
			return
		}
		r.persist(rd)
		if s.subCrash(r, "after_persist") {
			return
		}
	}
	if newLeader && s.cfg.prodOrder {
		s.send(r, msgs)
		if s.subCrash(r, "after_leader_send") {
			return
		}
	}
	if !persistFirst {
		if s.subCrash(r, "before_persist") {
			return
		}
		r.persist(rd)
		if s.subCrash(r, "after_persist") {
			return
		}
	}
	if !raft.IsEmptySnap(rd.Snapshot) {
		// node/raft.go forces a WAL sync after a Ready with a snapshot was
		// persisted (etcd issue 10219)
		r.nFlushed = len(r.recs)
		r.st.ApplySnapshot(rd.Snapshot)
	}
	r.st.Append(rd.Entries)
	// commit bookkeeping (C03): identity of everything this replica reports committed
	s.noteCommitted(r, rd)
	if newLeader {
		s.checkLeaderHasCommitted(r)
	}
	// apply
	s.apply(r, rd, newLeader)
	if s.dead || !r.up {
		return
	}
	if !(newLeader && s.cfg.prodOrder) {
		s.send(r, msgs)
	}
	if s.subCrash(r, "before_advance") {
		return
	}
	s.guard(r, "Advance", func() { r.n.Advance(*rd) })
}

// shouldPersistFirst mirrors node/raft.go.
func shouldPersistFirst(rd *raft.Ready) bool {
	if len(rd.Entries) == 0 {
		return false
	}
	first := rd.Entries[0].Index
	if !raft.IsEmptyHardState(rd.HardState) && rd.HardState.Commit >= first {
		return true
	}
	if n := len(rd.CommittedEntries); n > 0 && rd.CommittedEntries[n-1].Index >= first {
		return true
	}
	return false
}

// processMessages mirrors node/raft.go: only the last MsgAppResp of a Ready is sent.
func processMessages(msgs []pb.Message) []pb.Message {
	out := append([]pb.Message(nil), msgs...)
	sentAppResp := false
	for i := len(out) - 1; i >= 0; i-- {
		if out[i].Type == pb.MsgAppResp {
			if sentAppResp {
				out[i].To = 0
			} else {
				sentAppResp = true
			}
		}
	}
	return out
}

func (s *sim) subCrash(r *replica, where string) bool {
	if !s.faultsOn {
		return false
	}
	pm := s.cfg.subCrashPm
	if where == "before_advance" && r.nFlushed < len(r.recs) {
		// a crash is most interesting while something volatile is in flight
		pm += s.cfg.tailCrashPm
		if r.promised {
			// ... most of all when it is something the messages just sent rely on
			s.c.Probe("promise_sent_before_flush")
			pm += 400
		}
	}
	if pm == 0 {
		return false
	}
	if s.t.Bool(pm) {
		s.crash(r, where)
		return true
	}
	return false
}

func (s *sim) entryAt(r *replica, i uint64) (pb.Entry, bool) {
	fi, _ := r.st.FirstIndex()
	li, _ := r.st.LastIndex()
	if i < fi || i > li {
		return pb.Entry{}, false
	}
	es, err := r.st.Entries(i, i+1, 1<<30)
	if err != nil || len(es) != 1 {
		return pb.Entry{}, false
	}
	return es[0], true
}

func (s *sim) noteCommitted(r *replica, rd *raft.Ready) {
	if raft.IsEmptyHardState(rd.HardState) {
		return
	}
	cm := rd.HardState.Commit
	lo := cm
	// walk down until an index already recorded with the same identity
	for i := cm; i >= 1; i-- {
		e, ok := s.entryAt(r, i)
		if !ok {
			break
		}
		id := idOf(&e)
		if prev, ok := s.committed[i]; ok {
			if prev != id {
				s.v("C03", "committed-replaced", "index %d was reported committed as term %d, replica %d now reports term %d committed there", i, prev.term, r.id, id.term)
			}
			break
		}
		s.committed[i] = id
		s.commitTerm[i] = rd.HardState.Term
		lo = i
	}
	_ = lo
	if cm > s.maxCommit {
		s.maxCommit = cm
	}
}

func (s *sim) checkLeaderHasCommitted(r *replica) {
	fi, _ := r.st.FirstIndex()
	li, _ := r.st.LastIndex()
	// leader completeness is a statement by term: the leader of term L holds what
	// was committed in terms below L. A replica that wins an old term late (its
	// votes were delayed) after a newer leader committed more is a legitimate
	// stale leader; it cannot commit anything.
	L := r.curHS.Term
	n := 0
	for i := s.maxCommit; i >= fi && i >= 1 && n < 400; i-- {
		want, ok := s.committed[i]
		if !ok {
			continue
		}
		if s.commitTerm[i] >= L {
			s.c.Probe("stale_term_leader")
			continue
		}
		if i > li {
			s.v("C03", "leader-missing-committed", "replica %d became leader in term %d with last index %d < index %d committed in a term <= %d", r.id, L, li, i, s.commitTerm[i])
			return
		}
		n++
		e, ok2 := s.entryAt(r, i)
		if !ok2 {
			continue
		}
		if idOf(&e) != want {
			s.v("C03", "leader-missing-committed", "replica %d became leader in term %d but holds term %d at committed index %d (committed term %d)", r.id, r.curHS.Term, e.Term, i, want.term)
			return
		}
	}
}

func (s *sim) apply(r *replica, rd *raft.Ready, newLeader bool) {
	c := s.c
	if !raft.IsEmptySnap(rd.Snapshot) {
		si := rd.Snapshot.Metadata.Index
		if si < r.cursor {
			s.v("C02", "snapshot-backwards", "replica %d at applied %d was handed snapshot %d", r.id, r.cursor, si)
		}
		if want, ok := s.applied[si]; ok && want.term != rd.Snapshot.Metadata.Term {
			s.v("C02", "snapshot-term", "replica %d snapshot at %d has term %d, applied entry there has term %d", r.id, si, rd.Snapshot.Metadata.Term, want.term)
		}
		r.cursor = si
		r.confState = rd.Snapshot.Metadata.ConfState
		r.selfLearn, r.selfVoter = false, false
		for _, id := range r.confState.Learners {
			if id == r.id {
				r.selfLearn = true
			}
		}
		for _, id := range r.confState.Nodes {
			if id == r.id {
				r.selfVoter = true
			}
		}
		c.Probe("snapshot_installed")
		c.Log("apply-snap", "r%d idx=%d term=%d", r.id, si, rd.Snapshot.Metadata.Term)
	}
	nconf := 0
	for i := range rd.CommittedEntries {
		if rd.CommittedEntries[i].Type == pb.EntryConfChange {
			nconf++
		}
	}
	for i := range rd.CommittedEntries {
		e := &rd.CommittedEntries[i]
		if e.Index != r.cursor+1 {
			if e.Index <= r.cursor {
				s.v("C02", "apply-order", "replica %d handed index %d again/backwards (cursor %d)", r.id, e.Index, r.cursor)
			} else {
				s.v("C02", "apply-gap", "replica %d handed index %d after %d", r.id, e.Index, r.cursor)
			}
		}
		id := idOf(e)
		if prev, ok := s.applied[e.Index]; ok {
			if prev != id {
				s.v("C02", "apply-mismatch", "index %d applied as term %d, replica %d applies term %d (type %v/%v)", e.Index, prev.term, r.id, e.Term, prev.typ, e.Type)
			}
		} else {
			s.applied[e.Index] = id
		}
		if prev, ok := s.committed[e.Index]; ok && prev != id {
			s.v("C03", "committed-replaced", "index %d reported committed as term %d but replica %d applies term %d", e.Index, prev.term, r.id, e.Term)
		}
		r.cursor = e.Index
		if e.Index > r.maxApplied {
			r.maxApplied = e.Index
		}
		if e.Type == pb.EntryConfChange {
			var cc pb.ConfChange
			cc.Unmarshal(e.Data)
			s.applyConf(r, cc, e.Index, newLeader && nconf == 1 && s.t.Bool(300))
			if s.dead || !r.up {
				return
			}
			if r.removing > 0 {
				// the apply loop blocks here for good; later entries of this
				// Ready are never applied by this incarnation
				return
			}
		}
	}
	if len(rd.CommittedEntries) > 0 {
		c.Log("apply", "r%d %d..%d", r.id, rd.CommittedEntries[0].Index, r.cursor)
	}
}

func (s *sim) applyConf(r *replica, cc pb.ConfChange, index uint64, deferIt bool) {
	done := make(chan struct{})
	var cs *pb.ConfState
	go func() { cs = r.n.ApplyConfChange(cc); close(done) }()
	for len(r.n.ConfChangedCh()) == 0 {
		runtime.Gosched()
	}
	// production: a non-leader handles the change synchronously before it
	// sends this Ready's messages; the Ready of a fresh leader lets the apply
	// loop hand it over to the next StepNode.
	_ = deferIt
	cce := <-r.n.ConfChangedCh()
	if !s.guard(r, "HandleConfChanged", func() { r.n.HandleConfChanged(cce) }) {
		r.n.Stop()
		<-done
		return
	}
	<-done
	r.confState = *cs
	r.selfLearn, r.selfVoter = false, false
	for _, id := range cs.Learners {
		if id == r.id {
			r.selfLearn = true
		}
	}
	for _, id := range cs.Nodes {
		if id == r.id {
			r.selfVoter = true
		}
	}
	s.confApplied++
	if index > s.lastConfIdx {
		s.lastConfIdx = index
		s.lastConf = *cs
	}
	s.c.Log("conf", "r%d idx=%d %v id=%d -> voters=%v learners=%v", r.id, index, cc.Type, cc.ReplicaID, cs.Nodes, cs.Learners)
	switch cc.Type {
	case pb.ConfChangeAddNode, pb.ConfChangeAddLearnerNode:
		// the placement driver starts the new replica once the change is decided
		nr := s.rs[cc.ReplicaID-1]
		if !nr.started && !nr.gone {
			s.startFresh(nr, nil, cc.Type == pb.ConfChangeAddLearnerNode)
			s.c.Log("join", "r%d learner=%v", nr.id, nr.learner)
			s.c.Probe("member_added")
		}
	case pb.ConfChangeRemoveNode:
		s.removedIDs[cc.ReplicaID] = true
		s.c.Probe("member_removed")
		if cc.ReplicaID == r.id {
			r.removing = 10
		}
	}
}
