package raftsim

import (
	"context"
	"fmt"

	"github.com/youzan/ZanRedisDB/raft"
	pb "github.com/youzan/ZanRedisDB/raft/raftpb"

	"verif/sim/core"
)

var Engine = core.Engine{Name: "raftsim", Run: Run}

func pick(t *core.Tape, vals ...int) int { return vals[t.Choose(len(vals))] }

func drawCfg(c *core.RunCtx) cfg {
	t := c.Tape
	var g cfg
	g.nUniverse = 5
	g.nInit = pick(t, 3, 3, 3, 5, 1, 2, 4)
	g.preVote = t.Choose(4) != 0
	g.checkQuorum = g.preVote
	if t.Choose(8) == 0 {
		g.checkQuorum = !g.checkQuorum
	}
	g.prodOrder = t.Choose(3) != 0
	g.maxSizeMsg = uint64(pick(t, 1<<20, 1<<20, 0, 64, 256))
	g.maxCommSize = uint64(pick(t, 1<<20, 1<<20, 1, 100))
	g.inflight = pick(t, 16, 4, 1, 256)
	g.events = 2500
	if c.Tier == "thorough" {
		g.events = pick(t, 2500, 5000, 8000)
	}
	g.dropPm = pick(t, 0, 20, 50, 150, 300)
	g.dupPm = pick(t, 0, 0, 30, 100)
	g.wTick = pick(t, 200, 300, 400)
	g.wDeliver = pick(t, 400, 500, 600)
	g.wPropose = pick(t, 50, 100, 150)
	g.wConf = pick(t, 0, 5, 10, 30)
	g.wCrash = pick(t, 0, 2, 4, 8)
	g.wRestart = pick(t, 10, 30)
	g.wPart = pick(t, 0, 2, 4, 8)
	g.wHeal = pick(t, 4, 10)
	g.wCompact = pick(t, 0, 5, 15)
	g.wTransfer = pick(t, 0, 0, 3)
	g.wCampaign = pick(t, 0, 0, 3)
	g.wStall = pick(t, 0, 2)
	g.wPoke = 20
	g.subCrashPm = pick(t, 0, 1, 2, 4)
	g.tailCrashPm = pick(t, 0, 0, 30, 150)
	g.backPressPm = pick(t, 0, 0, 50, 200)
	g.template = pick(t, 0, 0, 1, 2)
	// production's raft loop finds several queued messages/ticks per StepNode:
	// sometimes an input is only queued and the node is stepped later
	g.lazyProcPm = pick(t, 0, 100, 300, 600)
	if c.Prop == "C01" && g.wConf == 0 && t.Choose(2) == 0 {
		g.wConf = 10
	}
	return g
}

func Run(c *core.RunCtx) {
	t := c.Tape
	s := &sim{c: c, t: t, blocked: map[[2]uint64]bool{}, leaderOf: map[uint64]uint64{}, votes: map[[2]uint64]uint64{},
		applied: map[uint64]entID{}, committed: map[uint64]entID{}, commitTerm: map[uint64]uint64{}, removedIDs: map[uint64]bool{}, maybeRemoved: map[uint64]bool{}}
	s.cfg = drawCfg(c)
	g := s.cfg
	raft.VerifSeedGlobalRand(int64(t.U32()))
	c.Log("cfg", "%+v", g)
	var peers []raft.Peer
	for i := 1; i <= g.nInit; i++ {
		peers = append(peers, raft.Peer{NodeID: uint64(i), ReplicaID: uint64(i)})
	}
	for i := 1; i <= g.nUniverse; i++ {
		s.rs = append(s.rs, &replica{id: uint64(i)})
	}
	for i := 0; i < g.nInit; i++ {
		s.startFresh(s.rs[i], peers, false)
	}
	s.faultsOn = true
	for i := 0; i < g.nInit; i++ {
		s.process(s.rs[i])
	}
	w := []int{g.wTick, g.wDeliver, g.wPropose, g.wConf, g.wCrash, g.wRestart, g.wPart, g.wHeal, g.wCompact, g.wTransfer, g.wCampaign, g.wStall, g.wPoke}
	ev := 0
	var tmpl *template
	if g.template != 0 {
		tmpl = newTemplate(s, g.template)
	}
	for ; ev < g.events && !s.dead && len(c.Viol) == 0; ev++ {
		if tmpl != nil && tmpl.step() {
			continue
		}
		if s.hot != nil {
			// a replica just crashed while the messages it had sent relied on
			// something its log had not flushed, and lost it: bring it back at
			// once and hand it what is already in flight to it (what it promised
			// in its former life is tested best by whoever asks it next)
			if s.hotStep() {
				continue
			}
			s.hot = nil
		}
		s.event(t.Weighted(w))
	}
	c.Events = int64(ev)
	c.SimMs = int64(ev) * 10
	if !s.dead && len(c.Viol) == 0 {
		s.tail()
	}
	for _, r := range s.rs {
		if r.up && r.n != nil {
			r.n.Stop()
			if r.deferred != nil {
				<-r.deferred
			}
		}
	}
	// non-trivial: a leader was elected at least twice (or a crash/partition
	// hit) and entries were applied
	nf := c.Stats["fault.drop"] + c.Stats["fault.partition"] + c.Stats["fault.crash_event"] + c.Stats["fault.dup"]
	c.NonTrivial = len(s.applied) > 3 && s.leaderChanges >= 2 && nf > 0
	c.Count("leader_terms", int64(len(s.leaderOf)))
	c.Count("applied_indexes", int64(len(s.applied)))
	c.Count("conf_applied", int64(s.confApplied))
	c.Sample = map[string]interface{}{
		"config":       fmt.Sprintf("%+v", g),
		"events":       ev,
		"leader_terms": len(s.leaderOf),
		"applied":      len(s.applied),
		"max_commit":   s.maxCommit,
		"conf_changes": s.confApplied,
		"faults":       faultSummary(c),
	}
}

func faultSummary(c *core.RunCtx) map[string]int64 {
	m := map[string]int64{}
	for _, k := range core.SortedKeys(c.Stats) {
		if len(k) > 6 && k[:6] == "fault." {
			m[k[6:]] = c.Stats[k]
		}
	}
	return m
}

func (s *sim) ups() []*replica {
	var out []*replica
	for _, r := range s.rs {
		if r.up {
			out = append(out, r)
		}
	}
	return out
}

func (s *sim) pickUp() *replica {
	u := s.ups()
	if len(u) == 0 {
		return nil
	}
	return u[s.t.Choose(len(u))]
}

func (s *sim) leader() *replica {
	for _, r := range s.rs {
		if r.up && r.state == raft.StateLeader {
			return r
		}
	}
	return nil
}

func (s *sim) event(kind int) {
	t, c := s.t, s.c
	switch kind {
	case 0: // tick
		r := s.pickUp()
		if r == nil || r.stall {
			return
		}
		c.Log("tick", "r%d", r.id)
		if r.removing == 0 && t.Bool(s.cfg.lazyProcPm/2) {
			r.n.Tick()
			r.pending = true
		} else {
			s.tickOf(r)
		}
	case 1: // deliver
		s.deliverOne(true)
	case 2: // propose
		r := s.pickUp()
		if r == nil {
			return
		}
		s.nprop++
		data := []byte(fmt.Sprintf("p%d", s.nprop))
		ctx, cancel := context.WithCancel(context.Background())
		c.Log("propose", "r%d %s", r.id, data)
		r.n.ProposeWithDrop(ctx, data, cancel)
		cancel()
		s.process(r)
	case 3: // conf change proposal
		s.proposeConf()
	case 4: // crash at a step boundary
		r := s.pickUp()
		if r == nil {
			return
		}
		c.Fault("crash_event")
		if l := s.leader(); l != nil && t.Bool(400) {
			r = l
			c.Probe("crash_leader")
		}
		s.crash(r, "boundary")
	case 5: // restart
		var down []*replica
		for _, r := range s.rs {
			if !r.up && r.started && !r.gone {
				down = append(down, r)
			}
		}
		if len(down) == 0 {
			return
		}
		s.restart(down[t.Choose(len(down))])
	case 6: // partition: isolate one replica or split
		r := s.pickUp()
		if r == nil {
			return
		}
		if l := s.leader(); l != nil && t.Bool(500) {
			r = l
		}
		oneway := t.Bool(200)
		for _, o := range s.rs {
			if o.id != r.id {
				s.blocked[[2]uint64{r.id, o.id}] = true
				if !oneway {
					s.blocked[[2]uint64{o.id, r.id}] = true
				}
			}
		}
		c.Fault("partition")
		c.Log("partition", "r%d oneway=%v", r.id, oneway)
	case 7: // heal
		if len(s.blocked) > 0 {
			s.blocked = map[[2]uint64]bool{}
			c.Fault("heal")
			c.Log("heal", "")
		}
	case 8: // snapshot + compaction on a replica
		r := s.pickUp()
		if r == nil {
			return
		}
		s.compact(r)
	case 9: // leader transfer
		l := s.leader()
		if l == nil {
			return
		}
		to := s.pickUp()
		if to == nil || to.id == l.id {
			return
		}
		c.Fault("leader_transfer")
		c.Log("transfer", "r%d -> r%d", l.id, to.id)
		l.n.TransferLeadership(context.Background(), l.id, to.id)
		s.process(l)
	case 10: // campaign
		r := s.pickUp()
		if r == nil {
			return
		}
		c.Log("campaign", "r%d", r.id)
		r.n.Campaign(context.Background())
		s.process(r)
	case 11: // tick stall toggle
		r := s.pickUp()
		if r == nil {
			return
		}
		r.stall = !r.stall
		if r.stall {
			c.Fault("tick_stall")
		}
		c.Log("stall", "r%d %v", r.id, r.stall)
	case 12: // poke a replica that may have pending hand-outs
		r := s.pickUp()
		if r == nil {
			return
		}
		s.process(r)
	}
}

func (s *sim) deliverOne(faults bool) {
	if len(s.net) == 0 {
		return
	}
	t, c := s.t, s.c
	k := 0
	if faults {
		// mostly near-FIFO, sometimes arbitrary reordering
		if t.Bool(300) {
			k = t.Choose(len(s.net))
			if k > 0 {
				c.Fault("reorder")
			}
		} else {
			k = t.Choose(min(len(s.net), 3))
		}
	}
	s.deliverIdx(k, faults)
}

// deliverIdx handles the k-th message in flight (delivery, duplication, loss).
func (s *sim) deliverIdx(k int, faults bool) {
	t, c := s.t, s.c
	f := s.net[k]
	m := f.m
	dupKeep := false
	if faults && !f.dup && t.Bool(s.cfg.dupPm) {
		dupKeep = true
	}
	if dupKeep {
		s.net[k].dup = true
		// move the duplicate to a random later place (stale re-delivery)
		c.Fault("dup")
	} else {
		s.net = append(s.net[:k], s.net[k+1:]...)
	}
	to := s.rs[m.To-1]
	from := s.rs[m.From-1]
	dropped := false
	switch {
	case !to.up:
		dropped = true
		c.Count("to_down", 1)
	case s.blocked[[2]uint64{m.From, m.To}]:
		dropped = true
		c.Fault("partition_drop")
	case faults && t.Bool(s.cfg.dropPm):
		dropped = true
		c.Fault("drop")
	}
	if dropped {
		c.Log("drop", "%d->%d %v t=%d i=%d", m.From, m.To, m.Type, m.Term, m.Index)
		if m.Type == pb.MsgSnap && from.up && !f.dup {
			from.n.ReportSnapshot(m.To, s.group(m.To), raft.SnapshotFailure)
			s.process(from)
		} else if from.up && faults && t.Bool(100) {
			from.n.ReportUnreachable(m.To, s.group(m.To))
			s.process(from)
		}
		return
	}
	c.Log("deliver", "%d->%d %v t=%d i=%d lt=%d c=%d n=%d rej=%v", m.From, m.To, m.Type, m.Term, m.Index, m.LogTerm, m.Commit, len(m.Entries), m.Reject)
	mc := m
	mc.Entries = append([]pb.Entry(nil), m.Entries...)
	to.n.Step(context.Background(), mc)
	if faults && t.Bool(s.cfg.lazyProcPm) {
		to.pending = true
		c.Probe("input_queued_without_step")
	} else {
		s.process(to)
	}
	if m.Type == pb.MsgSnap && from.up && !f.dup {
		st := raft.SnapshotFinish
		if faults && t.Bool(100) {
			st = raft.SnapshotFailure
		}
		from.n.ReportSnapshot(m.To, s.group(m.To), st)
		s.process(from)
	}
}

func (s *sim) proposeConf() {
	t, c := s.t, s.c
	r := s.pickUp()
	if r == nil {
		return
	}
	// current membership as far as anyone has applied it
	voters, learners := s.lastConf.Nodes, s.lastConf.Learners
	var spare []uint64
	for _, x := range s.rs {
		if !x.started && !x.gone && !s.removedIDs[x.id] {
			inConf := false
			for _, v := range append(append([]uint64{}, voters...), learners...) {
				if v == x.id {
					inConf = true
				}
			}
			if !inConf {
				spare = append(spare, x.id)
			}
		}
	}
	var cc pb.ConfChange
	switch t.Choose(4) {
	case 0: // add voter
		if len(spare) == 0 {
			return
		}
		cc = pb.ConfChange{Type: pb.ConfChangeAddNode, ReplicaID: spare[t.Choose(len(spare))]}
	case 1: // add learner
		if len(spare) == 0 {
			return
		}
		cc = pb.ConfChange{Type: pb.ConfChangeAddLearnerNode, ReplicaID: spare[t.Choose(len(spare))]}
	case 2: // promote
		if len(learners) == 0 {
			return
		}
		cc = pb.ConfChange{Type: pb.ConfChangeAddNode, ReplicaID: learners[t.Choose(len(learners))]}
		// operators promote a learner only once it has caught up
		if lr := s.rs[cc.ReplicaID-1]; !lr.up || lr.cursor < s.lastConfIdx {
			return
		}
	case 3: // remove
		all := append(append([]uint64{}, voters...), learners...)
		if len(all) <= 1 {
			return
		}
		cc = pb.ConfChange{Type: pb.ConfChangeRemoveNode, ReplicaID: all[t.Choose(len(all))]}
		// the placement driver never removes the last voter of a group; count
		// every removal ever proposed as possibly still in flight
		left := 0
		for _, v := range voters {
			if v != cc.ReplicaID && !s.maybeRemoved[v] {
				left++
			}
		}
		if left < 1 {
			return
		}
		s.maybeRemoved[cc.ReplicaID] = true
	}
	cc.NodeGroup = s.group(cc.ReplicaID)
	c.Log("propose-conf", "r%d %v id=%d", r.id, cc.Type, cc.ReplicaID)
	c.Probe("conf_proposed")
	r.n.ProposeConfChange(context.Background(), cc)
	s.process(r)
}

func (s *sim) compact(r *replica) {
	fi, _ := r.st.FirstIndex()
	if r.cursor < fi+1 {
		return
	}
	cs := r.confState
	snap, err := r.st.CreateSnapshot(r.cursor, &cs, []byte("snap"))
	if err != nil {
		return
	}
	keep := uint64(s.t.Choose(4))
	ci := r.cursor
	if ci > keep {
		ci -= keep
	}
	if ci > fi {
		r.st.Compact(ci)
	}
	// durable: snapshot file + WAL marker (production: beginSnapshot / SaveSnap)
	r.saveSnap(snap)
	s.c.Fault("compact")
	s.c.Log("compact", "r%d snap=%d compact=%d", r.id, r.cursor, ci)
}

// tail is the fault-free phase: everything is healed and restarted, delivery is
// reliable and fair; every member must apply everything reported committed.
func (s *sim) tail() {
	c := s.c
	s.faultsOn = false
	s.blocked = map[[2]uint64]bool{}
	c.Log("tail", "begin maxCommit=%d", s.maxCommit)
	for _, r := range s.rs {
		r.stall = false
		if !r.up && r.started && !r.gone {
			s.restart(r)
		}
	}
	// replicas that are not part of the newest applied configuration are
	// shut down, as the placement driver does
	target := s.maxCommit
	member := func(r *replica) bool {
		if !r.up {
			return false
		}
		for _, id := range s.lastConf.Nodes {
			if id == r.id {
				return true
			}
		}
		for _, id := range s.lastConf.Learners {
			if id == r.id {
				return true
			}
		}
		return false
	}
	done := func() bool {
		// membership may still change while the backlog is applied
		for _, r := range s.rs {
			if member(r) && r.cursor < target {
				return false
			}
		}
		return true
	}
	budget := 600
	round := 0
	for ; round < budget && !s.dead && len(c.Viol) == 0; round++ {
		if round > 30 && done() {
			break
		}
		for _, r := range s.rs {
			if r.up && (member(r) || round < 20 || r.removing > 0) {
				s.tickOf(r)
			} else if r.up && round >= 20 && s.lastConfIdx > 0 && !member(r) && r.cursor >= s.lastConfIdx {
				// knows it is out: stopped
			}
		}
		for n := 0; n < 10000 && len(s.net) > 0 && !s.dead; n++ {
			s.deliverOne(false)
		}
	}
	c.Events += int64(round)
	c.SimMs += int64(round) * 100
	if s.dead || len(c.Viol) > 0 {
		return
	}
	if !done() {
		// exclusion: no electable majority of the newest configuration is a
		// harness-made dead end, not a liveness failure
		voters := 0
		upVoters := 0
		for _, id := range s.lastConf.Nodes {
			voters++
			if s.rs[id-1].up {
				upVoters++
			}
		}
		if upVoters*2 <= voters {
			c.Count("tail_no_majority", 1)
			return
		}
		// same exclusion from the point of view of the replicas that are behind:
		// the configuration a lagging replica has applied may need votes of
		// replicas that were removed and destroyed meanwhile
		for _, r := range s.rs {
			if member(r) && r.cursor < target {
				v, u := 0, 0
				for _, id := range r.confState.Nodes {
					v++
					if s.rs[id-1].up {
						u++
					}
				}
				if u*2 <= v {
					c.Count("tail_no_majority_in_own_view", 1)
					return
				}
			}
		}
		// ground truth for known finding "promoted-learner-unaware": a voter of
		// the newest configuration still believes it is a learner (or not a
		// member) and therefore ignores vote requests, and the voters that do
		// know are no majority
		aware := 0
		for _, id := range s.lastConf.Nodes {
			if x := s.rs[id-1]; x.up && x.selfVoter {
				aware++
			}
		}
		if aware*2 <= voters && s.poison == "" {
			s.poison = "promoted-learner-unaware"
		}
		// the same from the point of view of a replica that is behind: the
		// configuration it has applied has enough live voters, but too few of
		// them know that they are voters
		for _, r := range s.rs {
			if member(r) && r.cursor < target && s.poison == "" {
				v, a := 0, 0
				for _, id := range r.confState.Nodes {
					v++
					if x := s.rs[id-1]; x.up && x.selfVoter {
						a++
					}
				}
				if a*2 <= v {
					s.poison = "promoted-learner-unaware"
				}
			}
		}
		// ground truth for known finding "learner-restart-before-own-add": the
		// only replicas that are behind are learners of the newest configuration
		// that restarted from a snapshot older than their own addition; they do
		// not know they are learners (RestartNode forgets the role) and refuse
		// every newer snapshot ("can't become learner when restores snapshot")
		if s.poison == "" {
			only := true
			any := false
			for _, r := range s.rs {
				if member(r) && r.cursor < target {
					any = true
					// joined as learner, restarted, and its own applied configuration
					// does not contain it at all
					if !(r.learner && !r.selfLearn && !r.selfVoter && r.incarn > 1) {
						only = false
					}
				}
			}
			if any && only {
				s.poison = "learner-restart-before-own-add"
			}
		}
		st := ""
		for _, r := range s.rs {
			st += fmt.Sprintf(" r%d(up=%v,member=%v,cursor=%d,state=%v,term=%d)", r.id, r.up, member(r), r.cursor, r.state, r.curHS.Term)
		}
		s.v("C03", "tail-not-applied", "after %d fault-free rounds not every member applied up to committed index %d:%s conf=%v/%v", round, target, st, s.lastConf.Nodes, s.lastConf.Learners)
	} else {
		c.Count("tail_rounds", int64(round))
	}
}

// hotStep is one step of the directed continuation after a crash that lost a
// promise (see sim.crash); false when there is nothing left to do.
func (s *sim) hotStep() bool {
	r := s.hot
	if s.hotLeft <= 0 || r.gone {
		return false
	}
	s.hotLeft--
	if !r.up {
		s.restart(r)
		return true
	}
	var cand []int
	for k := range s.net {
		m := &s.net[k].m
		if m.To == r.id && !s.blocked[[2]uint64{m.From, m.To}] && s.rs[m.From-1] != r {
			cand = append(cand, k)
		}
	}
	if len(cand) == 0 {
		return false
	}
	s.c.Probe("in_flight_message_handed_to_replica_that_lost_a_promise")
	s.deliverIdx(cand[s.t.Choose(len(cand))], false)
	return true
}
