package raftsim

// template is a scripted schedule skeleton whose parameters come from the tape.
type template struct {
	s    *sim
	kind int
	pc   int
	wait int
	a, b, x *replica
	n    int
}

func newTemplate(s *sim, kind int) *template { return nil }

func (t *template) step() bool { return false }
