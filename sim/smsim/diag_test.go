package smsim

import (
	"fmt"
	"os"
	"strconv"
	"testing"
	"time"

	"verif/sim/core"
)

// TestDiagLeak is a debugging aid (SMSIM_DIAG_SEED=<run seed>): it applies the
// log of that run to one mem instance, one request per call, outside a bubble,
// and reports the first request after which a fresh write batch of the store
// cannot be committed within 300 ms (the shared write batch was left open).
func TestDiagLeak(t *testing.T) {
	sd := os.Getenv("SMSIM_DIAG_SEED")
	if sd == "" {
		t.Skip()
	}
	seed, _ := strconv.ParseUint(sd, 10, 64)
	c := core.NewRunCtx(t, "C07", "quick", core.NewTape(seed))
	quiet()
	s := &sim{c: c, t: c.Tape, hllKeys: map[string]bool{}}
	s.drawCfg()
	s.root = "/dev/shm/ag-smsim/diag"
	os.RemoveAll(s.root)
	os.MkdirAll(s.root, 0755)
	for i := 0; i < s.n; i++ {
		s.log = append(s.log, s.g.one(i))
	}
	in := s.ins[0]
	if os.Getenv("SMSIM_DIAG_SINGLE") != "" {
		in.cfg = instCfg{eng: "mem", maxReqPerEnt: 1, maxEntPerCall: 1, leaderPm: 1000}
	}
	in.cfg.eng = "mem"
	if !s.ensure(in) {
		t.Fatal(in.dead)
	}
	for i := 0; i < s.n; {
		var ents []entry
		pos := i
		for j, m := 0, 1+s.t.Choose(in.cfg.maxEntPerCall); j < m && pos < s.n; j++ {
			e := s.nextEntry(in, pos, s.n)
			ents = append(ents, e)
			pos = e.to
		}
		s.applyCall(in, ents, false)
		from := i
		i = pos
		done := make(chan struct{})
		go func() {
			in.st.SetTableHsetIndexValue([]byte("zz"), []byte("1"))
			close(done)
		}()
		select {
		case <-done:
		case <-time.After(300 * time.Millisecond):
			fmt.Fprintf(core.Stdout, "LEAK after call [%d,%d) entries %+v\n", from, pos, ents)
			for k := from; k < pos; k++ {
				fmt.Fprintf(core.Stdout, "  %d %s -> %s\n", k, s.log[k].String(), in.replies[k])
			}
			return
		}
	}
	fmt.Fprintf(core.Stdout, "no leak\n")
}

// TestDiagTwice (SMSIM_DIAG_SEED=<run seed>): executes one run twice in this
// process and prints the first trace lines that differ.
func TestDiagTwice(t *testing.T) {
	sd := os.Getenv("SMSIM_DIAG_SEED")
	if sd == "" {
		t.Skip()
	}
	seed, _ := strconv.ParseUint(sd, 10, 64)
	var tr [2][]string
	var lastHash uint64
	for i := 0; i < 2; i++ {
		c := core.NewRunCtx(t, "C07", "quick", core.NewTape(seed))
		c.KeepTrace = true
		Run(c)
		tr[i] = c.Trace
		lastHash = c.Hash()
	}
	n := 0
	for i := 0; i < len(tr[0]) && i < len(tr[1]); i++ {
		if tr[0][i] != tr[1][i] {
			fmt.Fprintf(core.Stdout, "line %d:\n  A %s\n  B %s\n", i, clip(tr[0][i]), clip(tr[1][i]))
			n++
			if n > 6 {
				break
			}
		}
	}
	fmt.Fprintf(core.Stdout, "lens %d %d, differing lines shown %d hash %016x\n", len(tr[0]), len(tr[1]), n, lastHash)
}

// TestDiagSelf (SMSIM_DIAG_CHECK=<check seed>,<runs>): the worker's self-test
// with traces: every run twice in this process, first differing lines printed.
func TestDiagSelf(t *testing.T) {
	sd := os.Getenv("SMSIM_DIAG_CHECK")
	if sd == "" {
		t.Skip()
	}
	var seed uint64
	var runs int64
	fmt.Sscanf(sd, "%d,%d", &seed, &runs)
	shown := 0
	from := int64(0)
	if f := os.Getenv("SMSIM_DIAG_FROM"); f != "" {
		from, _ = strconv.ParseInt(f, 10, 64)
	}
	for run := from; run < from+runs && shown < 3; run++ {
		var tr [2][]string
		for i := 0; i < 2; i++ {
			c := core.NewRunCtx(t, "C07", "quick", core.NewTape(core.RunSeed(seed, run)))
			c.KeepTrace = true
			Run(c)
			tr[i] = c.Trace
		}
		if os.Getenv("SMSIM_DIAG_EXTRA") != "" {
			// what the worker does on a violation: one more execution from the recorded tape
			c := core.NewRunCtx(t, "C07", "quick", core.NewTape(core.RunSeed(seed, run)))
			Run(c)
			if len(c.Viol) > 0 {
				c3 := core.NewRunCtx(t, "C07", "quick", core.ReplayTape(c.Tape.Values()))
				c3.KeepTrace = true
				Run(c3)
			}
		}
		n := 0
		if len(tr[0]) != len(tr[1]) {
			fmt.Fprintf(core.Stdout, "run %d lens differ %d %d\n", run, len(tr[0]), len(tr[1]))
			for x := 0; x < 2; x++ {
				for _, l := range tr[x][len(tr[x])-4:] {
					fmt.Fprintf(core.Stdout, "   tail %d: %s\n", x, clip(l))
				}
			}
		}
		for i := 0; i < len(tr[0]) && i < len(tr[1]); i++ {
			if tr[0][i] != tr[1][i] {
				if n == 0 {
					fmt.Fprintf(core.Stdout, "run %d (lens %d %d)\n", run, len(tr[0]), len(tr[1]))
					for _, l := range tr[0] {
						if len(l) > 3 && (l[:3] == "cfg" || l[:4] == "icfg") {
							fmt.Fprintf(core.Stdout, "  %s\n", clip(l))
						}
					}
					shown++
				}
				fmt.Fprintf(core.Stdout, " line %d:\n  A %s\n  B %s\n", i, clip(tr[0][i]), clip(tr[1][i]))
				n++
				if n > 4 {
					break
				}
			}
		}
	}
}
