package smsim

import (
	"github.com/youzan/ZanRedisDB/pkg/wait"
)

// recWait is the harness' pkg/wait.Wait: a registered id is "a client waiting
// on this replica" (the replica proposed the request: leader); Trigger hands
// the reply over exactly like the real implementation (first trigger wins and
// removes the registration; triggers for unknown ids are dropped).
type recWait struct {
	reg  map[uint64]bool
	got  map[uint64]interface{}
	has  map[uint64]bool
	ntri int
}

func newRecWait() *recWait {
	return &recWait{reg: map[uint64]bool{}, got: map[uint64]interface{}{}, has: map[uint64]bool{}}
}

type recResult struct {
	w  *recWait
	id uint64
	c  chan struct{}
}

func (r *recResult) GetResult() interface{} { return r.w.got[r.id] }
func (r *recResult) WaitC() <-chan struct{} { return r.c }

func (w *recWait) Register(id uint64) wait.WaitResult {
	w.reg[id] = true
	return &recResult{w: w, id: id, c: make(chan struct{}, 1)}
}

func (w *recWait) RegisterWithC(id uint64, done chan struct{}) wait.WaitResult {
	w.reg[id] = true
	return &recResult{w: w, id: id, c: done}
}

func (w *recWait) Trigger(id uint64, x interface{}) {
	w.ntri++
	if !w.reg[id] {
		return
	}
	delete(w.reg, id)
	if !w.has[id] {
		w.has[id] = true
		w.got[id] = x
	}
}

func (w *recWait) IsRegistered(id uint64) bool { return w.reg[id] }
