package smsim

import (
	"encoding/hex"
	"fmt"
	"sort"
	"strconv"
	"strings"
	"time"

	"github.com/youzan/ZanRedisDB/common"
	"github.com/youzan/ZanRedisDB/node"
	"github.com/youzan/ZanRedisDB/rockredis"
)

// A dump is a flat map item-name -> rendered value.
//
// Logical items (read through the store's read API, all instances at the same
// fake instant):
//
//	<class>|<table:key>|<what>        per key of the pools and per type
//	table|<table>|count               table key counter
//	scan|<class>|<table>              key listing per type
//	exp|<class>|<table:key>|<when>    raw expire record (local_deletion time keys)
//
// Physical items (full engine iterator):
//
//	phys|<hex key>                    hex value
type dump map[string]string

func es(err error) string {
	if err == nil {
		return ""
	}
	return "!" + err.Error()
}

func q(b []byte) string {
	if b == nil {
		return "nil"
	}
	return strconv.Quote(string(b))
}

var dtClass = map[byte]string{
	rockredis.KVType:     clKV,
	rockredis.HashType:   clHash,
	rockredis.ListType:   clList,
	rockredis.SetType:    clSet,
	rockredis.ZSetType:   clZSet,
	rockredis.BitmapType: clBit,
	rockredis.JSONType:   clJSON,
}

type expRec struct {
	class string
	key   string
	when  int64
}

// expireRecords lists the local-deletion time keys: 101 | when(8) | type | key.
func expireRecords(st *node.KVStore) []expRec {
	it, err := st.NewDBRangeIterator([]byte{rockredis.ExpTimeType}, []byte{rockredis.ExpTimeType + 1}, common.RangeROpen, false)
	if err != nil || it == nil {
		return nil
	}
	defer it.Close()
	var out []expRec
	for ; it.Valid(); it.Next() {
		k := it.Key()
		if len(k) < 10 {
			continue
		}
		when := int64(0)
		for i := 1; i < 9; i++ {
			when = when<<8 | int64(k[i])
		}
		cl, ok := dtClass[k[9]]
		if !ok {
			cl = fmt.Sprintf("dt%d", k[9])
		}
		out = append(out, expRec{class: cl, key: string(k[10:]), when: when})
	}
	return out
}

// hllKeys: KV keys some pfadd of the log writes. The bytes of a written-back
// sketch are gob-encoded including a Go map (random order from run to run and
// from replica to replica): for these keys GET is compared by length and the
// single-bit probes are left out, so that the outcome of a run is a function
// of its tape.
func logicalDump(st *node.KVStore, ntable int, hllKeys map[string]int) dump {
	d := dump{}
	now := time.Now().UnixNano()
	for _, tb := range tables[:ntable] {
		kvKeys := append(append([]string{}, keyPool...), hllPool[:2]...)
		for _, kk := range kvKeys {
			key := []byte(tb + ":" + kk)
			p := clKV + "|" + string(key) + "|"
			_, isHLL := hllKeys[string(key)]
			v, err := st.KVGet(key)
			d[p+"get"] = q(v) + es(err)
			if isHLL && v != nil {
				d[p+"get"] = fmt.Sprintf("len:%d", len(v)) + es(err)
			}
			ver, err := st.KVGetVer(key)
			d[p+"ver"] = fmt.Sprint(ver) + es(err)
			ttl, err := st.KVTtl(key)
			d[p+"ttl"] = fmt.Sprint(ttl) + es(err)
			v, err = st.KVGetExpired(key)
			d[p+"getexpired"] = q(v) + es(err)
			if isHLL && v != nil {
				d[p+"getexpired"] = fmt.Sprintf("len:%d", len(v)) + es(err)
			}
			n, err := st.KVExists(key)
			d[p+"exists"] = fmt.Sprint(n) + es(err)
			pf, err := st.PFCount(now, key)
			d[p+"pfcount"] = fmt.Sprint(pf) + es(err)
		}
		for _, kk := range append(append([]string{}, keyPool...), bitPool[:2]...) {
			key := []byte(tb + ":" + kk)
			// bitmap
			p := clBit + "|" + string(key) + "|"
			n, err := st.BitCountV2(key, 0, -1)
			d[p+"count"] = fmt.Sprint(n) + es(err)
			var bits []string
			for _, off := range []int64{0, 1, 7, 8, 1023, 8192, 70000} {
				bv, err := st.BitGetV2(key, off)
				bits = append(bits, fmt.Sprint(bv)+es(err))
			}
			d[p+"bits"] = strings.Join(bits, ",")
			if _, isHLL := hllKeys[string(key)]; isHLL {
				d[p+"bits"] = "-"
			}
			ver, err := st.BitGetVer(key)
			d[p+"ver"] = fmt.Sprint(ver) + es(err)
			ttl, err := st.BitTtl(key)
			d[p+"ttl"] = fmt.Sprint(ttl) + es(err)
			ex, err := st.BitKeyExist(key)
			d[p+"exists"] = fmt.Sprint(ex) + es(err)
			if kk[0] == 'b' {
				continue
			}

			// hash
			p = clHash + "|" + string(key) + "|"
			hn, recs, err := st.HGetAll(key)
			d[p+"all"] = fmt.Sprint(hn) + renderRecs(recs) + es(err)
			hn, recs, err = st.HGetAllExpired(key)
			d[p+"allexpired"] = fmt.Sprint(hn) + renderRecs(recs) + es(err)
			hl, err := st.HLen(key)
			d[p+"len"] = fmt.Sprint(hl) + es(err)
			ttl, err = st.HashTtl(key)
			d[p+"ttl"] = fmt.Sprint(ttl) + es(err)
			ex, err = st.HKeyExists(key)
			d[p+"exists"] = fmt.Sprint(ex) + es(err)
			var vers []string
			for _, f := range fieldPool {
				hv, err := st.HGetVer(key, []byte(f))
				vers = append(vers, fmt.Sprint(hv)+es(err))
			}
			d[p+"fieldver"] = strings.Join(vers, ",")

			// list
			p = clList + "|" + string(key) + "|"
			lv, err := st.LRange(key, 0, -1)
			d[p+"range"] = renderBB(lv) + es(err)
			ll, err := st.LLen(key)
			d[p+"len"] = fmt.Sprint(ll) + es(err)
			ver, err = st.LVer(key)
			d[p+"ver"] = fmt.Sprint(ver) + es(err)
			ttl, err = st.ListTtl(key)
			d[p+"ttl"] = fmt.Sprint(ttl) + es(err)
			ex, err = st.LKeyExists(key)
			d[p+"exists"] = fmt.Sprint(ex) + es(err)

			// set
			p = clSet + "|" + string(key) + "|"
			sv, err := st.SMembers(key)
			d[p+"members"] = renderBB(sv) + es(err)
			sc, err := st.SCard(key)
			d[p+"card"] = fmt.Sprint(sc) + es(err)
			ver, err = st.SGetVer(key)
			d[p+"ver"] = fmt.Sprint(ver) + es(err)
			ttl, err = st.SetTtl(key)
			d[p+"ttl"] = fmt.Sprint(ttl) + es(err)
			ex, err = st.SKeyExists(key)
			d[p+"exists"] = fmt.Sprint(ex) + es(err)

			// zset
			p = clZSet + "|" + string(key) + "|"
			zv, err := st.ZRange(key, 0, -1)
			var zs []string
			for _, sp := range zv {
				zs = append(zs, strconv.FormatFloat(sp.Score, 'g', -1, 64)+":"+q(sp.Member))
			}
			d[p+"range"] = "[" + strings.Join(zs, " ") + "]" + es(err)
			zc, err := st.ZCard(key)
			d[p+"card"] = fmt.Sprint(zc) + es(err)
			ver, err = st.ZGetVer(key)
			d[p+"ver"] = fmt.Sprint(ver) + es(err)
			ttl, err = st.ZSetTtl(key)
			d[p+"ttl"] = fmt.Sprint(ttl) + es(err)
			ex, err = st.ZKeyExists(key)
			d[p+"exists"] = fmt.Sprint(ex) + es(err)

			// json
			p = clJSON + "|" + string(key) + "|"
			js, err := st.JGet(key, []byte(""))
			d[p+"get"] = strings.Join(js, "\x1f") + es(err)
			ex, err = st.JKeyExists(key)
			d[p+"exists"] = fmt.Sprint(ex) + es(err)
		}
		cnt, err := st.GetTableKeyCount([]byte(tb))
		d["table|"+tb+"|count"] = fmt.Sprint(cnt) + es(err)
	}
	for _, tb := range tables[:ntable] {
		// a scan started at "<table>:" runs on into the following tables: name the item after every table it can reach
		for _, sc := range []struct {
			cl string
			dt common.DataType
		}{{clKV, common.KV}, {clHash, common.HASH}, {clList, common.LIST}, {clSet, common.SET}, {clZSet, common.ZSET}} {
			ks, err := st.Scan(sc.dt, []byte(tb+":"), 200, "", false)
			d["scan|"+sc.cl+"|"+tb] = renderBB(ks) + es(err)
		}
	}
	var tbs []string
	for _, t := range st.GetTables() {
		tbs = append(tbs, string(t))
	}
	sort.Strings(tbs)
	d["tables||list"] = strings.Join(tbs, ",")
	for _, e := range expireRecords(st) {
		d["exp|"+e.class+"|"+e.key+"|"+fmt.Sprint(e.when)] = "1"
	}
	return d
}

func renderRecs(recs []common.KVRecordRet) string {
	var sb strings.Builder
	sb.WriteByte('{')
	for i, r := range recs {
		if i > 0 {
			sb.WriteByte(' ')
		}
		sb.WriteString(q(r.Rec.Key) + "=" + q(r.Rec.Value) + es(r.Err))
	}
	sb.WriteByte('}')
	return sb.String()
}

func renderBB(v [][]byte) string {
	var sb strings.Builder
	sb.WriteByte('[')
	for i, x := range v {
		if i > 0 {
			sb.WriteByte(' ')
		}
		sb.WriteString(q(x))
	}
	sb.WriteByte(']')
	return sb.String()
}

// physicalDump iterates the whole engine.
func physicalDump(st *node.KVStore) dump {
	d := dump{}
	it, err := st.NewDBRangeIterator([]byte{0}, []byte{0xff, 0xff, 0xff, 0xff}, common.RangeClose, false)
	if err != nil || it == nil {
		d["phys|!iter"] = fmt.Sprint(err)
		return d
	}
	defer it.Close()
	for ; it.Valid(); it.Next() {
		d["phys|"+hex.EncodeToString(it.Key())] = hex.EncodeToString(it.Value())
	}
	return d
}

// render renders a reply handed to the waiter.
func render(v interface{}) string {
	switch x := v.(type) {
	case nil:
		return "nil"
	case error:
		return "E:" + x.Error()
	case int64:
		return "i:" + strconv.FormatInt(x, 10)
	case int:
		return "int:" + strconv.Itoa(x)
	case []byte:
		if x == nil {
			return "b:nil"
		}
		return "b:" + strconv.Quote(string(x))
	case string:
		return "s:" + strconv.Quote(x)
	case float64:
		return "f:" + strconv.FormatFloat(x, 'g', -1, 64)
	case [][]byte:
		return "a:" + renderBB(x)
	default:
		return fmt.Sprintf("%T:%v", v, v)
	}
}
