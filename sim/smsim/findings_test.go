package smsim

import (
	"fmt"
	"os"
	"path/filepath"
	"testing"
	"testing/synctest"
	"time"

	"github.com/youzan/ZanRedisDB/common"
	"github.com/youzan/ZanRedisDB/engine"

	"verif/sim/core"
)

// TestFindings replays the five known findings of C07 from hand-written
// minimal logs (executable documentation; the engine finds them from random
// tapes, see /verif/findings/C07-*.replay.json). Each scenario applies ONE log
// to two instances of the real state machine that differ in one thing that
// must not matter, then runs the engine's own oracle and prints what it found.
//
//	cd /verif/sim && go1.26.8 test -tags verif -run TestFindings -v ./smsim
func TestFindings(t *testing.T) {
	quiet()
	T := bubbleEpoch
	sec := int64(time.Second)
	mkreq := func(idx int, ts int64, args ...string) *req {
		r := &req{idx: idx, id: uint64(1000 + idx), ts: ts, name: args[0], args: mk(args[0], args[1:]...)}
		cl := clKV
		switch args[0][0] {
		case 'h':
			cl = clHash
		case 'z':
			cl = clZSet
		case 'j':
			cl = clJSON
		}
		if args[0] == "pfadd" {
			r.hll = true
		}
		r.keys = []string{cl + "|" + args[1]}
		r.tables = []string{tableOfItem(args[1])}
		return r
	}
	type step func(s *sim, in *inst)
	one := func(from, to int) step {
		return func(s *sim, in *inst) {
			var ents []entry
			for i := from; i < to; i++ {
				ents = append(ents, s.nextEntry(in, i, i+1))
			}
			s.applyCall(in, ents, false)
			in.applied = to
		}
	}
	each := func(from, to int) step {
		return func(s *sim, in *inst) {
			for i := from; i < to; i++ {
				s.applyCall(in, []entry{s.nextEntry(in, i, i+1)}, false)
			}
			in.applied = to
		}
	}
	sleep := func(d time.Duration) step {
		return func(s *sim, in *inst) { time.Sleep(d); synctest.Wait() }
	}
	backup := func(s *sim, in *inst) { s.stepBackup(in) }

	scenarios := []struct {
		name   string
		policy common.ExpirationPolicy
		syncer bool
		bad    []int
		replay int // instance 1 applies requests below this index as replayed WAL
		log    []*req
		a, b   []step
	}{
		{name: "hll-dirty-cache: DEL after PFADD answers 0, or 1 on the replica that took a checkpoint in between", policy: common.LocalDeletion,
			log: []*req{mkreq(0, T, "pfadd", "t0:h0", "x"), mkreq(1, T+sec, "del", "t0:h0")},
			a:   []step{each(0, 2)}, b: []step{each(0, 1), backup, each(1, 2)}},
		{name: "hclear-local-clock: HCLEAR before the hash's expiry (log time) on a replica whose clock is past it", policy: common.WaitCompact,
			log: []*req{mkreq(0, T, "hset", "t0:k0", "f", "v"), mkreq(1, T+sec, "hexpire", "t0:k0", "100"), mkreq(2, T+2*sec, "hclear", "t0:k0"), mkreq(3, T+3*sec, "hset", "t0:k0", "g", "w"), mkreq(4, T+4*sec, "hpersist", "t0:k0")},
			a:   []step{each(0, 5)}, b: []step{each(0, 2), sleep(200 * time.Second), each(2, 5)}},
		{name: "zfixkey-local-clock: ZFIXKEY before the sorted set's expiry (log time) on a replica whose clock is past it", policy: common.WaitCompact,
			log: []*req{mkreq(0, T, "zadd", "t0:k0", "1", "m"), mkreq(1, T+sec, "zexpire", "t0:k0", "100"), mkreq(2, T+2*sec, "zfixkey", "t0:k0"), mkreq(3, T+3*sec, "zpersist", "t0:k0")},
			a:   []step{each(0, 4)}, b: []step{each(0, 2), sleep(200 * time.Second), each(2, 4)}},
		{name: "batch-abort-on-error: SET k0 a | SETEX k1 0 v in one apply batch vs one by one", policy: common.LocalDeletion, bad: []int{1},
			log: []*req{mkreq(0, T, "set", "t0:k0", "a"), mkreq(1, T, "setex", "t0:k1", "0", "v")},
			a:   []step{one(0, 2)}, b: []step{each(0, 2)}},
		{name: "syncer-conflict-check-live-only: JSON.SET / LPUSH written by the cluster log syncer, applied live vs replayed", policy: common.LocalDeletion, syncer: true, replay: 2,
			log: []*req{mkreq(0, T, "json.set", "t0:k0", "", "1"), mkreq(1, T+sec, "lpush", "t0:k1", "x")},
			a:   []step{each(0, 2)}, b: []step{each(0, 2)}},
	}
	for _, sc := range scenarios {
		synctest.Test(t, func(t *testing.T) {
			c := core.NewRunCtx(t, "C07", "quick", core.ReplayTape(nil))
			s := &sim{c: c, t: c.Tape, hllKeys: map[string]bool{}, n: len(sc.log), k: 2, policy: sc.policy, ntable: 1, syncer: sc.syncer, g: &gen{}}
			engine.VerifSetMemType(engine.VerifMemBtree)
			for _, i := range sc.bad {
				sc.log[i].bad = true
			}
			s.log = sc.log
			if s.log[0].name == "lpush" || (len(s.log) > 1 && s.log[1].name == "lpush") {
				s.log[1].keys = []string{clList + "|t0:k1"}
			}
			s.indexHLL()
			s.root = filepath.Join("/dev/shm", fmt.Sprintf("smsim-findings-%d", os.Getpid()))
			os.RemoveAll(s.root)
			os.MkdirAll(s.root, 0755)
			defer os.RemoveAll(s.root)
			for i := 0; i < 2; i++ {
				in := &inst{idx: i, replies: map[int]string{}, taint: map[string]int{}, aborted: map[int]bool{}, abortTaint: map[string]int{}, ckpt: -1, w: newRecWait(), stop: make(chan struct{})}
				in.cfg = instCfg{eng: "mem", maxReqPerEnt: 1, maxEntPerCall: 1, leaderPm: 1000}
				in.applyAt = make([]int64, s.n)
				in.lastApplyAt = make([]int64, s.n)
				s.ins = append(s.ins, in)
			}
			s.ins[1].cfg.replayUntil = sc.replay
			for i, script := range [][]step{sc.a, sc.b} {
				in := s.ins[i]
				if !s.ensure(in) {
					t.Fatal(in.dead)
				}
				for _, st := range script {
					st(s, in)
				}
			}
			s.compareAt(s.n)
			s.compareReplies()
			fmt.Fprintf(core.Stdout, "== %s\n", sc.name)
			for i, r := range s.log {
				fmt.Fprintf(core.Stdout, "   log %d ts=T+%.0fs %s   replies: A=%s B=%s\n", i, float64(r.ts-T)/1e9, r.String(), s.ins[0].replies[i], s.ins[1].replies[i])
			}
			for _, f := range s.findings {
				fmt.Fprintf(core.Stdout, "   %s [%s] %s\n", f.rule, f.key, f.msg)
			}
			if len(s.findings) == 0 {
				fmt.Fprintf(core.Stdout, "   no difference (finding repaired?)\n")
			}
			for _, in := range s.ins {
				in.sm.Close()
			}
			synctest.Wait()
		})
	}
}
