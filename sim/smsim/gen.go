package smsim

import (
	"encoding/json"
	"strconv"
	"strings"
	"time"

	"verif/sim/core"
)

// One request of the generated command log. args[1] is "table:key" (the
// namespace prefix is added by the entry builder for the RedisV2 form only).
type req struct {
	idx    int
	id     uint64
	ts     int64
	name   string
	args   [][]byte
	custom []byte   // CustomReq payload (args == nil)
	keys   []string // "class|table:key" items the command may read or write
	tables []string
	hll    bool
	bad    bool // accepted by the proposing node, refused by the apply handler
}

const (
	clKV   = "kv"
	clHash = "hash"
	clList = "list"
	clSet  = "set"
	clZSet = "zset"
	clBit  = "bit"
	clJSON = "json"
)

var classes = []string{clKV, clHash, clList, clSet, clZSet, clBit, clJSON}

var tables = []string{"t0", "t1"}
var keyPool = []string{"k0", "k1", "k2"}
var hllPool = []string{"h0", "h1", "k2"}

// bitmap commands fall back to the KV key of the same name (legacy format):
// one shared name keeps that path covered, the others keep the (C11) panic of
// "expired bitmap + KV value under the same name" from ending too many runs.
var bitPool = []string{"b0", "b1", "k1"}
var fieldPool = []string{"f0", "f1", "f2", "f3"}

// bubbleEpoch is the instant a synctest bubble starts at.
var bubbleEpoch = time.Date(2000, 1, 1, 0, 0, 0, 0, time.UTC).UnixNano()

type gen struct {
	c *core.RunCtx
	t *core.Tape
	// log time
	ts int64
	// expiry instants (ns) produced by earlier TTL commands: (ts/1e9+dur)*1e9
	expiries []int64
	// family weights (swarm): one weight per class + ttl + hll + custom
	w       []int
	ttlPm   int
	badPm   int
	lastBad bool
	burstPm int // probability that a request starts a burst of batchable commands
	burst   int // batchable commands left in the running burst
	// follow-ups: after a TTL command the next requests tend to hit the same
	// key of the same family (writes, clears, persist around its expiry instant)
	followFam  int
	followKey  string
	followLeft int
	forceKey   string
	hot        int // index of a "hot" key used with higher probability
	ntable     int
}

func b(s string) []byte { return []byte(s) }

func (g *gen) table() string { return tables[g.t.Choose(g.ntable)] }

func (g *gen) key() string {
	if g.forceKey != "" {
		return g.forceKey
	}
	// a hot key makes repeats inside one apply batch frequent
	if g.t.Bool(400) {
		return tables[0] + ":" + keyPool[g.hot]
	}
	return g.table() + ":" + keyPool[g.t.Choose(len(keyPool))]
}

func (g *gen) kvkey() string {
	if g.forceKey != "" {
		return g.forceKey
	}
	if g.t.Bool(60) {
		return g.table() + ":" + hllPool[g.t.Choose(len(hllPool))]
	}
	return g.key()
}

func (g *gen) hllkey() string {
	return g.table() + ":" + hllPool[g.t.Choose(len(hllPool))]
}

func (g *gen) field() string { return fieldPool[g.t.Choose(len(fieldPool))] }

var valPool = []string{"1", "a", "7", "bb", "-3", "", "10", "x y", "\x00\xff\r\n", "9223372036854775807", "0"}

func (g *gen) val() string {
	if g.t.Bool(15) {
		return strings.Repeat("L", 300+g.t.Choose(50))
	}
	return valPool[g.t.Choose(len(valPool))]
}

func (g *gen) intval() string {
	return []string{"1", "-1", "5", "100", "-7", "0", "9223372036854775807"}[g.t.Choose(7)]
}

// dur returns a TTL argument. Mostly small positive seconds so that expiry
// instants fall inside the log's time span.
func (g *gen) dur() string {
	if g.t.Bool(g.badPm) {
		// accepted by the proposing node's argument check, refused at apply
		g.lastBad = true
		return []string{"0", "-1", "abc", ""}[g.t.Choose(4)]
	}
	return []string{"1", "2", "3", "5", "10", "100", "3600", "259200"}[g.t.Weighted([]int{6, 5, 3, 3, 2, 1, 1, 1})]
}

func (g *gen) score() string {
	return []string{"1", "2", "2", "-1.5", "0", "3e2", "1.25", "100"}[g.t.Choose(8)]
}

func (g *gen) noteTTL(ts int64, d string) {
	n, err := strconv.ParseInt(d, 10, 64)
	if err != nil || n <= 0 || n > 100000 {
		return
	}
	g.expiries = append(g.expiries, (ts/int64(time.Second)+n)*int64(time.Second))
	if len(g.expiries) > 64 {
		g.expiries = g.expiries[1:]
	}
}

// nextTs advances the log clock adversarially.
func (g *gen) nextTs() int64 {
	sec := int64(time.Second)
	ts := g.ts
	switch g.t.Weighted([]int{10, 8, 8, 8, 6, 6, 10, 5, 4, 3, 2, 8}) {
	case 0: // equal
	case 1:
		ts++
	case 2:
		ts += int64(1 + g.t.Choose(1000000))
	case 3: // exactly the next second boundary
		ts = (ts/sec + 1) * sec
	case 4: // one ns before the next boundary
		ts = (ts/sec+1)*sec - 1
	case 5: // one ns after the next boundary
		ts = (ts/sec+1)*sec + 1
	case 6: // around an expiry instant of an earlier TTL command
		if len(g.expiries) > 0 {
			e := g.expiries[g.t.Choose(len(g.expiries))]
			e += []int64{0, -1, 1, -sec, sec - 1}[g.t.Choose(5)]
			// stay mostly monotone: accept backward only for small steps
			if e >= ts || ts-e <= 2*sec {
				ts = e
			}
		}
	case 7:
		ts += sec * int64(1+g.t.Choose(3))
	case 8: // small backward step: leader change with clock skew
		ts -= []int64{1, 1000, 1000000, sec, sec + 1}[g.t.Choose(5)]
	case 9:
		ts += sec * int64(10+g.t.Choose(100))
	case 10:
		ts += sec * 3600
	case 11:
		ts += int64(time.Millisecond) * int64(1+g.t.Choose(900))
	}
	if ts <= 0 {
		ts = 1
	}
	g.ts = ts
	return ts
}

func mk(name string, args ...string) [][]byte {
	out := make([][]byte, 0, len(args)+1)
	out = append(out, b(name))
	for _, a := range args {
		out = append(out, b(a))
	}
	return out
}

func tableOf(k string) string { return k[:strings.IndexByte(k, ':')] }

// one generates request number idx.
func (g *gen) one(idx int) *req {
	t := g.t
	r := &req{idx: idx, id: uint64(1000 + idx)}
	r.ts = g.nextTs()
	g.lastBad = false
	defer func() { r.bad = g.lastBad }()
	set := func(cl string, args [][]byte, ks ...string) {
		r.name = string(args[0])
		r.args = args
		for _, k := range ks {
			r.keys = append(r.keys, cl+"|"+k)
			tb := tableOf(k)
			dup := false
			for _, x := range r.tables {
				if x == tb {
					dup = true
				}
			}
			if !dup {
				r.tables = append(r.tables, tb)
			}
		}
	}
	// bursts of the commands that share a write batch (set, setex, single-key
	// del, hmset) on few keys: what a raft loop batches under load
	if g.burst == 0 && t.Bool(g.burstPm) {
		g.burst = 2 + t.Choose(8)
	}
	if g.burst > 0 {
		g.burst--
		switch t.Weighted([]int{6, 4, 4, 3, 2}) {
		case 0:
			k := g.kvkey()
			set(clKV, mk("set", k, g.val()), k)
		case 1:
			k := g.kvkey()
			d := g.dur()
			set(clKV, mk("setex", k, d, g.val()), k)
			g.noteTTL(r.ts, d)
		case 2:
			k := g.kvkey()
			set(clKV, mk("del", k), k)
		case 3:
			k := g.key()
			args := []string{k}
			for i, n := 0, 1+t.Choose(3); i < n; i++ {
				args = append(args, g.field(), g.val())
			}
			if t.Bool(g.badPm) {
				g.lastBad = true
				args = append(args, strings.Repeat("F", 10241), "v")
			}
			set(clHash, mk("hmset", args...), k)
		case 4:
			k := g.kvkey()
			args := []string{k, g.val(), []string{"nx", "xx"}[t.Choose(2)]}
			if t.Bool(400) {
				d := []string{"1", "2", "5"}[t.Choose(3)]
				args = append(args, "ex", d)
				g.noteTTL(r.ts, d)
			}
			set(clKV, mk("set", args...), k)
		}
		return r
	}
	ttl := t.Bool(g.ttlPm)
	fam := t.Weighted(g.w)
	g.forceKey = ""
	if g.followLeft > 0 && t.Bool(700) {
		g.followLeft--
		fam = g.followFam
		g.forceKey = g.followKey
		ttl = t.Bool(250)
	}
	defer func() {
		g.forceKey = ""
		// a TTL command on a collection / KV key starts a follow-up phase
		if len(r.args) >= 3 && fam <= 4 && (strings.HasSuffix(r.name, "expire") || r.name == "setex") {
			g.followFam = fam
			g.followKey = string(r.args[1])
			g.followLeft = 1 + t.Choose(4)
		}
	}()
	switch fam {
	case 0: // ---- KV
		k := g.kvkey()
		if ttl {
			d := g.dur()
			switch t.Choose(4) {
			case 0, 1:
				set(clKV, mk("setex", k, d, g.val()), k)
			case 2:
				set(clKV, mk("expire", k, d), k)
			case 3:
				set(clKV, mk("persist", k), k)
			}
			g.noteTTL(r.ts, d)
			break
		}
		switch w := t.Weighted([]int{14, 5, 4, 4, 4, 3, 5, 3, 6, 3, 2, 2, 3, 3, 1}); w {
		case 0:
			set(clKV, mk("set", k, g.val()), k)
		case 1:
			// set with options; the proposing node validated them
			args := []string{k, g.val()}
			if t.Bool(500) {
				args = append(args, []string{"nx", "xx", "NX"}[t.Choose(3)])
			}
			if t.Bool(500) {
				d := []string{"1", "2", "5", "100"}[t.Choose(4)]
				args = append(args, "ex", d)
				g.noteTTL(r.ts, d)
			}
			set(clKV, mk("set", args...), k)
		case 2:
			set(clKV, mk("setnx", k, g.val()), k)
		case 3:
			set(clKV, mk("getset", k, g.val()), k)
		case 4:
			set(clKV, mk("append", k, g.val()), k)
		case 5:
			set(clKV, mk("setrange", k, strconv.Itoa(t.Choose(6)), g.val()), k)
		case 6:
			set(clKV, mk("incr", k), k)
		case 7:
			set(clKV, mk("incrby", k, g.intval()), k)
		case 8:
			set(clKV, mk("del", k), k)
		case 9:
			k2 := g.kvkey()
			set(clKV, mk("del", k, k2), k, k2)
		case 10, 11:
			name := "mset"
			if w == 11 {
				name = "plset"
			}
			k2 := g.kvkey()
			if t.Bool(g.badPm) {
				// a later key the apply handler refuses (no table / over-long)
				// after the earlier pair was put into the write batch
				g.lastBad = true
				bk := []string{"notable", strings.Repeat("K", 10300)}[t.Choose(2)]
				set(clKV, mk(name, k, g.val(), bk, g.val()), k)
			} else {
				set(clKV, mk(name, k, g.val(), k2, g.val()), k, k2)
			}
		case 12:
			args := []string{k, g.val(), g.val()}
			if t.Bool(300) {
				d := []string{"1", "2", "100"}[t.Choose(3)]
				args = append(args, "ex", d)
				g.noteTTL(r.ts, d)
			}
			set(clKV, mk("setifeq", args...), k)
		case 13:
			set(clKV, mk("delifeq", k, g.val()), k)
		case 14:
			set(clKV, mk("noopwrite", k, "x"), k)
		}
	case 1: // ---- hash
		k := g.key()
		if ttl {
			if t.Bool(700) {
				d := g.dur()
				set(clHash, mk("hexpire", k, d), k)
				g.noteTTL(r.ts, d)
			} else {
				set(clHash, mk("hpersist", k), k)
			}
			break
		}
		switch t.Weighted([]int{8, 3, 8, 5, 4, 3, 1}) {
		case 0:
			set(clHash, mk("hset", k, g.field(), g.val()), k)
		case 1:
			set(clHash, mk("hsetnx", k, g.field(), g.val()), k)
		case 2:
			args := []string{k}
			for i, n := 0, 1+t.Choose(3); i < n; i++ {
				args = append(args, g.field(), g.val())
			}
			if t.Bool(g.badPm) {
				// sub key longer than the limit: refused at apply only
				g.lastBad = true
				args = append(args, strings.Repeat("F", 10241), "v")
			}
			set(clHash, mk("hmset", args...), k)
		case 3:
			args := []string{k, g.field()}
			if t.Bool(300) {
				args = append(args, g.field())
			}
			set(clHash, mk("hdel", args...), k)
		case 4:
			set(clHash, mk("hincrby", k, g.field(), g.intval()), k)
		case 5:
			set(clHash, mk("hclear", k), k)
		case 6:
			k2 := g.key()
			set(clHash, mk("hmclear", k, k2), k, k2)
		}
	case 2: // ---- list
		k := g.key()
		if ttl {
			if t.Bool(700) {
				d := g.dur()
				set(clList, mk("lexpire", k, d), k)
				g.noteTTL(r.ts, d)
			} else {
				set(clList, mk("lpersist", k), k)
			}
			break
		}
		switch t.Weighted([]int{8, 8, 5, 5, 3, 3, 2, 1, 1}) {
		case 0:
			args := []string{k, g.val()}
			if t.Bool(300) {
				args = append(args, g.val())
			}
			set(clList, mk("lpush", args...), k)
		case 1:
			args := []string{k, g.val()}
			if t.Bool(300) {
				args = append(args, g.val())
			}
			set(clList, mk("rpush", args...), k)
		case 2:
			set(clList, mk("lpop", k), k)
		case 3:
			set(clList, mk("rpop", k), k)
		case 4:
			set(clList, mk("lset", k, strconv.Itoa(t.Choose(5)-1), g.val()), k)
		case 5:
			set(clList, mk("ltrim", k, strconv.Itoa(t.Choose(4)-1), strconv.Itoa(t.Choose(5)-2)), k)
		case 6:
			set(clList, mk("lclear", k), k)
		case 7:
			k2 := g.key()
			set(clList, mk("lmclear", k, k2), k, k2)
		case 8:
			set(clList, mk("lfixkey", k), k)
		}
	case 3: // ---- set
		k := g.key()
		if ttl {
			if t.Bool(700) {
				d := g.dur()
				set(clSet, mk("sexpire", k, d), k)
				g.noteTTL(r.ts, d)
			} else {
				set(clSet, mk("spersist", k), k)
			}
			break
		}
		switch t.Weighted([]int{10, 5, 6, 2, 1}) {
		case 0:
			args := []string{k}
			for i, n := 0, 1+t.Choose(4); i < n; i++ {
				args = append(args, g.field())
			}
			set(clSet, mk("sadd", args...), k)
		case 1:
			args := []string{k, g.field()}
			if t.Bool(300) {
				args = append(args, g.field())
			}
			set(clSet, mk("srem", args...), k)
		case 2:
			if t.Bool(500) {
				set(clSet, mk("spop", k), k)
			} else {
				set(clSet, mk("spop", k, strconv.Itoa(1+t.Choose(3))), k)
			}
		case 3:
			set(clSet, mk("sclear", k), k)
		case 4:
			k2 := g.key()
			set(clSet, mk("smclear", k, k2), k, k2)
		}
	case 4: // ---- zset
		k := g.key()
		if ttl {
			if t.Bool(700) {
				d := g.dur()
				set(clZSet, mk("zexpire", k, d), k)
				g.noteTTL(r.ts, d)
			} else {
				set(clZSet, mk("zpersist", k), k)
			}
			break
		}
		switch t.Weighted([]int{10, 4, 4, 2, 2, 2, 2, 1, 1}) {
		case 0:
			args := []string{k}
			for i, n := 0, 1+t.Choose(3); i < n; i++ {
				args = append(args, g.score(), g.field())
			}
			set(clZSet, mk("zadd", args...), k)
		case 1:
			set(clZSet, mk("zincrby", k, g.score(), g.field()), k)
		case 2:
			args := []string{k, g.field()}
			if t.Bool(300) {
				args = append(args, g.field())
			}
			set(clZSet, mk("zrem", args...), k)
		case 3:
			set(clZSet, mk("zremrangebyrank", k, strconv.Itoa(t.Choose(3)-1), strconv.Itoa(t.Choose(4)-2)), k)
		case 4:
			lo := []string{"-inf", "0", "(1", "2"}[t.Choose(4)]
			hi := []string{"+inf", "2", "(2", "100"}[t.Choose(4)]
			set(clZSet, mk("zremrangebyscore", k, lo, hi), k)
		case 5:
			lo := []string{"-", "[f0", "(f1"}[t.Choose(3)]
			hi := []string{"+", "[f2", "(f3"}[t.Choose(3)]
			set(clZSet, mk("zremrangebylex", k, lo, hi), k)
		case 6:
			set(clZSet, mk("zclear", k), k)
		case 7:
			k2 := g.key()
			set(clZSet, mk("zmclear", k, k2), k, k2)
		case 8:
			set(clZSet, mk("zfixkey", k), k)
		}
	case 5: // ---- bitmap
		k := g.table() + ":" + bitPool[g.t.Choose(len(bitPool))]
		if ttl {
			if t.Bool(700) {
				d := g.dur()
				set(clBit, mk("bexpire", k, d), k)
				g.noteTTL(r.ts, d)
			} else {
				set(clBit, mk("bpersist", k), k)
			}
			break
		}
		off := []string{"0", "1", "7", "8", "1023", "8192", "70000"}[t.Choose(7)]
		switch t.Weighted([]int{6, 6, 2}) {
		case 0:
			set(clBit, mk("setbit", k, off, strconv.Itoa(t.Choose(2))), k)
		case 1:
			set(clBit, mk("setbitv2", k, off, strconv.Itoa(t.Choose(2))), k)
		case 2:
			set(clBit, mk("bitclear", k), k)
		}
	case 6: // ---- json
		k := g.key()
		jv := []string{`1`, `"s"`, `{"a":1}`, `[1,2]`, `{"a":{"b":[1]},"c":"x"}`, `null`, `[]`}[t.Choose(7)]
		path := []string{"", "a", ".a", "a.b", "c", "a.b.0"}[t.Choose(6)]
		switch t.Weighted([]int{8, 3, 3, 3}) {
		case 0:
			set(clJSON, mk("json.set", k, path, jv), k)
		case 1:
			if t.Bool(500) {
				set(clJSON, mk("json.del", k), k)
			} else {
				set(clJSON, mk("json.del", k, path), k)
			}
		case 2:
			args := []string{k, path, jv}
			if t.Bool(300) {
				args = append(args, `2`)
			}
			set(clJSON, mk("json.arrappend", args...), k)
		case 3:
			if t.Bool(500) {
				set(clJSON, mk("json.arrpop", k), k)
			} else {
				set(clJSON, mk("json.arrpop", k, path), k)
			}
		}
	case 7: // ---- HyperLogLog (lives in the KV key space)
		k := g.hllkey()
		args := []string{k}
		for i, n := 0, t.Choose(4); i < n; i++ {
			args = append(args, "e"+strconv.Itoa(t.Choose(40)))
		}
		set(clKV, mk("pfadd", args...), k)
		r.hll = true
	case 8: // ---- custom requests
		r.name = "custom.backup"
		op := 1
		var data []byte
		if t.Bool(300) {
			tb := g.table()
			r.name = "custom.deltable"
			op = 6
			data, _ = json.Marshal(map[string]interface{}{"table": tb, "delete_all": true})
			// the whole table is affected
			for _, cl := range classes {
				for _, kk := range keyPool {
					r.keys = append(r.keys, cl+"|"+tb+":"+kk)
				}
				if cl == clBit {
					for _, kk := range bitPool[:2] {
						r.keys = append(r.keys, cl+"|"+tb+":"+kk)
					}
				}
			}
			for _, kk := range hllPool {
				r.keys = append(r.keys, clKV+"|"+tb+":"+kk)
			}
			r.tables = []string{tb}
		}
		r.custom, _ = json.Marshal(map[string]interface{}{"ProposeOp": op, "Data": data})
	}
	return r
}

// batchable mirrors rockredis.IsBatchableWrite + the del special case; used
// only for probes (never for the oracle).
func batchable(r *req) bool {
	if r.args == nil {
		return false
	}
	switch r.name {
	case "set", "setex", "hmset":
		return true
	case "del":
		return len(r.args) == 2
	}
	return false
}

func (r *req) String() string {
	if r.args == nil {
		return r.name + " " + string(r.custom)
	}
	var sb strings.Builder
	for i, a := range r.args {
		if i > 0 {
			sb.WriteByte(' ')
		}
		if len(a) > 40 {
			sb.WriteString(strconv.Quote(string(a[:8])) + "...(" + strconv.Itoa(len(a)) + ")")
		} else {
			sb.WriteString(strconv.Quote(string(a)))
		}
	}
	return sb.String()
}
