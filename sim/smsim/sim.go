// Package smsim decides C07: one tape-generated command log (all write
// families, adversarially close log timestamps) is applied to 2-3 instances
// of the REAL kv state machine (node.NewStateMachine -> kvStoreSM.
// ApplyRaftRequest, batch operator, all local*Command handlers, rockredis,
// mem/pebble engine) that differ only in what must not matter: partition of
// the log into raft entries and apply batches, replay flag, waiter registered
// (leader) or not, local clock, reopen / checkpoint+restore at cut points,
// engine. Oracle (relational): replies per request id and full dumps equal.
package smsim

import (
	"fmt"
	"io/ioutil"
	"log"
	"os"
	"path/filepath"
	"sort"
	"strings"
	"sync/atomic"
	"testing"
	"testing/synctest"
	"time"

	"github.com/youzan/ZanRedisDB/common"
	"github.com/youzan/ZanRedisDB/engine"
	"github.com/youzan/ZanRedisDB/node"
	"github.com/youzan/ZanRedisDB/raft/raftpb"
	"github.com/youzan/ZanRedisDB/rockredis"
	"github.com/youzan/ZanRedisDB/slow"

	"verif/sim/core"
)

var Engine = core.Engine{Name: "smsim", Run: Run}

const nsPrefix = "default:"

type instCfg struct {
	eng           string
	maxReqPerEnt  int // 1 = the shape a proposing node produces
	maxEntPerCall int // entries handed to one applyEntries call (one batch operator)
	v2Pm          int // single-request entries in RedisV2 form (raft entry carries id/ts/raw command with namespace)
	leaderPm      int // waiter registered for a request
	listTsPm      int // multi-request entry whose requests share one ts: carry it in the list header
	reqIDPm       int // entry carries a list-level ReqId (grpc syncer path: commits the batch at entry end)
	replayUntil   int // requests below this index are applied with isReplaying=true (replayed WAL after restart)
}

type entry struct {
	from, to int // requests [from,to)
	v2       bool
	listTs   bool
	reqID    uint64
}

type inst struct {
	idx     int
	cfg     instCfg
	dir     string
	sm      node.StateMachine
	st      *node.KVStore
	w       *recWait
	stop    chan struct{}
	applied int
	nent    uint64
	ents    []entry // every entry built so far (its own "WAL")
	calls   []int   // request positions at which an applyEntries call ended
	replies map[int]string
	// local-deletion policy: keys the background checker removed on this
	// instance, with the log position at which the removal was observed
	taint map[string]int
	// known finding batch-abort-on-error: requests whose batched write was dropped on this instance
	flushAt    []int // log positions at which this instance wrote its HyperLogLog cache back
	aborted    map[int]bool
	abortTaint map[string]int
	ckpt       int // log position of the newest checkpoint, -1 = none
	// bookkeeping for evidence
	firstApplyAt int64
	applyAt      []int64 // fake time at which request i was (first) applied
	lastApplyAt  []int64 // fake time at which request i was last applied (replay after restore)
	dead         string
	panicFrom    int
	panicTo      int
}

type sim struct {
	c      *core.RunCtx
	t      *core.Tape
	n      int
	k      int
	policy common.ExpirationPolicy
	ntable int
	log    []*req
	ins    []*inst
	g      *gen
	root   string
	start  time.Time
	sleeps int
	// evidence
	batchedCalls     int
	expiryCrossed    int
	reopens          int
	restores         int
	maxOffset        int64
	partitionsDiffer bool
	hllKeys          map[string]bool
	memType          int
	syncer           bool // the log is of the cluster-syncer type (entries written by the log syncer of another cluster)
	ablateReplay     bool
	ablateType       bool // entries are not marked as coming from the cluster syncer
	findings         []finding
	firstPfadd       map[string]int
	firstOther       map[string]int
}

var runSeq int64
var quietOnce int32

func quiet() {
	if !atomic.CompareAndSwapInt32(&quietOnce, 0, 1) {
		return
	}
	if os.Getenv("VERIF_NODELOG") != "" {
		return
	}
	if dn, err := os.OpenFile(os.DevNull, os.O_WRONLY, 0); err == nil {
		os.Stdout = dn
	}
	log.SetOutput(ioutil.Discard)
	node.SetLogger(0, nil)
	engine.SetLogger(0, nil)
	rockredis.SetLogger(0, nil)
	slow.SetLogger(0, nil)
}

func pick(t *core.Tape, vals ...int) int { return vals[t.Choose(len(vals))] }

func Run(c *core.RunCtx) {
	quiet()
	s := runOnce(c, false)
	// Attribution by ablation (known finding syncer-conflict-check-live-only):
	// in a run whose log is of the cluster-syncer type, re-execute the same
	// tape with the replay flag forced to false everywhere; when that run has
	// no unknown difference, the differences of the first pass are exactly the
	// consequence of "conflict pre-check only when applied live".
	if s.syncer && s.unknown() {
		c2 := core.NewRunCtx(c.T, c.Prop, c.Tier, core.ReplayTape(c.Tape.Values()))
		s2 := runOnce(c2, true)
		c.Count("ablation_reruns", 1)
		if !s2.unknown() {
			for i := range s.findings {
				if s.findings[i].key == "" {
					s.findings[i].key = keySyncer
				}
			}
		}
	}
	// Attribution by ablation (known finding syncer-conflict-check-under-local-deletion):
	// under the local-deletion policy the conflict pre-check of a syncer entry
	// reads whatever the replica physically holds, including expired keys that
	// one replica's background checker has removed and another's has not: the
	// entry is executed here and skipped there, and keys that never expired
	// diverge. When the same tape without the syncer entry type has no unknown
	// difference, the differences are the consequence of that.
	if s.syncer && s.policy == common.LocalDeletion && s.unknown() {
		c3 := core.NewRunCtx(c.T, c.Prop, c.Tier, core.ReplayTape(c.Tape.Values()))
		s3 := runOnce(c3, false, true)
		c.Count("ablation_reruns", 1)
		if !s3.unknown() {
			for i := range s.findings {
				if s.findings[i].key == "" {
					s.findings[i].key = keySyncerLD
				}
			}
		}
	}
	s.emit()
}

func runOnce(c *core.RunCtx, ablateReplay bool, ablateType ...bool) *sim {
	s := &sim{c: c, t: c.Tape, hllKeys: map[string]bool{}, ablateReplay: ablateReplay, ablateType: len(ablateType) > 0 && ablateType[0]}
	func() {
		defer func() {
			if e := recover(); e != nil {
				msg := fmt.Sprint(e)
				if strings.Contains(msg, "deadlock: main bubble goroutine has exited") {
					c.Count("infra.bubble_leftover_goroutines", 1)
					return
				}
				panic(e)
			}
		}()
		synctest.Test(c.T, func(t *testing.T) {
			s.bubble()
		})
	}()
	return s
}

func (s *sim) drawCfg() {
	t := s.t
	c := s.c
	s.k = pick(t, 2, 3, 2)
	maxN := 100
	if c.Tier == "thorough" {
		maxN = 180
	}
	s.n = 20 + t.Choose(maxN+1)
	if t.Choose(2) == 0 {
		s.policy = common.LocalDeletion
	} else {
		s.policy = common.WaitCompact
	}
	s.ntable = pick(t, 1, 2)
	s.syncer = t.Bool(120)
	// mem engine variant (process global, one per run). The default (radix)
	// variant cannot be used under local deletion: its write batch takes the
	// store-wide writer mutex at the first operation and the expiry checker
	// fills one write batch per data type before committing any of them, so it
	// blocks itself forever as soon as keys of two types expire in one pass
	// (engine defect outside C07; it would hang the run).
	mt := pick(t, engine.VerifMemRadix, engine.VerifMemRadix, engine.VerifMemRadix, engine.VerifMemBtree, engine.VerifMemSkiplist)
	if s.policy == common.LocalDeletion && mt == engine.VerifMemRadix {
		mt = pick(t, engine.VerifMemBtree, engine.VerifMemSkiplist)
	}
	engine.VerifSetMemType(mt)
	s.memType = mt
	g := &gen{c: c, t: t, ntable: s.ntable}
	g.w = make([]int, 9)
	for {
		sum := 0
		for i := range g.w {
			g.w[i] = pick(t, 3, 0, 1, 6)
			sum += g.w[i]
		}
		// custom requests stay rare
		if g.w[8] > 1 {
			g.w[8] = 1
		}
		if t.Bool(700) {
			g.w[8] = 0
		}
		if sum > 0 {
			break
		}
	}
	g.ttlPm = pick(t, 150, 0, 300, 450)
	g.badPm = pick(t, 0, 0, 30, 100)
	g.burstPm = pick(t, 60, 0, 150, 300)
	g.hot = t.Choose(len(keyPool))
	off := []int64{0, 5, 3600, 864000, -3600}[t.Choose(5)] * int64(time.Second)
	g.ts = bubbleEpoch + off + int64(t.Choose(1000000000))
	s.g = g
	for i := 0; i < s.k; i++ {
		in := &inst{idx: i, replies: map[int]string{}, taint: map[string]int{}, aborted: map[int]bool{}, abortTaint: map[string]int{}, ckpt: -1, w: newRecWait(), stop: make(chan struct{})}
		ic := &in.cfg
		ic.eng = []string{"mem", "pebble"}[t.Weighted([]int{3, 2})]
		ic.maxReqPerEnt = pick(t, 1, 1, 3, 6)
		ic.maxEntPerCall = pick(t, 1, 4, 8, 30)
		ic.v2Pm = pick(t, 0, 0, 500, 1000)
		ic.leaderPm = pick(t, 1000, 1000, 0, 600)
		ic.listTsPm = pick(t, 0, 500)
		ic.reqIDPm = pick(t, 0, 0, 0, 200)
		if t.Bool(250) {
			ic.replayUntil = t.Choose(s.n + 1)
		}
		if s.syncer {
			// the log syncer forwards the source cluster's raft entries one by
			// one: single-request lists with a list-level id (which makes the
			// state machine commit the write batch at the end of every entry)
			ic.maxReqPerEnt = 1
		}
		in.applyAt = make([]int64, s.n)
		in.lastApplyAt = make([]int64, s.n)
		s.ins = append(s.ins, in)
	}
	s.lg("cfg", "n=%d k=%d syncer=%v policy=%d mem=%d ntable=%d w=%v ttlPm=%d badPm=%d burstPm=%d hot=%d base=%d", s.n, s.k, s.syncer, s.policy, s.memType, s.ntable, g.w, g.ttlPm, g.badPm, g.burstPm, g.hot, g.ts)
	for _, in := range s.ins {
		s.lg("icfg", "%d %+v", in.idx, in.cfg)
	}
}

func (s *sim) open(in *inst) error {
	opts := &node.KVOptions{
		DataDir:          in.dir,
		EngType:          rockredis.EngType,
		ExpirationPolicy: s.policy,
	}
	if s.policy == common.WaitCompact {
		opts.DataVersion = common.ValueHeaderV1
	}
	opts.RockOpts.EngineType = in.cfg.eng
	opts.RockOpts.WriteBufferSize = 1 << 20
	opts.RockOpts.BlockCache = 1 << 20
	engine.FillDefaultOptions(&opts.RockOpts)
	sm, err := node.NewStateMachine(opts, node.MachineConfig{}, uint64(in.idx+1), "default-0", nil, in.w, nil)
	if err != nil {
		return err
	}
	in.sm = sm
	in.st = node.VerifKVStore(sm)
	if in.st == nil {
		return fmt.Errorf("not a kv state machine")
	}
	return sm.Start()
}

func (s *sim) now() int64 { return time.Now().UnixNano() }

func (s *sim) bubble() {
	c := s.c
	s.start = time.Now()
	s.drawCfg()
	base := os.Getenv("VERIF_SCRATCH")
	if base == "" {
		base = "/dev/shm/smsim.scratch"
	}
	s.root = filepath.Join(base, fmt.Sprintf("smsim-%d-%d", os.Getpid(), atomic.AddInt64(&runSeq, 1)))
	os.RemoveAll(s.root)
	if err := os.MkdirAll(s.root, 0755); err != nil {
		panic(err)
	}
	defer func() {
		for _, in := range s.ins {
			if in.sm != nil {
				func() {
					defer func() { recover() }()
					in.sm.Close()
				}()
				in.sm = nil
			}
		}
		synctest.Wait()
		os.RemoveAll(s.root)
		c.SimMs = time.Since(s.start).Milliseconds()
	}()

	// ---- the log
	for i := 0; i < s.n; i++ {
		r := s.g.one(i)
		s.log = append(s.log, r)
		s.lg("req."+r.name, "%d id=%d ts=%d %s", i, r.id, r.ts, r.String())
	}

	s.indexHLL()

	// ---- sync points
	var syncs []int
	for i, m := 0, s.t.Choose(3); i < m; i++ {
		syncs = append(syncs, 1+s.t.Choose(s.n))
	}
	syncs = append(syncs, s.n)
	sort.Ints(syncs)

	cur := 0
	maxSteps := s.n*s.k*6 + 200
	steps := 0
	for _, target := range syncs {
		for {
			var todo []*inst
			for _, in := range s.ins {
				if in.applied < target && in.dead == "" {
					todo = append(todo, in)
				}
			}
			if len(todo) == 0 {
				break
			}
			steps++
			if steps > maxSteps {
				// finish without further environment events
				for _, in := range todo {
					for in.applied < target && in.dead == "" {
						s.stepApply(in, target)
					}
				}
				break
			}
			// which instance acts (sticky: long stretches of one instance = large clock offsets)
			in := s.ins[cur%len(s.ins)]
			ok := false
			for _, x := range todo {
				if x == in {
					ok = true
				}
			}
			if !ok || s.t.Bool(250) {
				in = todo[s.t.Choose(len(todo))]
				cur = in.idx
			}
			switch s.t.Weighted([]int{60, 12, 4, 4, 3, 2}) {
			case 0:
				s.stepApply(in, target)
			case 1:
				s.stepSleep()
			case 2:
				s.stepBackup(in)
			case 3:
				s.stepRestore(in)
			case 4:
				s.stepReopen(in)
			case 5:
				// a client reads from this replica only (GET, PFCOUNT, HGETALL ...): must not matter either
				if in.sm != nil && in.dead == "" {
					logicalDump(in.st, s.ntable, s.firstPfadd)
					// PFCOUNT normalises the cached sketch in place (known finding hll-dirty-cache)
					in.flushAt = append(in.flushAt, in.applied)
					s.c.Probe("reads_on_one_replica")
					s.lg("read", "%d pos=%d", in.idx, in.applied)
				}
			}
		}
		if s.t.Bool(300) {
			s.stepSleep()
		}
		s.compareAt(target)
		if s.unknown() {
			break
		}
	}
	if !s.unknown() {
		s.compareReplies()
	}
	s.finish()
}

// ensure creates the instance's state machine at the current fake instant.
func (s *sim) ensure(in *inst) bool {
	if in.dead != "" {
		return false
	}
	if in.sm != nil {
		return true
	}
	in.dir = filepath.Join(s.root, fmt.Sprintf("i%d", in.idx))
	os.MkdirAll(in.dir, 0755)
	if err := s.open(in); err != nil {
		in.dead = "open: " + err.Error()
		s.lg("open.fail", "%d %v", in.idx, err)
		s.c.Count("infra.open_fail", 1)
		return false
	}
	in.firstApplyAt = s.now()
	s.lg("open", "%d eng=%s at=%d", in.idx, in.cfg.eng, s.now()-bubbleEpoch)
	return true
}

func (s *sim) buildList(in *inst, e entry) node.BatchInternalRaftRequest {
	var rl node.BatchInternalRaftRequest
	for i := e.from; i < e.to; i++ {
		r := s.log[i]
		var ir node.InternalRaftRequest
		ir.Header.ID = r.id
		ir.Header.Timestamp = r.ts
		if r.args == nil {
			ir.Header.DataType = int32(node.CustomReq)
			ir.Data = r.custom
		} else if e.v2 {
			ir.Header.DataType = int32(node.RedisV2Req)
			args := append([][]byte{}, r.args...)
			args[1] = append([]byte(nsPrefix), r.args[1]...)
			ir.Data = common.BuildCommand(args).Raw
		} else {
			ir.Header.DataType = int32(node.RedisReq)
			ir.Data = common.BuildCommand(r.args).Raw
		}
		rl.Reqs = append(rl.Reqs, ir)
	}
	rl.ReqNum = int32(len(rl.Reqs))
	if e.to-e.from == 1 {
		// what ProposeInternal / applyEntry produce for a single request
		rl.Timestamp = s.log[e.from].ts
		if e.listTs {
			// old logs: only the request header carries the timestamp
			rl.Timestamp = 0
		}
	} else if e.listTs {
		rl.Timestamp = s.log[e.from].ts
	}
	rl.ReqId = e.reqID
	if s.syncer && !s.ablateType {
		rl.Type = node.FromClusterSyncer
		rl.OrigTerm = 1
		rl.OrigIndex = uint64(e.from + 1)
		rl.OrigCluster = "src"
	}
	return rl
}

// nextEntry cuts the next raft entry for this instance (its own partition of
// the same request sequence).
func (s *sim) nextEntry(in *inst, from, limit int) entry {
	t := s.t
	e := entry{from: from, to: from + 1}
	if in.cfg.maxReqPerEnt > 1 {
		e.to = from + 1 + t.Choose(in.cfg.maxReqPerEnt)
		if e.to > limit {
			e.to = limit
		}
	}
	single := e.to-e.from == 1
	if single {
		r := s.log[from]
		// the v2 form is only produced for commands whose first argument is the only key
		if r.args != nil && len(r.keys) == 1 && t.Bool(in.cfg.v2Pm) && !s.syncer {
			e.v2 = true
		}
		if !e.v2 && t.Bool(in.cfg.listTsPm/4) {
			e.listTs = true
		}
	} else {
		same := true
		for i := e.from + 1; i < e.to; i++ {
			if s.log[i].ts != s.log[e.from].ts {
				same = false
			}
		}
		if same && t.Bool(in.cfg.listTsPm) {
			e.listTs = true
		}
	}
	if !e.v2 && (t.Bool(in.cfg.reqIDPm) || s.syncer) {
		// ProposeRawAsyncFromSyncer always sets a list-level id
		e.reqID = uint64(1<<40) + uint64(in.nent)
	}
	return e
}

// applyCall mirrors node.go applyEntries: one batch operator for the entries
// of one Ready, CommitBatch at the end.
func (s *sim) applyCall(in *inst, ents []entry, replay bool) {
	c := s.c
	curFrom, curTo := 0, 0
	defer func() {
		if e := recover(); e != nil {
			in.dead = fmt.Sprintf("panic in apply: %v", e)
			in.panicFrom, in.panicTo = curFrom, curTo
			s.lg("apply.panic", "%d %v", in.idx, e)
			s.c.Probe("apply_panic")
			// the process would be gone; release the write batch the handler left open so that Close can finish
			func() {
				defer func() { recover() }()
				in.st.AbortBatch()
			}()
		}
	}()
	batch := in.sm.GetBatchOperator()
	_ = curTo
	// mirror of kvbatchOperator (which requests share one write batch): used
	// for probes and for the ground truth of known finding batch-abort-on-error
	var open []int
	seen := map[string]bool{}
	nreq := 0
	cut := func() {
		open = nil
		seen = map[string]bool{}
	}
	for _, e := range ents {
		curFrom, curTo = e.from, e.to
		in.nent++
		isReplaying := replay || e.to <= in.cfg.replayUntil
		if s.ablateReplay {
			isReplaying = false
		}
		rl := s.buildList(in, e)
		for i := e.from; i < e.to; i++ {
			r := s.log[i]
			nreq++
			// (drawn unconditionally: the ablation re-run must consume the tape identically)
			lead := s.t.Bool(in.cfg.leaderPm)
			if !isReplaying && lead {
				in.w.Register(r.id)
			}
			if isReplaying {
				c.Probe("replayed_request")
			}
			if r.hll {
				s.hllKeys[string(r.args[1])] = true
			}
			if batchable(r) && len(open) < 100 && !seen[string(r.args[1])] {
				if len(open) > 0 {
					c.Probe("batch_ge2")
					s.batchedCalls++
				}
				if r.bad {
					// the handler fails: AbortBatchForError drops the whole open batch
					if len(open) > 0 {
						c.Probe("batch_aborted_by_failing_command")
					}
					// (known finding batch-abort-on-error was repaired in /repo: the
					// batch operator applies the dropped commands again; the
					// relaxation is switched off, the probe stays)
					for _, x := range open {
						if abortRepaired {
							break
						}
						in.aborted[x] = true
						for _, k := range s.log[x].keys {
							if _, ok := in.abortTaint[k]; !ok {
								in.abortTaint[k] = x
							}
						}
					}
					cut()
				} else {
					open = append(open, i)
					seen[string(r.args[1])] = true
				}
			} else {
				if batchable(r) && seen[string(r.args[1])] {
					c.Probe("same_key_twice_in_one_batch")
				} else if len(open) > 0 {
					c.Probe("batch_cut_by_nonbatchable")
				}
				cut()
			}
			if in.applyAt[i] == 0 {
				in.applyAt[i] = s.now()
			}
			in.lastApplyAt[i] = s.now()
		}
		if e.reqID != 0 {
			in.w.Register(e.reqID)
		}
		_, err := in.sm.ApplyRaftRequest(isReplaying, batch, rl, 1, in.nent, in.stop)
		if err != nil {
			s.lg("apply.err", "%d %v", in.idx, err)
		}
		s.c.Events += int64(e.to - e.from)
		if e.reqID != 0 {
			cut() // ApplyRaftRequest commits the batch at the end of such an entry
		}
	}
	if batch != nil {
		batch.CommitBatch()
	}
	if traceOn {
		for _, tb := range tables[:s.ntable] {
			n, _ := in.st.GetTableKeyCount([]byte(tb))
			fmt.Fprintf(core.Stdout, "  count %d %s=%d after [%d,%d)\n", in.idx, tb, n, ents[0].from, ents[len(ents)-1].to)
		}
		if w := os.Getenv("SMSIM_WATCH"); w != "" {
			v, err := in.st.KVGet([]byte(w))
			ex, _ := in.st.KVExists([]byte(w))
			fmt.Fprintf(core.Stdout, "  watch %d %s = %q err=%v exists=%d\n", in.idx, w, v, err, ex)
		}
	}
	// collect replies
	for _, e := range ents {
		for i := e.from; i < e.to; i++ {
			r := s.log[i]
			if in.w.has[r.id] {
				if _, dup := in.replies[i]; !dup {
					in.replies[i] = render(in.w.got[r.id])
					if s.onHLLKey(r) {
						// may depend on the run-to-run random bytes of a written-back sketch: keep it out of the trace hash
						s.lg("reply", "%d req=%d (on a HyperLogLog key)", in.idx, i)
					} else {
						s.lg("reply", "%d req=%d %s", in.idx, i, in.replies[i])
					}
				}
			} else if in.w.reg[r.id] {
				// a registered waiter that never got an answer: the client would hang
				in.replies[i] = "<no reply>"
				s.lg("reply.none", "%d req=%d", in.idx, i)
			}
		}
	}
}

func (s *sim) stepApply(in *inst, target int) {
	if !s.ensure(in) {
		return
	}
	var ents []entry
	pos := in.applied
	nEnt := 1 + s.t.Choose(in.cfg.maxEntPerCall)
	for i := 0; i < nEnt && pos < target; i++ {
		e := s.nextEntry(in, pos, target)
		ents = append(ents, e)
		pos = e.to
	}
	s.lg("apply", "%d [%d,%d) entries=%d at=%d", in.idx, in.applied, pos, len(ents), s.now()-bubbleEpoch)
	if len(ents) > 1 || ents[0].to-ents[0].from > 1 {
		s.partitionsDiffer = true
	}
	s.applyCall(in, ents, false)
	in.ents = append(in.ents, ents...)
	in.applied = pos
	in.calls = append(in.calls, pos)
}

func (s *sim) stepSleep() {
	t := s.t
	if s.sleeps > 40 {
		return
	}
	s.sleeps++
	now := s.now()
	var d time.Duration
	switch t.Weighted([]int{4, 6, 8, 4, 2, 1, 1}) {
	case 0:
		d = time.Millisecond * time.Duration(1+t.Choose(50))
	case 1:
		d = time.Second * time.Duration(1+t.Choose(5))
	case 2:
		// just past an expiry instant of the log that lies ahead of the clock
		var ahead []int64
		for _, e := range s.g.expiries {
			if e > now {
				ahead = append(ahead, e)
			}
		}
		if len(ahead) == 0 {
			d = time.Second
			break
		}
		sort.Slice(ahead, func(i, j int) bool { return ahead[i] < ahead[j] })
		e := ahead[t.Choose(len(ahead))]
		d = time.Duration(e-now) + time.Duration(pick(t, 1, 0, int(time.Second), 301*int(time.Second)))
	case 3:
		d = time.Second * time.Duration(300+t.Choose(3))
	case 4:
		d = time.Hour + time.Second*time.Duration(t.Choose(100))
	case 5:
		d = 50 * time.Hour
	case 6:
		d = 24 * time.Hour * time.Duration(3+t.Choose(30))
	}
	if d <= 0 {
		d = time.Millisecond
	}
	// evidence: does this sleep cross an expiry instant while some instance is in the middle of the log?
	mid := false
	for _, in := range s.ins {
		if in.sm != nil && in.applied > 0 && in.applied < s.n {
			mid = true
		}
	}
	if mid {
		for _, e := range s.g.expiries {
			if e > now && e <= now+int64(d) {
				s.expiryCrossed++
				s.c.Probe("expiry_crossed_between_entries")
				break
			}
		}
	}
	var before [][]expRec
	if s.policy == common.LocalDeletion {
		for _, in := range s.ins {
			if in.sm != nil {
				before = append(before, expireRecords(in.st))
			} else {
				before = append(before, nil)
			}
		}
	}
	s.lg("sleep", "%d", int64(d))
	time.Sleep(d)
	synctest.Wait()
	if s.policy == common.LocalDeletion {
		for i, in := range s.ins {
			if in.sm == nil || len(before[i]) == 0 {
				continue
			}
			after := map[expRec]bool{}
			for _, e := range expireRecords(in.st) {
				after[e] = true
			}
			for _, e := range before[i] {
				if !after[e] {
					k := e.class + "|" + e.key
					if _, ok := in.taint[k]; !ok {
						in.taint[k] = in.applied
					}
					s.c.Probe("local_deletion_fired")
					s.lg("localdel", "%d %s when=%d pos=%d", in.idx, k, e.when, in.applied)
				}
			}
		}
	}
}

func (s *sim) stepBackup(in *inst) {
	if in.sm == nil || in.dead != "" || in.applied == 0 {
		return
	}
	// Backup hands the request to the store's backup goroutine with a
	// non-blocking send: let that goroutine reach its receive first
	synctest.Wait()
	si, err := in.sm.GetSnapshot(1, uint64(in.applied))
	// Backup writes the HyperLogLog cache back before it even queues the checkpoint
	in.flushAt = append(in.flushAt, in.applied)
	if err != nil {
		s.lg("backup.fail", "%d %v", in.idx, err)
		return
	}
	_, err = si.GetResult()
	synctest.Wait()
	if err != nil {
		s.lg("backup.fail", "%d %v", in.idx, err)
		return
	}
	in.ckpt = in.applied
	s.c.Probe("checkpoint_taken")
	s.lg("backup", "%d pos=%d", in.idx, in.applied)
}

func (s *sim) stepRestore(in *inst) {
	if in.sm == nil || in.dead != "" || in.ckpt < 0 {
		return
	}
	var snap raftpb.Snapshot
	snap.Metadata.Term = 1
	snap.Metadata.Index = uint64(in.ckpt)
	err := in.sm.RestoreFromSnapshot(snap, in.stop)
	synctest.Wait()
	if err != nil {
		in.dead = "restore: " + err.Error()
		s.lg("restore.fail", "%d %v", in.idx, err)
		s.c.Count("infra.restore_fail", 1)
		return
	}
	s.restores++
	in.flushAt = append(in.flushAt, in.applied)
	s.c.Probe("restore_at_cut")
	s.c.Fault("restart")
	s.lg("restore", "%d to=%d replay=(%d,%d]", in.idx, in.ckpt, in.ckpt, in.applied)
	// replay the instance's own entries after the checkpoint, regrouped into apply calls
	var todo []entry
	for _, e := range in.ents {
		if e.from >= in.ckpt {
			todo = append(todo, e)
		}
	}
	for len(todo) > 0 {
		n := 1 + s.t.Choose(in.cfg.maxEntPerCall)
		if n > len(todo) {
			n = len(todo)
		}
		s.applyCall(in, todo[:n], true)
		todo = todo[n:]
		if in.dead != "" {
			return
		}
	}
	if in.ckpt < in.applied {
		s.c.Probe("replay_after_restore")
	}
}

func (s *sim) stepReopen(in *inst) {
	if in.sm == nil || in.dead != "" || in.cfg.eng != "pebble" {
		return
	}
	in.sm.Close()
	in.sm = nil
	synctest.Wait()
	if err := s.open(in); err != nil {
		in.dead = "reopen: " + err.Error()
		s.lg("reopen.fail", "%d %v", in.idx, err)
		s.c.Count("infra.reopen_fail", 1)
		return
	}
	s.reopens++
	in.flushAt = append(in.flushAt, in.applied)
	s.c.Probe("reopen_at_cut")
	s.c.Fault("restart")
	s.lg("reopen", "%d pos=%d", in.idx, in.applied)
}

func (s *sim) finish() {
	c := s.c
	// clock offset between instances: largest difference of the instants at which the same request was applied
	for i := 0; i < s.n; i++ {
		var lo, hi int64
		for _, in := range s.ins {
			at := in.applyAt[i]
			if at == 0 {
				continue
			}
			if lo == 0 || at < lo {
				lo = at
			}
			if at > hi {
				hi = at
			}
		}
		if hi-lo > s.maxOffset {
			s.maxOffset = hi - lo
		}
	}
	if s.maxOffset >= int64(time.Second) {
		c.Probe("clock_offset_ge_1s")
	}
	if s.maxOffset >= int64(24*time.Hour) {
		c.Probe("clock_offset_ge_1d")
	}
	s.checkDead()
	c.NonTrivial = s.n >= 30 && s.partitionsDiffer && s.batchedCalls > 0 &&
		(s.maxOffset >= int64(time.Second) || s.reopens+s.restores > 0)
	var sample []string
	for i := 0; i < len(s.log) && i < 25; i++ {
		sample = append(sample, fmt.Sprintf("ts=%d %s", s.log[i].ts-bubbleEpoch, s.log[i].String()))
	}
	var ics []string
	for _, in := range s.ins {
		ics = append(ics, fmt.Sprintf("%+v", in.cfg))
	}
	c.Sample = map[string]interface{}{"n": s.n, "policy": int(s.policy), "instances": ics, "log_head": sample,
		"max_clock_offset_s": s.maxOffset / int64(time.Second), "reopens": s.reopens, "restores": s.restores}
}

var traceOn = os.Getenv("SMSIM_TRACE") != ""

// lg records a trace line (and echoes it when SMSIM_TRACE is set: debugging aid for runs that hang).
func (s *sim) lg(kind string, format string, args ...interface{}) {
	s.c.Log(kind, format, args...)
	if traceOn {
		fmt.Fprintf(core.Stdout, "%s %s\n", kind, fmt.Sprintf(format, args...))
	}
}

// onHLLKey: does r touch a KV/bitmap key that a pfadd of the log touches too?
func (s *sim) onHLLKey(r *req) bool {
	for _, k := range r.keys {
		i := strings.IndexByte(k, '|')
		if k[:i] == clKV || k[:i] == clBit {
			if _, ok := s.firstPfadd[k[i+1:]]; ok {
				return true
			}
		}
	}
	return false
}
