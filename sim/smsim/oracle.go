package smsim

import (
	"encoding/hex"
	"fmt"
	"strconv"
	"strings"

	"github.com/youzan/ZanRedisDB/common"

	"verif/sim/core"
)

// ---- findings of one run -----------------------------------------------------
//
// Differences are collected first and turned into c.Violate calls at the end
// of the run, unknown ones first: the worker reports the first violation of a
// run, and a difference that is exactly a known finding must never mask an
// unknown one found later in the same run. A difference attributed to a known
// finding does not end the run: the affected items stay excluded (that is the
// finding's single relaxation) and everything else is still compared.

type finding struct{ rule, key, msg string }

func (s *sim) found(rule, key, format string, args ...interface{}) {
	for _, f := range s.findings {
		if f.rule == rule && f.key == key {
			return
		}
	}
	f := finding{rule, key, fmt.Sprintf(format, args...)}
	s.findings = append(s.findings, f)
	s.lg("difference", "%s key=%q %s", rule, key, f.msg)
}

func (s *sim) unknown() bool {
	for _, f := range s.findings {
		if f.key == "" {
			return true
		}
	}
	return false
}

func (s *sim) emit() {
	for _, f := range s.findings {
		if f.key == "" {
			s.c.Violate("C07", f.rule, "", "%s", f.msg)
		}
	}
	for _, f := range s.findings {
		if f.key != "" {
			s.c.Violate("C07", f.rule, f.key, "%s", f.msg)
		}
	}
}

// ---- known finding syncer-conflict-check-live-only ----------------------------
//
// Entries written by the log syncer of another cluster (Type FromClusterSyncer)
// go through preCheckConflict only when they are applied live (!isReplaying):
// a request whose key was modified at or after the request's timestamp, and
// every command that has no conflict handler at all (json.*, hclear, hexpire,
// hpersist, mset, the *mclear family, lfixkey, zfixkey ...), is acknowledged
// and NOT executed. The same entry replayed from the WAL after a restart is
// executed. Attributed by ablation (see Run), not by a per-item relaxation.

const keySyncer = "syncer-conflict-check-live-only"

// second consequence of the same pre-check, attributed by its own ablation
// (see Run): what it decides depends on expired keys the local-deletion
// checker has or has not removed yet on this replica
const keySyncerLD = "syncer-conflict-check-under-local-deletion"

// ---- known finding hll-dirty-cache -------------------------------------------
//
// PFADD keeps the sketch in a per-process dirty cache; the KV key space of the
// engine only learns about the key when the cache entry is written back
// (eviction, checkpoint, engine close, restore). What the KV (and the legacy
// bitmap-in-KV) commands see for such a key therefore depends on when this
// replica last took a checkpoint or restarted. The relaxation: for a pair of
// instances of which at least one wrote its cache back (checkpoint, restore,
// reopen) after a pfadd on key K had been applied, items and replies of
// KV/bitmap commands on K (plus the per-table aggregates K feeds) are not
// compared.

const keyHLL = "hll-dirty-cache"

func (s *sim) indexHLL() {
	s.firstPfadd = map[string]int{}
	s.firstOther = map[string]int{}
	for _, r := range s.log {
		for _, k := range r.keys {
			i := strings.IndexByte(k, '|')
			cl, key := k[:i], k[i+1:]
			if cl != clKV && cl != clBit {
				continue
			}
			if r.hll {
				if _, ok := s.firstPfadd[key]; !ok {
					s.firstPfadd[key] = r.idx
				}
			} else if _, ok := s.firstOther[key]; !ok {
				s.firstOther[key] = r.idx
			}
		}
	}
}

// hllActive: did one of the two instances write its HyperLogLog cache back
// (checkpoint, restore, engine close) or serve a PFCOUNT of its own (Count()
// merges the sketch's pending set in place, after which PFADD of an element
// that is already present answers differently) after a pfadd on key was
// applied? Two instances that never did hold the same cache and are compared
// in full.
func (s *sim) hllActive(a, b *inst, key string, before int) bool {
	at, ok := s.firstPfadd[key]
	if !ok || at >= before {
		return false
	}
	for _, in := range []*inst{a, b} {
		for _, f := range in.flushAt {
			if f > at {
				return true
			}
		}
	}
	return false
}

func (s *sim) anyPfadd(a, b *inst, pos int, pred func(key string) bool) bool {
	for k := range s.firstPfadd {
		if pred(k) && s.hllActive(a, b, k, pos) {
			return true
		}
	}
	return false
}

func tableOfItem(key string) string {
	if i := strings.IndexByte(key, ':'); i > 0 {
		return key[:i]
	}
	return key
}

// hllItem: is this logical dump item (taken after pos requests) covered by the relaxation?
func (s *sim) hllItem(a, b *inst, item string, pos int) bool {
	p := strings.SplitN(item, "|", 4)
	switch p[0] {
	case clKV, clBit:
		return s.hllActive(a, b, p[1], pos)
	case "table":
		return s.anyPfadd(a, b, pos, func(k string) bool { return tableOfItem(k) == p[1] })
	case "tables":
		return s.anyPfadd(a, b, pos, func(string) bool { return true })
	case "scan":
		return p[1] == clKV && s.anyPfadd(a, b, pos, func(k string) bool { return tableOfItem(k) >= p[2] })
	case "exp":
		if p[1] != clKV && p[1] != clBit {
			return false
		}
		return s.hllActive(a, b, p[2], pos)
	}
	return false
}

func (s *sim) hllReq(a, b *inst, r *req) bool {
	for _, k := range r.keys {
		i := strings.IndexByte(k, '|')
		cl, key := k[:i], k[i+1:]
		if cl != clKV && cl != clBit {
			continue
		}
		// also a later pfadd: a sketch that went through write-back + reload
		// (sparse list merged by the encoder) answers "changed" differently
		// from the one still held in the cache (pending temporary set)
		if s.hllActive(a, b, key, r.idx) {
			return true
		}
	}
	return false
}

// hllPhys: physical entries whose content depends on the write-back instant.
// (Unlike the logical view, the stored bytes differ as soon as only one side
// has written back, whether or not a KV command looked at them.)
func (s *sim) hllPhys(item string, pos int) bool {
	raw, err := hex.DecodeString(strings.TrimPrefix(item, "phys|"))
	if err != nil || len(raw) == 0 {
		return false
	}
	switch raw[0] {
	case 21, 32, 33, 101, 10: // kv, bitmap, bitmap meta, expire time key, table meta
	default:
		return false
	}
	rs := string(raw)
	for k, at := range s.firstPfadd {
		if at >= pos {
			continue
		}
		i := strings.IndexByte(k, ':')
		if raw[0] == 10 {
			if strings.Contains(rs, k[:i]) {
				return true
			}
		} else if strings.Contains(rs, k[:i]) && strings.Contains(rs, k[i+1:]) {
			return true
		}
	}
	return false
}

// ---- known findings hclear-local-clock, zfixkey-local-clock ---------------------
//
// rockredis HClear (hclear, hmclear) asks HLen for the size of the hash, and
// ZFixKey (zfixkey) asks ZRange for the members; both are read APIs that decide
// "expired" with time.Now(). Under wait_compact a replica that applies such a
// command at a log time before the key's expiry while its own clock is
// already past it (lagging follower, replay after a restart) sees an empty
// collection: hclear answers 0 and keeps the fields the other replicas delete,
// zfixkey "repairs" the size record of an intact sorted set to 0 (deletes it)
// and leaves the members behind; with the clock BEHIND the log time the same
// calls see an expired collection as alive (hclear deletes and counts it).
// The relaxation, per pair of instances:
// items/replies of that collection from such a command on (applied by the two
// instances with their local clocks on different sides of an expiry instant of
// the key) are not compared.

type clockFinding struct {
	key    string
	class  string
	cmds   []string
	expire string
	phys   []byte
}

const keyHClear = "hclear-local-clock"
const keyZFix = "zfixkey-local-clock"

// hclear-local-clock was found by this engine and, independently, repaired in
// the repository (commit 0a165e4 "HCLEAR decides on the log timestamp"): its
// relaxation is switched off, a recurrence is an unknown violation again
// (mutant m15 re-introduces the defect).
// zfixkey-local-clock likewise (commit 037dca3 "ZFIXKEY reads the members at the
// log timestamp").
var clockFindings = []clockFinding{}

var _ = clockFinding{keyZFix, clZSet, []string{"zfixkey"}, "zexpire", []byte{26, 27, 28}}

var _ = clockFinding{keyHClear, clHash, []string{"hclear", "hmclear"}, "hexpire", []byte{22, 23}}

// at returns the index of the first such command on key that one of the two
// instances applied under the finding's condition (-1: none).
func (f *clockFinding) at(s *sim, a, b *inst, key string) int {
	if s.policy != common.WaitCompact {
		return -1
	}
	sec := int64(1000000000)
	var exps []int64 // candidate expiry instants (s) set by earlier expire commands on key
	for _, r := range s.log {
		on := false
		for _, k := range r.keys {
			if k == f.class+"|"+key {
				on = true
			}
		}
		if !on {
			continue
		}
		if r.name == f.expire {
			if d, err := strconv.ParseInt(string(r.args[2]), 10, 64); err == nil {
				exps = append(exps, r.ts/sec+d)
			}
			continue
		}
		is := false
		for _, c := range f.cmds {
			if r.name == c {
				is = true
			}
		}
		if !is {
			continue
		}
		// the decision is taken on the replica's clock alone: the two instances
		// part ways iff one of them saw the key expired and the other did not
		times := func(in *inst) []int64 {
			var ts []int64
			if in.applyAt[r.idx] != 0 {
				ts = append(ts, in.applyAt[r.idx]/sec)
			}
			if in.lastApplyAt[r.idx] != 0 && in.lastApplyAt[r.idx] != in.applyAt[r.idx] {
				ts = append(ts, in.lastApplyAt[r.idx]/sec)
			}
			return ts
		}
		for _, e := range exps {
			for _, ta := range times(a) {
				for _, tb := range times(b) {
					if (ta >= e) != (tb >= e) {
						return r.idx
					}
				}
			}
		}
	}
	return -1
}

func (f *clockFinding) item(s *sim, a, b *inst, item string, pos int) bool {
	if s.policy != common.WaitCompact {
		return false
	}
	p := strings.SplitN(item, "|", 4)
	anyKey := func(pred func(tb string) bool) bool {
		for _, tb := range tables[:s.ntable] {
			if !pred(tb) {
				continue
			}
			for _, kk := range keyPool {
				if h := f.at(s, a, b, tb+":"+kk); h >= 0 && h < pos {
					return true
				}
			}
		}
		return false
	}
	switch p[0] {
	case f.class:
		h := f.at(s, a, b, p[1])
		return h >= 0 && h < pos
	case "table":
		return anyKey(func(tb string) bool { return tb == p[1] })
	case "tables":
		return anyKey(func(string) bool { return true })
	case "scan":
		return p[1] == f.class && anyKey(func(tb string) bool { return tb >= p[2] })
	}
	return false
}

func (f *clockFinding) req(s *sim, a, b *inst, r *req) bool {
	for _, k := range r.keys {
		if strings.HasPrefix(k, f.class+"|") {
			if h := f.at(s, a, b, k[len(f.class)+1:]); h >= 0 && h <= r.idx {
				return true
			}
		}
	}
	return false
}

func (f *clockFinding) physItem(s *sim, a, b *inst, item string, pos int) bool {
	if s.policy != common.WaitCompact {
		return false
	}
	raw, err := hex.DecodeString(strings.TrimPrefix(item, "phys|"))
	if err != nil || len(raw) == 0 {
		return false
	}
	ok := raw[0] == 10 // table meta
	for _, t := range f.phys {
		if raw[0] == t {
			ok = true
		}
	}
	if !ok {
		return false
	}
	rs := string(raw)
	for _, tb := range tables[:s.ntable] {
		for _, kk := range keyPool {
			if strings.Contains(rs, tb) && (raw[0] == 10 || strings.Contains(rs, kk)) {
				if h := f.at(s, a, b, tb+":"+kk); h >= 0 && h < pos {
					return true
				}
			}
		}
	}
	return false
}

// ---- known finding batch-abort-on-error ---------------------------------------
//
// set/setex/del/hmset on distinct keys share one write batch across the
// entries of one apply call. When one of them fails in its handler (setex with
// a duration the proposing node does not validate: 0, negative, not a number;
// hmset with an over-long field) kvbatchOperator.AbortBatchForError clears the
// WHOLE write batch and answers every request batched so far with that error.
// A replica that applied the same entries in smaller batches (or one by one)
// has executed and acknowledged them. The relaxation: replies of the requests
// the harness' mirror of the batch operator marks as dropped on one of the two
// instances, and items of the keys they wrote, are not compared.

const keyAbort = "batch-abort-on-error"

// repaired in /repo (kvbatchOperator.AbortBatchForError re-applies the commands
// batched so far): nothing is marked as dropped any more
const abortRepaired = true

func abortTainted(a, b *inst, pred func(class, key string, at int) bool) bool {
	for _, in := range []*inst{a, b} {
		for k, at := range in.abortTaint {
			i := strings.IndexByte(k, '|')
			if pred(k[:i], k[i+1:], at) {
				return true
			}
		}
	}
	return false
}

func abortItem(a, b *inst, item string) bool {
	if len(a.abortTaint) == 0 && len(b.abortTaint) == 0 {
		return false
	}
	p := strings.SplitN(item, "|", 4)
	switch p[0] {
	case "table":
		return abortTainted(a, b, func(_, key string, _ int) bool { return tableOfItem(key) == p[1] })
	case "tables":
		return true
	case "scan":
		return abortTainted(a, b, func(cl, key string, _ int) bool { return cl == p[1] && tableOfItem(key) >= p[2] })
	case "exp":
		return abortTainted(a, b, func(cl, key string, _ int) bool { return sameSpace(cl, p[1]) && key == p[2] })
	default:
		return abortTainted(a, b, func(cl, key string, _ int) bool { return sameSpace(cl, p[0]) && key == p[1] })
	}
}

func abortReq(a, b *inst, r *req) bool {
	if a.aborted[r.idx] || b.aborted[r.idx] {
		return true
	}
	for _, k := range r.keys {
		i := strings.IndexByte(k, '|')
		if abortTainted(a, b, func(cl, key string, at int) bool { return sameSpace(cl, k[:i]) && key == k[i+1:] && at < r.idx }) {
			return true
		}
	}
	return false
}

func abortPhys(a, b *inst, item string) bool {
	if len(a.abortTaint) == 0 && len(b.abortTaint) == 0 {
		return false
	}
	raw, err := hex.DecodeString(strings.TrimPrefix(item, "phys|"))
	if err != nil || len(raw) == 0 {
		return false
	}
	rs := string(raw)
	return abortTainted(a, b, func(_, key string, _ int) bool {
		i := strings.IndexByte(key, ':')
		if raw[0] == 10 {
			return strings.Contains(rs, key[:i])
		}
		return strings.Contains(rs, key[:i]) && strings.Contains(rs, key[i+1:])
	})
}

// ---- documented exception: local deletion ------------------------------------

// excused reports whether a logical dump item may differ between two
// instances under the local-deletion policy: the key was physically removed
// by the background checker of one of them (each on its own clock).
func (s *sim) excused(a, b *inst, item string) bool {
	if s.policy != common.LocalDeletion || (len(a.taint) == 0 && len(b.taint) == 0) {
		return false
	}
	parts := strings.SplitN(item, "|", 4)
	has := func(pred func(class, key string) bool) bool {
		for _, in := range []*inst{a, b} {
			for k := range in.taint {
				i := strings.IndexByte(k, '|')
				if pred(k[:i], k[i+1:]) {
					return true
				}
			}
		}
		return false
	}
	switch parts[0] {
	case "table":
		return has(func(_, key string) bool { return tableOfItem(key) == parts[1] })
	case "tables":
		return true
	case "scan":
		// the scan runs on into later tables
		return has(func(cl, key string) bool { return cl == parts[1] && tableOfItem(key) >= parts[2] })
	case "exp":
		return has(func(cl, key string) bool { return sameSpace(cl, parts[1]) && key == parts[2] })
	default:
		return has(func(cl, key string) bool { return sameSpace(cl, parts[0]) && key == parts[1] })
	}
}

// sameSpace: the bitmap commands fall back to (and migrate from) the KV key
// of the same name (legacy bitmap-in-KV format), so a removed KV key shows in
// the bitmap view of that key as well.
func sameSpace(tainted, item string) bool {
	return tainted == item || (tainted == clKV && item == clBit)
}

func taintedAt(in *inst, k string, i int) bool {
	if p, ok := in.taint[k]; ok && p <= i {
		return true
	}
	if strings.HasPrefix(k, clBit+"|") {
		if p, ok := in.taint[clKV+k[len(clBit):]]; ok && p <= i {
			return true
		}
	}
	return false
}

// ---- comparisons -------------------------------------------------------------

// hashDump feeds the trace hash. What is read from the KV key of a
// HyperLogLog is left out: the sketch is gob-encoded including a Go
// map, so the bytes differ from run to run even for one tape.
func (s *sim) hashDump(d dump) uint64 {
	var sb strings.Builder
	for _, k := range core.SortedKeys(d) {
		if p := strings.SplitN(k, "|", 3); len(p) == 3 && (p[0] == clKV || p[0] == clBit) {
			// (everything read from such a key: under wait_compact the bytes are
			// also taken for a value header, i.e. for ttl and version)
			if _, ok := s.firstPfadd[p[1]]; ok {
				continue
			}
		}
		sb.WriteString(k)
		sb.WriteByte(0)
		sb.WriteString(d[k])
		sb.WriteByte(1)
	}
	return core.HashString(sb.String())
}

func clip(s string) string {
	if len(s) > 160 {
		return s[:160] + "..."
	}
	return s
}

// diffDumps returns the differing items that class() maps to the given
// finding key (""=unknown), at most 4, rendered.
func diffDumps(a, b dump, class func(item string) string) map[string][]string {
	keys := map[string]bool{}
	for k := range a {
		keys[k] = true
	}
	for k := range b {
		keys[k] = true
	}
	out := map[string][]string{}
	for _, k := range core.SortedKeys(keys) {
		va, oka := a[k]
		vb, okb := b[k]
		if oka && okb && va == vb {
			continue
		}
		cl := class(k)
		if !oka {
			va = "<absent>"
		}
		if !okb {
			vb = "<absent>"
		}
		if len(out[cl]) < 4 {
			out[cl] = append(out[cl], fmt.Sprintf("%s: %s vs %s", clip(k), clip(va), clip(vb)))
		}
	}
	return out
}

const excusedClass = "\x00excused"

func (s *sim) compareAt(pos int) {
	c := s.c
	var live []*inst
	for _, in := range s.ins {
		if in.dead == "" && in.sm != nil && in.applied == pos {
			live = append(live, in)
		}
	}
	if len(live) < 2 {
		return
	}
	now := s.now()
	logical := make([]dump, len(live))
	phys := make([]dump, len(live))
	for i, in := range live {
		logical[i] = logicalDump(in.st, s.ntable, s.firstPfadd)
		phys[i] = physicalDump(in.st)
		s.lg("dump", "%d pos=%d at=%d items=%d phys=%d h=%x", in.idx, pos, now-bubbleEpoch, len(logical[i]), len(phys[i]), s.hashDump(logical[i]))
		if traceOn {
			for _, k := range core.SortedKeys(logical[i]) {
				fmt.Fprintf(core.Stdout, "  item %d %s = %s\n", in.idx, k, clip(logical[i][k]))
			}
		}
	}
	c.Probe("dump_compared")
	for i := 0; i < len(live); i++ {
		for j := i + 1; j < len(live); j++ {
			a, b := live[i], live[j]
			if a.cfg.eng != b.cfg.eng {
				c.Probe("engines_differ")
			}
			where := fmt.Sprintf("after the same %d log entries instance %d (%s) and %d (%s)", pos, a.idx, a.cfg.eng, b.idx, b.cfg.eng)
			att, _ := s.attribution(a, b, pos)
			d := diffDumps(logical[i], logical[j], func(item string) string {
				if s.excused(a, b, item) {
					return excusedClass
				}
				if s.hllItem(a, b, item, pos) {
					return keyHLL
				}
				for k := range clockFindings {
					if clockFindings[k].item(s, a, b, item, pos) {
						return clockFindings[k].key
					}
				}
				if abortItem(a, b, item) {
					return keyAbort
				}
				return attItem(att, item)
			})
			if len(d[excusedClass]) > 0 {
				c.Probe("difference_excused_local_deletion")
			}
			for _, k := range []string{keyHLL, keyHClear, keyZFix, keyAbort} {
				if m := d[k]; len(m) > 0 {
					if k == keyHLL {
						// no item list: which items differ depends on the run-to-run random bytes of a written-back sketch
						// (nor the pair: two written-back sketches differ or not by chance)
						s.found("data-differs", k, "instances that applied the same log prefix differ in what the KV/bitmap commands see under keys written by PFADD")
						continue
					}
					s.found("data-differs", k, "%s differ: %s", where, strings.Join(m, "; "))
				}
			}
			if m := d[""]; len(m) > 0 {
				s.found("data-differs", "", "%s differ: %s", where, strings.Join(m, "; "))
				return
			}
			// Physical content. The engines used here (mem, pebble) have no
			// compaction filter, so the stored key-value pairs are the result
			// of the write batches alone and latent differences (stale sub
			// keys, versions, modification stamps) are visible here before
			// they surface in a reply. Under local deletion only when no
			// background removal happened on either side.
			if s.policy == common.LocalDeletion && (len(a.taint) > 0 || len(b.taint) > 0) {
				continue
			}
			pd := diffDumps(phys[i], phys[j], func(item string) string {
				if s.hllPhys(item, pos) || abortPhys(a, b, item) || attPhys(att, item) {
					return excusedClass
				}
				for k := range clockFindings {
					if clockFindings[k].physItem(s, a, b, item, pos) {
						return excusedClass
					}
				}
				return ""
			})
			if m := pd[""]; len(m) > 0 {
				s.found("physical-differs", "", "%s store different key-value pairs: %s", where, strings.Join(m, "; "))
				return
			}
			c.Probe("physical_compared")
		}
	}
}

// directReq: is what request r does on these two instances directly covered
// by the relaxation of a known finding?
func (s *sim) directReq(a, b *inst, r *req) string {
	if s.hllReq(a, b, r) {
		return keyHLL
	}
	if abortReq(a, b, r) {
		return keyAbort
	}
	for k := range clockFindings {
		if clockFindings[k].req(s, a, b, r) {
			return clockFindings[k].key
		}
	}
	return ""
}

// attribution follows a known finding through the log: a request covered by
// a relaxation (or touching a key an earlier such request may have written
// differently) may write ALL its keys differently on the two instances (mset,
// plset, multi-key del, the *mclear family, delete-table; under the syncer
// type also the all-or-nothing conflict pre-check of a multi-key command).
// Result: "class|table:key" -> finding key, and per request the finding key.
func (s *sim) attribution(a, b *inst, upto int) (map[string]string, []string) {
	att := map[string]string{}
	per := make([]string, upto)
	look := func(k string) string {
		if f, ok := att[k]; ok {
			return f
		}
		if strings.HasPrefix(k, clBit+"|") {
			return att[clKV+k[len(clBit):]]
		}
		return ""
	}
	for i := 0; i < upto; i++ {
		r := s.log[i]
		f := s.directReq(a, b, r)
		if f == "" {
			for _, k := range r.keys {
				if g := look(k); g != "" {
					f = g
					break
				}
			}
		}
		per[i] = f
		if f != "" {
			for _, k := range r.keys {
				if _, ok := att[k]; !ok {
					att[k] = f
				}
			}
		}
	}
	return att, per
}

// attItem classifies a logical dump item through the attribution map.
func attItem(att map[string]string, item string) string {
	if len(att) == 0 {
		return ""
	}
	p := strings.SplitN(item, "|", 4)
	anyKey := func(pred func(cl, key string) bool) string {
		best := ""
		for k, f := range att {
			i := strings.IndexByte(k, '|')
			if pred(k[:i], k[i+1:]) && (best == "" || f < best) {
				best = f
			}
		}
		return best
	}
	switch p[0] {
	case "table":
		return anyKey(func(_, key string) bool { return tableOfItem(key) == p[1] })
	case "tables":
		return anyKey(func(string, string) bool { return true })
	case "scan":
		return anyKey(func(cl, key string) bool { return cl == p[1] && tableOfItem(key) >= p[2] })
	case "exp":
		return anyKey(func(cl, key string) bool { return sameSpace(cl, p[1]) && key == p[2] })
	default:
		return anyKey(func(cl, key string) bool { return sameSpace(cl, p[0]) && key == p[1] })
	}
}

// attPhys: physical entries of an attributed key (by table and key name).
func attPhys(att map[string]string, item string) bool {
	if len(att) == 0 {
		return false
	}
	raw, err := hex.DecodeString(strings.TrimPrefix(item, "phys|"))
	if err != nil || len(raw) == 0 {
		return false
	}
	rs := string(raw)
	for k := range att {
		key := k[strings.IndexByte(k, '|')+1:]
		i := strings.IndexByte(key, ':')
		if raw[0] == 10 {
			if strings.Contains(rs, key[:i]) {
				return true
			}
		} else if strings.Contains(rs, key[:i]) && strings.Contains(rs, key[i+1:]) {
			return true
		}
	}
	return false
}

func (s *sim) compareReplies() {
	c := s.c
	for i := 0; i < s.n; i++ {
		r := s.log[i]
		for x := 0; x < len(s.ins); x++ {
			for y := x + 1; y < len(s.ins); y++ {
				a, b := s.ins[x], s.ins[y]
				ra, oka := a.replies[i]
				rb, okb := b.replies[i]
				if !oka || !okb {
					continue
				}
				c.Count("replies_compared", 1)
				if ra == rb {
					continue
				}
				if s.policy == common.LocalDeletion {
					ex := false
					for _, k := range r.keys {
						if taintedAt(a, k, i) || taintedAt(b, k, i) {
							ex = true
						}
					}
					if ex {
						c.Probe("reply_difference_excused_local_deletion")
						continue
					}
				}
				_, per := s.attribution(a, b, i+1)
				key := per[i]
				if key == keyHLL {
					s.found("reply-differs", key, "a request on a key written by PFADD was answered differently by two instances")
					continue
				}
				s.found("reply-differs", key, "request %d (%s, ts=%d) answered %s on instance %d and %s on instance %d", i, r.String(), r.ts, clip(ra), a.idx, clip(rb), b.idx)
				if key == "" {
					return
				}
			}
		}
	}
}

// checkDead: a panic of the apply path kills the replica. When every replica
// dies at the same request it is a function of the log (C11's subject, not
// C07's); a replica that survives what killed another one is a divergence.
func (s *sim) checkDead() {
	c := s.c
	var dead, alive []*inst
	for _, in := range s.ins {
		if strings.HasPrefix(in.dead, "panic") {
			dead = append(dead, in)
			s.lg("dead", "%d %s", in.idx, in.dead)
			c.Violate("C11", "apply-panic", "", "instance %d: %s", in.idx, in.dead)
		} else if in.dead == "" && in.sm != nil {
			alive = append(alive, in)
		}
	}
	for _, d := range dead {
		for _, a := range alive {
			if a.applied >= d.panicTo {
				key := ""
				for i := d.panicFrom; i < d.panicTo; i++ {
					if _, per := s.attribution(d, a, i+1); per[i] != "" {
						key = per[i]
					}
				}
				s.found("panic-differs", key, "instance %d died applying request %d.. (%s), instance %d applied the same log up to %d without dying", d.idx, d.applied, d.dead, a.idx, a.applied)
			}
		}
	}
}
