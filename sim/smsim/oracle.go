package smsim

import (
	"encoding/hex"
	"fmt"
	"strings"

	"github.com/youzan/ZanRedisDB/common"

	"verif/sim/core"
)

// ---- findings of one run -----------------------------------------------------
//
// Differences are collected first and turned into c.Violate calls at the end
// of the run, unknown ones first: the worker reports the first violation of a
// run, and a difference that is exactly a known finding must never mask an
// unknown one found later in the same run. A difference attributed to a known
// finding does not end the run: the affected items stay excluded (that is the
// finding's single relaxation) and everything else is still compared.

type finding struct{ rule, key, msg string }

func (s *sim) found(rule, key, format string, args ...interface{}) {
	for _, f := range s.findings {
		if f.rule == rule && f.key == key {
			return
		}
	}
	f := finding{rule, key, fmt.Sprintf(format, args...)}
	s.findings = append(s.findings, f)
	s.lg("difference", "%s key=%q %s", rule, key, f.msg)
}

func (s *sim) unknown() bool {
	for _, f := range s.findings {
		if f.key == "" {
			return true
		}
	}
	return false
}

func (s *sim) emit() {
	for _, f := range s.findings {
		if f.key == "" {
			s.c.Violate("C07", f.rule, "", "%s", f.msg)
		}
	}
	for _, f := range s.findings {
		if f.key != "" {
			s.c.Violate("C07", f.rule, f.key, "%s", f.msg)
		}
	}
}

// ---- known finding hll-dirty-cache -------------------------------------------
//
// PFADD keeps the sketch in a per-process dirty cache; the KV key space of the
// engine only learns about the key when the cache entry is written back
// (eviction, checkpoint, engine close, restore). What the KV (and the legacy
// bitmap-in-KV) commands see for such a key therefore depends on when this
// replica last took a checkpoint or restarted. The relaxation: items and
// replies of KV/bitmap commands on a key that an EARLIER pfadd of the log
// touched (plus the per-table aggregates such a key feeds) are not compared.

const keyHLL = "hll-dirty-cache"

func (s *sim) indexHLL() {
	s.firstPfadd = map[string]int{}
	s.firstOther = map[string]int{}
	for _, r := range s.log {
		for _, k := range r.keys {
			i := strings.IndexByte(k, '|')
			cl, key := k[:i], k[i+1:]
			if cl != clKV && cl != clBit {
				continue
			}
			if r.hll {
				if _, ok := s.firstPfadd[key]; !ok {
					s.firstPfadd[key] = r.idx
				}
			} else if _, ok := s.firstOther[key]; !ok {
				s.firstOther[key] = r.idx
			}
		}
	}
}

func (s *sim) anyPfadd(pos int, pred func(key string) bool) bool {
	for k, at := range s.firstPfadd {
		if at < pos && pred(k) {
			return true
		}
	}
	return false
}

func tableOfItem(key string) string {
	if i := strings.IndexByte(key, ':'); i > 0 {
		return key[:i]
	}
	return key
}

// hllItem: is this logical dump item (taken after pos requests) covered by the relaxation?
func (s *sim) hllItem(item string, pos int) bool {
	p := strings.SplitN(item, "|", 4)
	switch p[0] {
	case clKV, clBit:
		at, ok := s.firstPfadd[p[1]]
		return ok && at < pos
	case "table":
		return s.anyPfadd(pos, func(k string) bool { return tableOfItem(k) == p[1] })
	case "tables":
		return s.anyPfadd(pos, func(string) bool { return true })
	case "scan":
		return p[1] == clKV && s.anyPfadd(pos, func(k string) bool { return tableOfItem(k) >= p[2] })
	case "exp":
		if p[1] != clKV && p[1] != clBit {
			return false
		}
		at, ok := s.firstPfadd[p[2]]
		return ok && at < pos
	}
	return false
}

func (s *sim) hllReq(r *req) bool {
	for _, k := range r.keys {
		i := strings.IndexByte(k, '|')
		cl, key := k[:i], k[i+1:]
		if cl != clKV && cl != clBit {
			continue
		}
		at, ok := s.firstPfadd[key]
		if !ok || at >= r.idx {
			continue
		}
		if !r.hll {
			return true
		}
		// a pfadd after earlier pfadds sees the same sketch whether it is
		// cached or written back, unless another command wrote the key between
		if o, ok := s.firstOther[key]; ok && o < r.idx {
			return true
		}
	}
	return false
}

// hllPhys: physical entries whose content depends on the write-back instant.
func (s *sim) hllPhys(item string, pos int) bool {
	raw, err := hex.DecodeString(strings.TrimPrefix(item, "phys|"))
	if err != nil || len(raw) == 0 {
		return false
	}
	switch raw[0] {
	case 21, 32, 33, 101, 10: // kv, bitmap, bitmap meta, expire time key, table meta
	default:
		return false
	}
	rs := string(raw)
	return s.anyPfadd(pos, func(k string) bool {
		i := strings.IndexByte(k, ':')
		if raw[0] == 10 {
			return strings.Contains(rs, k[:i])
		}
		return strings.Contains(rs, k[:i]) && strings.Contains(rs, k[i+1:])
	})
}

// ---- documented exception: local deletion ------------------------------------

// excused reports whether a logical dump item may differ between two
// instances under the local-deletion policy: the key was physically removed
// by the background checker of one of them (each on its own clock).
func (s *sim) excused(a, b *inst, item string) bool {
	if s.policy != common.LocalDeletion || (len(a.taint) == 0 && len(b.taint) == 0) {
		return false
	}
	parts := strings.SplitN(item, "|", 4)
	has := func(pred func(class, key string) bool) bool {
		for _, in := range []*inst{a, b} {
			for k := range in.taint {
				i := strings.IndexByte(k, '|')
				if pred(k[:i], k[i+1:]) {
					return true
				}
			}
		}
		return false
	}
	switch parts[0] {
	case "table":
		return has(func(_, key string) bool { return tableOfItem(key) == parts[1] })
	case "tables":
		return true
	case "scan":
		// the scan runs on into later tables
		return has(func(cl, key string) bool { return cl == parts[1] && tableOfItem(key) >= parts[2] })
	case "exp":
		return has(func(cl, key string) bool { return sameSpace(cl, parts[1]) && key == parts[2] })
	default:
		return has(func(cl, key string) bool { return sameSpace(cl, parts[0]) && key == parts[1] })
	}
}

// sameSpace: the bitmap commands fall back to (and migrate from) the KV key
// of the same name (legacy bitmap-in-KV format), so a removed KV key shows in
// the bitmap view of that key as well.
func sameSpace(tainted, item string) bool {
	return tainted == item || (tainted == clKV && item == clBit)
}

func taintedAt(in *inst, k string, i int) bool {
	if p, ok := in.taint[k]; ok && p <= i {
		return true
	}
	if strings.HasPrefix(k, clBit+"|") {
		if p, ok := in.taint[clKV+k[len(clBit):]]; ok && p <= i {
			return true
		}
	}
	return false
}

// ---- comparisons -------------------------------------------------------------

func hashDump(d dump) uint64 {
	var sb strings.Builder
	for _, k := range core.SortedKeys(d) {
		sb.WriteString(k)
		sb.WriteByte(0)
		sb.WriteString(d[k])
		sb.WriteByte(1)
	}
	return core.HashString(sb.String())
}

func clip(s string) string {
	if len(s) > 160 {
		return s[:160] + "..."
	}
	return s
}

// diffDumps returns the differing items that class() maps to the given
// finding key (""=unknown), at most 4, rendered.
func diffDumps(a, b dump, class func(item string) string) map[string][]string {
	keys := map[string]bool{}
	for k := range a {
		keys[k] = true
	}
	for k := range b {
		keys[k] = true
	}
	out := map[string][]string{}
	for _, k := range core.SortedKeys(keys) {
		va, oka := a[k]
		vb, okb := b[k]
		if oka && okb && va == vb {
			continue
		}
		cl := class(k)
		if !oka {
			va = "<absent>"
		}
		if !okb {
			vb = "<absent>"
		}
		if len(out[cl]) < 4 {
			out[cl] = append(out[cl], fmt.Sprintf("%s: %s vs %s", clip(k), clip(va), clip(vb)))
		}
	}
	return out
}

const excusedClass = "\x00excused"

func (s *sim) compareAt(pos int) {
	c := s.c
	var live []*inst
	for _, in := range s.ins {
		if in.dead == "" && in.sm != nil && in.applied == pos {
			live = append(live, in)
		}
	}
	if len(live) < 2 {
		return
	}
	now := s.now()
	logical := make([]dump, len(live))
	phys := make([]dump, len(live))
	for i, in := range live {
		logical[i] = logicalDump(in.st, s.ntable)
		phys[i] = physicalDump(in.st)
		s.lg("dump", "%d pos=%d at=%d items=%d phys=%d h=%x", in.idx, pos, now-bubbleEpoch, len(logical[i]), len(phys[i]), hashDump(logical[i]))
	}
	c.Probe("dump_compared")
	for i := 0; i < len(live); i++ {
		for j := i + 1; j < len(live); j++ {
			a, b := live[i], live[j]
			if a.cfg.eng != b.cfg.eng {
				c.Probe("engines_differ")
			}
			where := fmt.Sprintf("after the same %d log entries instance %d (%s) and %d (%s)", pos, a.idx, a.cfg.eng, b.idx, b.cfg.eng)
			d := diffDumps(logical[i], logical[j], func(item string) string {
				if s.excused(a, b, item) {
					return excusedClass
				}
				if s.hllItem(item, pos) {
					return keyHLL
				}
				return ""
			})
			if len(d[excusedClass]) > 0 {
				c.Probe("difference_excused_local_deletion")
			}
			if m := d[keyHLL]; len(m) > 0 {
				s.found("data-differs", keyHLL, "%s differ: %s", where, strings.Join(m, "; "))
			}
			if m := d[""]; len(m) > 0 {
				s.found("data-differs", "", "%s differ: %s", where, strings.Join(m, "; "))
				return
			}
			// Physical content. The engines used here (mem, pebble) have no
			// compaction filter, so the stored key-value pairs are the result
			// of the write batches alone and latent differences (stale sub
			// keys, versions, modification stamps) are visible here before
			// they surface in a reply. Under local deletion only when no
			// background removal happened on either side.
			if s.policy == common.LocalDeletion && (len(a.taint) > 0 || len(b.taint) > 0) {
				continue
			}
			pd := diffDumps(phys[i], phys[j], func(item string) string {
				if s.hllPhys(item, pos) {
					return excusedClass
				}
				return ""
			})
			if m := pd[""]; len(m) > 0 {
				s.found("physical-differs", "", "%s store different key-value pairs: %s", where, strings.Join(m, "; "))
				return
			}
			c.Probe("physical_compared")
		}
	}
}

func (s *sim) compareReplies() {
	c := s.c
	for i := 0; i < s.n; i++ {
		r := s.log[i]
		for x := 0; x < len(s.ins); x++ {
			for y := x + 1; y < len(s.ins); y++ {
				a, b := s.ins[x], s.ins[y]
				ra, oka := a.replies[i]
				rb, okb := b.replies[i]
				if !oka || !okb {
					continue
				}
				c.Count("replies_compared", 1)
				if ra == rb {
					continue
				}
				if s.policy == common.LocalDeletion {
					ex := false
					for _, k := range r.keys {
						if taintedAt(a, k, i) || taintedAt(b, k, i) {
							ex = true
						}
					}
					if ex {
						c.Probe("reply_difference_excused_local_deletion")
						continue
					}
				}
				key := ""
				if s.hllReq(r) {
					key = keyHLL
				}
				s.found("reply-differs", key, "request %d (%s, ts=%d) answered %s on instance %d and %s on instance %d", i, r.String(), r.ts, clip(ra), a.idx, clip(rb), b.idx)
				if key == "" {
					return
				}
			}
		}
	}
}

// checkDead: a panic of the apply path kills the replica. When every replica
// dies at the same request it is a function of the log (C11's subject, not
// C07's); a replica that survives what killed another one is a divergence.
func (s *sim) checkDead() {
	c := s.c
	var dead, alive []*inst
	for _, in := range s.ins {
		if strings.HasPrefix(in.dead, "panic") {
			dead = append(dead, in)
			s.lg("dead", "%d %s", in.idx, in.dead)
			c.Violate("C11", "apply-panic", "", "instance %d: %s", in.idx, in.dead)
		} else if in.dead == "" && in.sm != nil {
			alive = append(alive, in)
		}
	}
	for _, d := range dead {
		for _, a := range alive {
			if a.applied > d.applied {
				s.found("panic-differs", "", "instance %d died applying request %d.. (%s), instance %d applied the same log up to %d without dying", d.idx, d.applied, d.dead, a.idx, a.applied)
			}
		}
	}
}
