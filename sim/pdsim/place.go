package pdsim

import (
	"fmt"
	"sort"
	"strings"

	"github.com/youzan/ZanRedisDB/cluster"
	"github.com/youzan/ZanRedisDB/cluster/pdnode_coord"

	"verif/sim/core"
)

// ---------------------------------------------------------------------------
// C17: placement
// ---------------------------------------------------------------------------

type pnode struct {
	info cluster.NodeInfo
	dc   string // "" = the code sees no data centre for this node
	live bool
}

type placeSim struct {
	c           *core.RunCtx
	t           *core.Tape
	nodes       []*pnode // universe in creation order
	usedReg     map[uint64]bool
	nDC         int
	dcMode      int
	ns          string
	parts       int
	replica     int
	checked     int // layouts produced and checked
	mapSeed     uint32
	fatal       bool // an unexplained violation was recorded: stop the history
	knownPanics int
	refused     int
	clauses     map[string]int
}

var nsNames = []string{"ns", "default", "test", "yz_kv_a", "p", "order-meta", "x9", "zankv_long_namespace_name_0001"}

func (s *placeSim) newNode(dcIdx int) *pnode {
	t := s.t
	reg := uint64(1 + t.Choose(1500))
	for s.usedReg[reg] {
		reg++
	}
	s.usedReg[reg] = true
	n := &pnode{live: true}
	n.info = cluster.NodeInfo{RegID: reg, NodeIP: fmt.Sprintf("10.%d.%d.%d", dcIdx+1, reg/250, reg%250+1), RedisPort: "12380", HttpPort: "12381"}
	n.info.ID = cluster.GenNodeID(&n.info, "datanode")
	switch s.dcMode {
	case 2: // no tags at all
	case 4: // mixed: some nodes without tag or with a non-string tag
		switch t.Choose(4) {
		case 0:
			n.info.Tags = map[string]interface{}{}
		case 1:
			n.info.Tags = map[string]interface{}{cluster.DCInfoTag: 7}
		default:
			n.dc = fmt.Sprintf("dc%d", dcIdx+1)
			n.info.Tags = map[string]interface{}{cluster.DCInfoTag: n.dc, "other": "x"}
		}
	default:
		n.dc = fmt.Sprintf("dc%d", dcIdx+1)
		n.info.Tags = map[string]interface{}{cluster.DCInfoTag: n.dc}
	}
	s.nodes = append(s.nodes, n)
	return n
}

func (s *placeSim) dcFor(i int) int {
	switch s.dcMode {
	case 0: // even round robin
		return i % s.nDC
	case 3: // skewed
		if s.t.Choose(10) < 7 {
			return 0
		}
		return s.t.Choose(s.nDC)
	default:
		return s.t.Choose(s.nDC)
	}
}

func (s *placeSim) liveMap() map[string]cluster.NodeInfo {
	m := make(map[string]cluster.NodeInfo)
	for _, n := range s.nodes {
		if n.live {
			m[n.info.ID] = n.info
		}
	}
	return m
}

func (s *placeSim) liveList() []*pnode {
	var l []*pnode
	for _, n := range s.nodes {
		if n.live {
			l = append(l, n)
		}
	}
	sort.Slice(l, func(i, j int) bool { return l[i].info.ID < l[j].info.ID })
	return l
}

func (s *placeSim) deadList() []*pnode {
	var l []*pnode
	for _, n := range s.nodes {
		if !n.live {
			l = append(l, n)
		}
	}
	sort.Slice(l, func(i, j int) bool { return l[i].info.ID < l[j].info.ID })
	return l
}

func (s *placeSim) byID(id string) *pnode {
	for _, n := range s.nodes {
		if n.info.ID == id {
			return n
		}
	}
	return nil
}

func cloneLayout(l [][]string) [][]string {
	if l == nil {
		return nil
	}
	out := make([][]string, len(l))
	for i, p := range l {
		if p != nil {
			out[i] = append([]string{}, p...)
		}
	}
	return out
}

func layoutString(l [][]string) string {
	var b strings.Builder
	for i, p := range l {
		if i > 0 {
			b.WriteByte('|')
		}
		b.WriteString(strings.Join(p, ","))
	}
	return b.String()
}

// short form for messages: registration ids only
func layoutShort(l [][]string) string {
	var b strings.Builder
	for i, p := range l {
		if i > 0 {
			b.WriteByte('|')
		}
		for j, n := range p {
			if j > 0 {
				b.WriteByte(',')
			}
			if k := strings.Index(n, ":"); k >= 0 {
				b.WriteString(n[:k])
			} else {
				b.WriteString(fmt.Sprintf("%q", n)) // not a node id (an empty slot of a broken layout)
			}
		}
	}
	return b.String()
}

type evalResult struct {
	layout   [][]string
	refused  bool
	otherErr string
	panicked string
}

func (r evalResult) key() string {
	if r.panicked != "" {
		return "panic:" + r.panicked
	}
	if r.refused {
		return "refused"
	}
	if r.otherErr != "" {
		return "err:" + r.otherErr
	}
	return layoutString(r.layout)
}

// evalOnce calls the real layout function with freshly built inputs (a new Go
// map each time, so the iteration order inside the function differs).
func (s *placeSim) evalOnce(ver string, old [][]string) (res evalResult) {
	defer func() {
		if e := recover(); e != nil {
			res.panicked = fmt.Sprint(e)
		}
	}()
	l, err := pdnode_coord.VerifGetRebalancedNamespacePartitions(s.ns, s.parts, s.replica, cloneLayout(old), s.liveMap(), ver)
	if err != nil {
		if err == pdnode_coord.ErrNodeUnavailable {
			res.refused = true
		} else {
			res.otherErr = err.String()
		}
		return
	}
	res.layout = l
	return
}

// evaluate computes a layout three times and checks every per-layout clause
// of the property. It returns the layout (nil when refused).
func (s *placeSim) evaluate(tag string, ver string, old [][]string, fresh bool) [][]string {
	c := s.c
	live := s.liveMap()
	r1 := s.evalOnce(ver, old)
	desc := func() string {
		var ids []string
		for _, n := range s.liveList() {
			ids = append(ids, n.info.ID[:strings.Index(n.info.ID, ":")]+"@"+n.dc)
		}
		return fmt.Sprintf("%s ver=%s ns=%s parts=%d replica=%d live=%v old=%s", tag, ver, s.ns, s.parts, s.replica, ids, layoutShort(old))
	}
	if r1.panicked != "" {
		key := ""
		if ver == pdnode_coord.BalanceV2Str && s.oldLongerThanReplica(old) {
			// ground truth: a "current" list handed in has more entries than the
			// replication factor (the add-before-remove state of a balance move, or
			// the state after the operator lowered the replication factor)
			key = "v2-panic-current-list-longer-than-replica"
			s.knownPanics++
			c.Count("known."+key, 1)
		}
		s.viol("panic", key, "layout function panicked: %s; input %s", r1.panicked, desc())
		return nil
	}
	for i := 0; i < 2; i++ {
		// (only effective in builds with the detmap overlay: another map order)
		s.mapSeed += 0x9E3779B9
		seedMapOrder(s.mapSeed)
		r := s.evalOnce(ver, old)
		if r.key() != r1.key() {
			s.viol("nondeterministic", "", "same inputs gave different results: %s vs %s; input %s", short(r1), short(r), desc())
			return nil
		}
	}
	wantRefuse := len(live) < s.replica
	if r1.otherErr != "" {
		s.viol("refusal", "", "unexpected error %s; input %s", r1.otherErr, desc())
		return nil
	}
	if r1.refused != wantRefuse {
		s.viol("refusal", "", "refused=%v but live nodes=%d replica=%d; input %s", r1.refused, len(live), s.replica, desc())
		return nil
	}
	if r1.refused {
		s.refused++
		c.Log("refused", "%s", tag)
		return nil
	}
	l := r1.layout
	s.checked++
	c.Log("layout", "%s %016x", tag, core.HashString(layoutString(l)))
	if len(l) != s.parts {
		s.viol("replica-count", "", "layout has %d partitions, want %d; input %s", len(l), s.parts, desc())
		return l
	}
	for pid, p := range l {
		if len(p) != s.replica {
			s.viol("replica-count", "", "partition %d has %d replicas %v, want %d; input %s -> %s", pid, len(p), p, s.replica, desc(), layoutShort(l))
		}
		seen := map[string]bool{}
		for _, n := range p {
			if seen[n] {
				s.viol("distinct", "", "partition %d has node %q twice; input %s -> %s", pid, n, desc(), layoutShort(l))
			}
			seen[n] = true
			if _, ok := live[n]; !ok {
				s.viol("live", "", "partition %d placed on %q which is not a live node; input %s -> %s", pid, n, desc(), layoutShort(l))
			}
		}
	}
	if fresh {
		s.checkFresh(ver, l, desc)
	}
	return l
}

func short(r evalResult) string {
	if r.layout != nil {
		return layoutShort(r.layout)
	}
	return r.key()
}

func (s *placeSim) viol(rule, key, format string, args ...interface{}) {
	if key == "" {
		s.fatal = true
	}
	s.c.Violate("C17", rule, key, format, args...)
}

// oldLongerThanReplica: some partition's current list has more entries than
// the replication factor.
func (s *placeSim) oldLongerThanReplica(old [][]string) bool {
	for _, p := range old {
		if len(p) > s.replica {
			return true
		}
	}
	return false
}

// checkFresh: the clauses that hold for fresh layouts only.
func (s *placeSim) checkFresh(ver string, l [][]string, desc func() string) {
	c := s.c
	live := s.liveList()
	// rack awareness: nodes evenly spread over >= replica data centres
	perDC := map[string]int{}
	allTagged := true
	for _, n := range live {
		if n.dc == "" {
			allTagged = false
		}
		perDC[n.dc]++
	}
	even := allTagged
	cnt := -1
	for _, k := range core.SortedKeys(perDC) {
		if cnt == -1 {
			cnt = perDC[k]
		} else if perDC[k] != cnt {
			even = false
		}
	}
	if even && len(perDC) >= s.replica {
		s.clauses["dc-spread"]++
		if len(perDC) > 1 && s.replica > 1 {
			c.Probe("dc_spread_checked_multi")
		}
		for pid, p := range l {
			seen := map[string]string{}
			for _, id := range p {
				n := s.byID(id)
				if n == nil {
					continue
				}
				if o, ok := seen[n.dc]; ok {
					s.viol("dc-spread", "", "%s: partition %d has replicas %s and %s both in %s although %d nodes are evenly spread over %d data centres; input %s -> %s",
						ver, pid, o, id, n.dc, len(live), len(perDC), desc(), layoutShort(l))
				}
				seen[n.dc] = id
			}
		}
	}
	if ver != pdnode_coord.BalanceV2Str && len(live) > 0 && s.parts%len(live) == 0 {
		s.clauses["v1-leader-balance"]++
		if len(live) > 1 {
			c.Probe("v1_leader_balance_checked_multi")
		}
		lead := map[string]int{}
		for _, p := range l {
			if len(p) > 0 {
				lead[p[0]]++
			}
		}
		want := s.parts / len(live)
		for _, n := range live {
			if lead[n.info.ID] != want {
				s.viol("v1-leader-balance", "", "node %s leads %d partitions, want %d (partitions %d, nodes %d); input %s -> %s",
					n.info.ID, lead[n.info.ID], want, s.parts, len(live), desc(), layoutShort(l))
				break
			}
		}
	}
}

func runPlacement(c *core.RunCtx) {
	t := c.Tape
	s := &placeSim{c: c, t: t, usedReg: map[uint64]bool{}, clauses: map[string]int{}}
	// ---- topology
	var n int
	switch t.Weighted([]int{4, 3, 2}) {
	case 0:
		n = t.Range(1, 6)
	case 1:
		n = t.Range(7, 15)
	default:
		n = t.Range(16, 40)
	}
	s.nDC = t.Range(1, 4)
	s.dcMode = t.Weighted([]int{5, 3, 1, 1, 1}) // even, uneven, none, skewed, mixed
	if s.dcMode == 0 && t.Choose(3) != 0 {
		// make the spread exactly even
		n = (n / s.nDC) * s.nDC
		if n == 0 {
			n = s.nDC
		}
	}
	s.replica = t.Range(1, 5)
	switch t.Weighted([]int{3, 3, 2}) {
	case 0:
		s.parts = t.Range(1, 8)
	case 1:
		s.parts = t.Range(1, 64)
	default: // a multiple of the node count (the v1 leader-balance clause)
		k := 64 / n
		if k < 1 {
			s.parts = t.Range(1, 64)
		} else {
			s.parts = n * t.Range(1, k)
		}
	}
	s.ns = nsNames[t.Choose(len(nsNames))]
	if t.Choose(4) == 0 {
		s.ns = fmt.Sprintf("ns%d", t.Choose(1000))
	}
	for i := 0; i < n; i++ {
		s.newNode(s.dcFor(i))
	}
	c.Log(fmt.Sprintf("cfg/n%d/dc%d/m%d/p%d/r%d", n, s.nDC, s.dcMode, s.parts, s.replica), "ns=%s", s.ns)

	// ---- fresh layouts, both algorithms (generator-only part)
	s.evaluate("fresh-v1", "v1", nil, true)
	if t.Choose(8) == 0 {
		// the empty version string selects the ring algorithm at function level
		s.evaluate("fresh-v1-empty", "", nil, true)
	}
	cur := s.evaluate("fresh-v2", pdnode_coord.BalanceV2Str, nil, true)

	// ---- v2 histories (simulated part): node loss / recovery / addition, each
	// layout computed from the register content left by the previous ones
	maxSteps := 12
	if c.Tier == "thorough" {
		maxSteps = 30
	}
	steps := t.Range(0, maxSteps)
	nsteps := 0
	midMigration := t.Choose(4) == 0 // allow add-before-remove states (replica+1 entries)
	for i := 0; i < steps && !s.fatal; i++ {
		kind := t.Weighted([]int{4, 3, 2, 1, 1})
		switch kind {
		case 0, 3: // loss (3: several at once)
			k := 1
			if kind == 3 {
				k = t.Range(2, 4)
			}
			for ; k > 0; k-- {
				l := s.liveList()
				if len(l) == 0 {
					break
				}
				x := l[t.Choose(len(l))]
				x.live = false
				c.Log("loss", "%s", x.info.ID)
			}
		case 1: // recovery
			d := s.deadList()
			if len(d) == 0 {
				continue
			}
			x := d[t.Choose(len(d))]
			x.live = true
			c.Log("recover", "%s", x.info.ID)
		case 2: // addition
			if len(s.nodes) >= 40 {
				continue
			}
			x := s.newNode(s.dcFor(len(s.nodes)))
			c.Log("add", "%s dc=%s", x.info.ID, x.dc)
		case 4: // re-evaluation without change
			c.Log("reeval", "")
		}
		nsteps++
		next := s.evaluate(fmt.Sprintf("step%d", i), pdnode_coord.BalanceV2Str, cur, false)
		cur = s.advanceRegister(cur, next, midMigration)
	}
	c.Events = int64(s.checked + s.refused)
	c.Count("layouts_checked", int64(s.checked))
	c.Count("layouts_refused", int64(s.refused))
	c.Count("history_steps", int64(nsteps))
	for _, k := range core.SortedKeys(s.clauses) {
		c.Count("clause."+k, int64(s.clauses[k]))
	}
	c.NonTrivial = s.checked >= 1
	c.Sample = map[string]interface{}{
		"nodes": n, "data_centres": s.nDC, "dc_mode": s.dcMode, "partitions": s.parts, "replica": s.replica, "namespace": s.ns,
		"history_steps": nsteps, "layouts_checked": s.checked, "refused": s.refused,
		"last_layout": truncate(layoutShort(cur), 300),
	}
}

func truncate(s string, n int) string {
	if len(s) > n {
		return s[:n] + "..."
	}
	return s
}

// advanceRegister models how the register content (what the coordinator hands
// to the layout function as the current partition nodes: each partition's
// ISR) moves after a layout was computed: all at once, not at all, for some
// partitions only, or one coordinator step per partition (drop a dead
// replica, add one wanted node, with add-before-remove when enabled).
func (s *placeSim) advanceRegister(cur, next [][]string, midMigration bool) [][]string {
	t := s.t
	mode := t.Weighted([]int{4, 1, 2, 3})
	s.c.Log(fmt.Sprintf("apply%d", mode), "")
	if cur == nil {
		cur = make([][]string, 0)
	}
	out := cloneLayout(cur)
	for len(out) < s.parts && next != nil {
		out = append(out, nil)
	}
	switch mode {
	case 0:
		if next != nil {
			return cloneLayout(next)
		}
		return out
	case 1:
		return out
	case 2:
		if next == nil {
			return out
		}
		for p := range out {
			if p < len(next) && t.Bool(500) {
				out[p] = append([]string{}, next[p]...)
			}
		}
		return out
	}
	// mode 3: one coordinator-like step per partition
	for p := range out {
		lst := out[p]
		// drop one dead replica if a majority of the replication factor remains
		dropped := false
		for i, id := range lst {
			if n := s.byID(id); n == nil || !n.live {
				if len(lst)-1 > s.replica/2 {
					lst = append(append([]string{}, lst[:i]...), lst[i+1:]...)
					dropped = true
				}
				break
			}
		}
		if !dropped && next != nil && p < len(next) {
			want := next[p]
			if len(lst) < s.replica || (midMigration && len(lst) == s.replica) {
				for _, id := range want {
					if cluster.FindSlice(lst, id) == -1 {
						lst = append(append([]string{}, lst...), id)
						break
					}
				}
			} else if len(lst) > s.replica {
				for i, id := range lst {
					if cluster.FindSlice(want, id) == -1 {
						lst = append(append([]string{}, lst[:i]...), lst[i+1:]...)
						break
					}
				}
			}
		}
		out[p] = lst
	}
	return out
}
