package pdsim

import (
	"errors"
	"fmt"
	"runtime"
	"sort"
	"strings"
	"time"

	"github.com/youzan/ZanRedisDB/cluster"
	"github.com/youzan/ZanRedisDB/common"
)

// ---------------------------------------------------------------------------
// In-memory PDRegister (the etcd stand-in). All state lives in coordSim and is
// protected by coordSim.mu: the coordinator's goroutines call in concurrently.
// No method draws from the tape: faults are state set up by the simulator
// goroutine (windows in fake time, counters per partition).
// ---------------------------------------------------------------------------

var (
	errRegDown   = errors.New("sim: register unreachable")
	errRegWrite  = errors.New("sim: register write failed")
	errRegAck    = errors.New("sim: register write timed out (applied)")
	errCAS       = errors.New("sim: compare failed (epoch changed)")
	errNotExist  = errors.New("sim: key does not exist")
	errExistsCAS = errors.New("sim: key already exists")
)

type part struct {
	ns  string
	pid int
	// register content
	cur    *cluster.PartitionReplicaInfo // nil: partition directory exists, no replica info yet
	curSeq int64                         // observation sequence number at which cur's content was accepted
	nvers  int
	// history for the oracle
	usedIDs map[uint64]string // replica id -> node it was given to
	// injected register faults
	conflictNext int // a concurrent writer bumps the epoch at the next direct read
	failWrites   int // next writes fail without being applied
	lostAcks     int // next writes are applied but report an error
	// ground truth of the simulated raft group
	bootstrapped bool
	members      map[string]uint64 // node id -> replica id (committed membership)
	memCache     []*common.MemberInfo
	joinSeen     map[string]time.Time
	removeSeen   map[string]time.Time
	syncedAt     map[string]time.Time
	lastSync     map[string]syncAns // node id -> most recent is-raft-synced answer
	balPollFirst time.Time          // the balancer's wait loop: first and last poll of the current streak
	balPollLast  time.Time
	// tail
	recovered bool
}

type syncAns struct {
	ok   bool
	what string
	seq  int64
	at   time.Time
}

func (p *part) name() string { return fmt.Sprintf("%s-%d", p.ns, p.pid) }

type watcher struct {
	q    [][]cluster.NodeInfo
	note chan struct{}
}

type leaderWatch struct {
	q    []*cluster.NodeInfo
	note chan struct{}
}

func (s *coordSim) regDownLocked() bool { return time.Now().Before(s.regDownUntil) }

func (s *coordSim) partLocked(ns string, pid int) *part {
	if m, ok := s.parts[ns]; ok {
		return m[pid]
	}
	return nil
}

func (s *coordSim) sortedParts() []*part {
	var l []*part
	for _, ns := range s.nsOrder {
		m := s.parts[ns]
		pids := make([]int, 0, len(m))
		for pid := range m {
			pids = append(pids, pid)
		}
		sort.Ints(pids)
		for _, pid := range pids {
			l = append(l, m[pid])
		}
	}
	return l
}

func (s *coordSim) partInfoLocked(ns string, pid int) (*cluster.PartitionMetaInfo, error) {
	m, ok := s.metas[ns]
	if !ok {
		return nil, cluster.ErrKeyNotFound
	}
	p := s.partLocked(ns, pid)
	if p == nil || p.cur == nil {
		return nil, cluster.ErrKeyNotFound
	}
	var info cluster.PartitionMetaInfo
	info.Name = ns
	info.Partition = pid
	info.NamespaceMetaInfo = m.DeepClone()
	info.PartitionReplicaInfo = p.cur.DeepClone()
	return &info, nil
}

func (s *coordSim) allNamespacesLocked() map[string]map[int]cluster.PartitionMetaInfo {
	out := map[string]map[int]cluster.PartitionMetaInfo{}
	for ns := range s.metas {
		for pid := range s.parts[ns] {
			if i, err := s.partInfoLocked(ns, pid); err == nil {
				if out[ns] == nil {
					out[ns] = map[int]cluster.PartitionMetaInfo{}
				}
				out[ns][pid] = *i
			}
		}
	}
	return out
}

// fakeReg implements cluster.PDRegister on top of coordSim.
type fakeReg struct{ s *coordSim }

func (r *fakeReg) InitClusterID(id string) {}
func (r *fakeReg) Start()                  {}
func (r *fakeReg) Stop()                   {}

func (r *fakeReg) GetAllPDNodes() ([]cluster.NodeInfo, error) {
	s := r.s
	s.mu.Lock()
	defer s.mu.Unlock()
	if s.me == nil {
		return nil, nil
	}
	return []cluster.NodeInfo{*s.me}, nil
}

func (r *fakeReg) GetNamespacePartInfo(ns string, pid int) (*cluster.PartitionMetaInfo, error) {
	s := r.s
	fromBalancerWait := callerIs(".addNodeToNamespaceAndWaitReady")
	s.mu.Lock()
	s.lastNS = ns
	defer s.mu.Unlock()
	if p := s.partLocked(ns, pid); p != nil && fromBalancerWait {
		now := time.Now()
		if p.balPollLast.IsZero() || now.Sub(p.balPollLast) > time.Minute {
			p.balPollFirst = now
		}
		p.balPollLast = now
	}
	// the etcd register serves this from its cache: during an outage the last
	// successfully scanned content is returned
	if s.regDownLocked() && s.stale != nil {
		if m, ok := s.stale[ns]; ok {
			if p, ok := m[pid]; ok {
				return p.GetCopy(), nil
			}
		}
		return nil, cluster.ErrKeyNotFound
	}
	return s.partInfoLocked(ns, pid)
}

func (r *fakeReg) GetRemoteNamespaceReplicaInfo(ns string, pid int) (*cluster.PartitionReplicaInfo, error) {
	s := r.s
	s.mu.Lock()
	s.lastNS = ns
	defer s.mu.Unlock()
	if s.regDownLocked() {
		return nil, errRegDown
	}
	if p := s.partLocked(ns, pid); p != nil && p.cur != nil && p.conflictNext > 0 {
		// a concurrent writer (another placement driver) rewrote the entry just
		// before this direct read: same content, new epoch. Whatever the
		// coordinator derived from its earlier scan must now fail its CAS. Stays
		// armed until the coordinator attempts a write of this partition.
		s.idx++
		p.cur.VerifSetEpoch(cluster.EpochType(s.idx))
		s.stats["fault.register_concurrent_write"]++
	}
	i, err := s.partInfoLocked(ns, pid)
	if err != nil {
		return nil, err
	}
	return &i.PartitionReplicaInfo, nil
}

func (r *fakeReg) GetNamespaceMetaInfo(ns string) (cluster.NamespaceMetaInfo, error) {
	s := r.s
	s.mu.Lock()
	s.lastNS = ns
	defer s.mu.Unlock()
	if s.regDownLocked() {
		return cluster.NamespaceMetaInfo{}, errRegDown
	}
	m, ok := s.metas[ns]
	if !ok {
		return cluster.NamespaceMetaInfo{}, cluster.ErrKeyNotFound
	}
	return m.DeepClone(), nil
}

func (r *fakeReg) GetNamespaceInfo(ns string) ([]cluster.PartitionMetaInfo, error) {
	s := r.s
	s.mu.Lock()
	defer s.mu.Unlock()
	if s.regDownLocked() {
		return nil, errRegDown
	}
	var l []cluster.PartitionMetaInfo
	for pid := range s.parts[ns] {
		if i, err := s.partInfoLocked(ns, pid); err == nil {
			l = append(l, *i)
		}
	}
	sort.Slice(l, func(i, j int) bool { return l[i].Partition < l[j].Partition })
	return l, nil
}

func callerIs(suffix string) bool {
	var pcs [6]uintptr
	n := runtime.Callers(3, pcs[:])
	fr := runtime.CallersFrames(pcs[:n])
	for {
		f, more := fr.Next()
		if strings.HasSuffix(f.Function, suffix) {
			return true
		}
		if !more {
			return false
		}
	}
}

func callerDeep(suffix string) bool {
	var pcs [16]uintptr
	n := runtime.Callers(3, pcs[:])
	fr := runtime.CallersFrames(pcs[:n])
	for {
		f, more := fr.Next()
		if strings.HasSuffix(f.Function, suffix) {
			return true
		}
		if !more {
			return false
		}
	}
}

func (r *fakeReg) GetAllNamespaces() (map[string]map[int]cluster.PartitionMetaInfo, cluster.EpochType, error) {
	s := r.s
	if callerIs(".getCurrentPartitionNodes") {
		s.mu.Lock()
		only := s.lastNS
		s.mu.Unlock()
		if callerDeep(".processRemovingNodes") {
			only = ""
		}
		if s.wouldLayoutPanic(only) {
			return nil, 0, errors.New("sim: read failed (layout computation suppressed)")
		}
	}
	s.mu.Lock()
	defer s.mu.Unlock()
	if s.regDownLocked() {
		// like the etcd register: old content plus the error
		return s.stale, s.staleEpoch, errRegDown
	}
	if len(s.metas) == 0 {
		return nil, 0, cluster.ErrKeyNotFound
	}
	return s.allNamespacesLocked(), cluster.EpochType(s.idx), nil
}

func (r *fakeReg) GetNamespacesNotifyChan() chan struct{} { return r.s.nsNotify }

func (r *fakeReg) GetNamespaceSchemas(ns string) (map[string]cluster.SchemaInfo, error) {
	return nil, cluster.ErrKeyNotFound
}

func (r *fakeReg) GetNamespaceTableSchema(ns string, table string) (*cluster.SchemaInfo, error) {
	return nil, cluster.ErrKeyNotFound
}

func (r *fakeReg) SaveKV(k, v string) error {
	s := r.s
	s.mu.Lock()
	defer s.mu.Unlock()
	s.kv[k] = v
	return nil
}

func (r *fakeReg) GetKV(k string) (string, error) {
	s := r.s
	s.mu.Lock()
	defer s.mu.Unlock()
	v, ok := s.kv[k]
	if !ok {
		return "", cluster.ErrKeyNotFound
	}
	return v, nil
}

func (r *fakeReg) Register(n *cluster.NodeInfo) error {
	s := r.s
	s.mu.Lock()
	defer s.mu.Unlock()
	cp := *n
	s.me = &cp
	return nil
}

func (r *fakeReg) Unregister(n *cluster.NodeInfo) error { return nil }

func (r *fakeReg) GetClusterEpoch() (cluster.EpochType, error) {
	s := r.s
	s.mu.Lock()
	defer s.mu.Unlock()
	return cluster.EpochType(s.idx), nil
}

func (r *fakeReg) GetClusterMetaInfo() (cluster.ClusterMetaInfo, error) {
	return cluster.ClusterMetaInfo{}, nil
}

// AcquireAndWatchLeader delivers the leadership events queued by the
// simulator until stop is closed, then closes the channel (as the etcd
// register does).
func (r *fakeReg) AcquireAndWatchLeader(leader chan *cluster.NodeInfo, stop chan struct{}) {
	s := r.s
	w := s.leaderW
	defer close(leader)
	for {
		select {
		case <-w.note:
			for {
				s.mu.Lock()
				if len(w.q) == 0 {
					s.mu.Unlock()
					break
				}
				l := w.q[0]
				w.q = w.q[1:]
				s.mu.Unlock()
				select {
				case leader <- l:
				case <-stop:
					return
				}
			}
		case <-stop:
			return
		}
	}
}

func (s *coordSim) pushLeaderLocked(n *cluster.NodeInfo) {
	s.leaderW.q = append(s.leaderW.q, n)
	select {
	case s.leaderW.note <- struct{}{}:
	default:
	}
}

func (s *coordSim) nodeListLocked() []cluster.NodeInfo {
	l := make([]cluster.NodeInfo, 0, len(s.dnodes))
	for _, d := range s.dnodeOrder {
		if d.registered {
			l = append(l, d.info)
		}
	}
	sort.Slice(l, func(i, j int) bool { return l[i].ID < l[j].ID })
	return l
}

func (r *fakeReg) GetDataNodes() ([]cluster.NodeInfo, error) {
	s := r.s
	s.mu.Lock()
	defer s.mu.Unlock()
	return s.nodeListLocked(), nil
}

// WatchDataNodes sends the current list first, then one list per change.
func (r *fakeReg) WatchDataNodes(nodeC chan []cluster.NodeInfo, stopC chan struct{}) {
	s := r.s
	defer close(nodeC)
	w := &watcher{note: make(chan struct{}, 1)}
	s.mu.Lock()
	s.watchers = append(s.watchers, w)
	first := s.nodeListLocked()
	s.mu.Unlock()
	defer func() {
		s.mu.Lock()
		for i, x := range s.watchers {
			if x == w {
				s.watchers = append(s.watchers[:i], s.watchers[i+1:]...)
				break
			}
		}
		s.mu.Unlock()
	}()
	select {
	case nodeC <- first:
	case <-stopC:
		return
	}
	for {
		select {
		case <-w.note:
			for {
				s.mu.Lock()
				if len(w.q) == 0 {
					s.mu.Unlock()
					break
				}
				l := w.q[0]
				w.q = w.q[1:]
				s.mu.Unlock()
				select {
				case nodeC <- l:
				case <-stopC:
					return
				}
			}
		case <-stopC:
			return
		}
	}
}

func (s *coordSim) pushNodesLocked() {
	l := s.nodeListLocked()
	for _, w := range s.watchers {
		w.q = append(w.q, l)
		select {
		case w.note <- struct{}{}:
		default:
		}
	}
}

func (r *fakeReg) CreateNamespace(ns string, meta *cluster.NamespaceMetaInfo) error {
	s := r.s
	s.mu.Lock()
	s.lastNS = ns
	defer s.mu.Unlock()
	if s.regDownLocked() {
		return errRegDown
	}
	if _, ok := s.metas[ns]; ok {
		return cluster.ErrKeyAlreadyExist
	}
	s.idx++
	m := meta.DeepClone()
	m.VerifSetMetaEpoch(cluster.EpochType(s.idx))
	s.metas[ns] = &m
	s.parts[ns] = map[int]*part{}
	s.nsOrder = append(s.nsOrder, ns)
	sort.Strings(s.nsOrder)
	return nil
}

func (r *fakeReg) UpdateNamespaceMetaInfo(ns string, meta *cluster.NamespaceMetaInfo, oldGen cluster.EpochType) error {
	s := r.s
	s.mu.Lock()
	defer s.mu.Unlock()
	if s.regDownLocked() {
		return errRegDown
	}
	cur, ok := s.metas[ns]
	if !ok {
		return errNotExist
	}
	if cur.MetaEpoch() != oldGen {
		return errCAS
	}
	s.idx++
	m := meta.DeepClone()
	m.VerifSetMetaEpoch(cluster.EpochType(s.idx))
	s.metas[ns] = &m
	meta.VerifSetMetaEpoch(cluster.EpochType(s.idx))
	return nil
}

func (r *fakeReg) CreateNamespacePartition(ns string, pid int) error {
	s := r.s
	s.mu.Lock()
	s.lastNS = ns
	defer s.mu.Unlock()
	if s.regDownLocked() {
		return errRegDown
	}
	if _, ok := s.parts[ns]; !ok {
		return errNotExist
	}
	if _, ok := s.parts[ns][pid]; ok {
		return cluster.ErrKeyAlreadyExist
	}
	s.idx++
	s.parts[ns][pid] = &part{ns: ns, pid: pid, usedIDs: map[uint64]string{}, members: map[string]uint64{},
		joinSeen: map[string]time.Time{}, removeSeen: map[string]time.Time{}, syncedAt: map[string]time.Time{}, lastSync: map[string]syncAns{}}
	return nil
}

func (r *fakeReg) IsExistNamespace(ns string) (bool, error) {
	s := r.s
	s.mu.Lock()
	s.lastNS = ns
	defer s.mu.Unlock()
	if s.regDownLocked() {
		return false, errRegDown
	}
	_, ok := s.metas[ns]
	return ok, nil
}

func (r *fakeReg) IsExistNamespacePartition(ns string, pid int) (bool, error) {
	s := r.s
	s.mu.Lock()
	defer s.mu.Unlock()
	if s.regDownLocked() {
		return false, errRegDown
	}
	_, ok := s.parts[ns][pid]
	return ok, nil
}

// namespaces are never deleted by this simulation
func (r *fakeReg) DeleteNamespacePart(ns string, pid int) error {
	return errors.New("sim: not supported")
}
func (r *fakeReg) DeleteWholeNamespace(ns string) error { return errors.New("sim: not supported") }

// UpdateNamespacePartReplicaInfo: compare-and-swap on the partition's epoch
// (oldGen 0 = create). Every call is an observation point of the oracle.
func (r *fakeReg) UpdateNamespacePartReplicaInfo(ns string, pid int, ri *cluster.PartitionReplicaInfo, oldGen cluster.EpochType) error {
	s := r.s
	s.mu.Lock()
	s.lastNS = ns
	defer s.mu.Unlock()
	s.seq++
	p := s.partLocked(ns, pid)
	if p == nil {
		s.bufLocked(ns, pid, "w.noent", "write to unknown partition")
		return errNotExist
	}
	if s.regDownLocked() {
		s.stats["fault.register_down_write"]++
		s.bufLocked(ns, pid, "w.regdown", "")
		return errRegDown
	}
	if p.conflictNext > 0 {
		p.conflictNext--
	}
	if p.failWrites > 0 {
		p.failWrites--
		s.stats["fault.register_write_fail"]++
		s.bufLocked(ns, pid, "w.fail", "")
		return errRegWrite
	}
	structEpoch := ri.Epoch()
	if p.cur == nil {
		if oldGen != 0 {
			s.stats["cas_conflict"]++
			s.bufLocked(ns, pid, "w.cas", "old=%d cur=none", oldGen)
			return errNotExist
		}
	} else if oldGen == 0 {
		s.stats["cas_conflict"]++
		s.bufLocked(ns, pid, "w.cas", "create but exists")
		return errExistsCAS
	} else if p.cur.Epoch() != oldGen {
		s.stats["cas_conflict"]++
		s.stats["fault.register_cas_fail"]++
		s.bufLocked(ns, pid, "w.cas", "old=%d cur=%d", oldGen, p.cur.Epoch())
		return errCAS
	}
	// accepted
	s.idx++
	nv := ri.DeepClone()
	nv.VerifSetEpoch(cluster.EpochType(s.idx))
	s.checkWriteLocked(p, &nv, oldGen, structEpoch)
	p.cur = &nv
	p.curSeq = s.seq
	p.nvers++
	if p.lostAcks > 0 {
		p.lostAcks--
		s.stats["fault.register_lost_ack"]++
		s.bufLocked(ns, pid, "w.lostack", "")
		return errRegAck
	}
	ri.VerifSetEpoch(cluster.EpochType(s.idx))
	return nil
}

func (r *fakeReg) PrepareNamespaceMinGID() (int64, error) {
	s := r.s
	s.mu.Lock()
	defer s.mu.Unlock()
	if s.regDownLocked() {
		return 0, errRegDown
	}
	s.gid += 10000
	return s.gid, nil
}

func (r *fakeReg) UpdateNamespaceSchema(ns string, table string, schema *cluster.SchemaInfo) error {
	return errors.New("sim: not supported")
}
