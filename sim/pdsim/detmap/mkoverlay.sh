#!/bin/bash
# Optional build aid (not used by /verif/check as it stands): generates a go
# build overlay that makes Go map iteration order and map hash seeds a
# deterministic function of a harness-set seed. The coordinator under test
# ranges over Go maps when it walks partitions, so without this the same tape
# can give different (equally legal) coordinator behaviour in two executions.
#
#   eval $(/verif/sim/pdsim/detmap/mkoverlay.sh /dev/shm/detmap)   # sets OVERLAY
#   GOFLAGS="-mod=mod -overlay=$OVERLAY" go1.26.8 test -c -tags verif ./pdsim
#
# The overlay replaces runtime/rand.go of the go1.26.8 toolchain by a copy in
# which maps.rand() returns runtime.verifMapsRandState while that variable is
# non-zero (every map created and every iteration started meanwhile uses this
# value as hash seed / start offset, so iteration order is a pure function of
# the map's history and of the value); pdsim sets it from the tape at the start
# of each run and changes it between the repeated evaluations of C17.
# cheaprand() (the order in which select polls ready cases, scheduler
# tie-breaks) is pinned to the same value.
set -e
out=${1:-/dev/shm/pdsim-detmap}
goroot=$(go1.26.8 env GOROOT)
mkdir -p "$out"
awk '
/^func maps_rand\(\) uint64 \{$/ {
  print "//go:linkname verifMapsRandState"
  print "var verifMapsRandState uint64"
  print ""
  print "//go:linkname maps_rand internal/runtime/maps.rand"
  print $0
  print "\tif s := verifMapsRandState; s != 0 {"
  print "\t\treturn s"
  print "\t}"
  next
}
/^\/\/go:linkname maps_rand internal\/runtime\/maps.rand$/ { next }
/^func cheaprand\(\) uint32 \{$/ {
  print $0
  print "\tif s := verifMapsRandState; s != 0 {"
  print "\t\treturn uint32(s >> 20)"
  print "\t}"
  next
}
{ print }
' "$goroot/src/runtime/rand.go" > "$out/rand.go"
printf '{"Replace": {"%s": "%s"}}\n' "$goroot/src/runtime/rand.go" "$out/rand.go" > "$out/overlay.json"
echo "OVERLAY=$out/overlay.json"
