package pdsim

import _ "unsafe" // for go:linkname

// verifMapsRandState is runtime.verifMapsRandState when the worker is built
// with the optional overlay of detmap/mkoverlay.sh (Go map hash seeds and
// iteration offsets are then this value, so the order in which the
// coordinator walks its maps is a function of the tape). In an ordinary build the runtime has no such variable and this is a
// plain package variable without effect.
//
//go:linkname verifMapsRandState runtime.verifMapsRandState
var verifMapsRandState uint64

func seedMapOrder(v uint32) { verifMapsRandState = (uint64(v)*0x9E3779B97F4A7C15)<<1 | 1 }
