package pdsim

import (
	"fmt"
	"io"
	"os"
	"path/filepath"
	"runtime"
	"sort"
	"strconv"
	"strings"
	"sync"
	"testing"
	"testing/synctest"
	"time"

	"github.com/youzan/ZanRedisDB/cluster"
	"github.com/youzan/ZanRedisDB/cluster/pdnode_coord"
	"github.com/youzan/ZanRedisDB/common"

	"verif/sim/core"
)

// ---------------------------------------------------------------------------
// C18: the real PDCoordinator in a synctest bubble
// ---------------------------------------------------------------------------

type dnode struct {
	n          int
	info       cluster.NodeInfo
	host       string
	up         bool // ground truth: process alive and reachable
	registered bool // present in the data-node watch list
	unregAt    time.Time
	hasUnregAt bool
	reregAt    time.Time // registration flap: comes back at this time
	hasReregAt bool
	slowFail   bool // while down: requests time out instead of being refused
	apiErrTo   time.Time
	falseNegTo time.Time
	opRemoving bool // operator marked the node as removing
}

type bufLine struct{ kind, text string }

type pendViol struct {
	rule, key, msg string
}

type coordCfg struct {
	nNodes      int
	nDC         int
	parts       int
	replica     int
	balanceVer  string
	intervals   int // 0 test intervals, 1 production, 2 mixed
	step        time.Duration
	joinDelay   time.Duration
	catchDelay  time.Duration
	removeDelay time.Duration
	events      int
	balWindow   int
	durs        []time.Duration
	w           []int
}

type coordSim struct {
	c   *core.RunCtx
	t   *core.Tape
	cfg coordCfg

	mu  sync.Mutex
	seq int64
	// register content
	idx          int64
	gid          int64
	metas        map[string]*cluster.NamespaceMetaInfo
	parts        map[string]map[int]*part
	nsOrder      []string
	kv           map[string]string
	me           *cluster.NodeInfo
	regDownUntil time.Time
	stale        map[string]map[int]cluster.PartitionMetaInfo
	staleEpoch   cluster.EpochType
	watchers     []*watcher
	leaderW      *leaderWatch
	nsNotify     chan struct{}
	// data nodes
	dnodes     map[string]*dnode
	byHost     map[string]*dnode
	dnodeOrder []*dnode
	maxReg     int
	// observations made on coordinator goroutines, flushed by the simulator
	stats map[string]int64
	buf   map[string][]bufLine
	pviol []pendViol
	// ground truth used for known-finding keys and tail exclusions
	layoutPanic   bool
	replicaBefore map[string][]int // replication factors a namespace had before operator changes
	lastNS        string           // namespace of the coordinator's most recent register call / data-node query
	operatorCmds  int
	inTail        bool
	tailStart     time.Time

	pd       *pdnode_coord.PDCoordinator
	isLeader bool
	upgrade  bool
	nWrites  int
	nReacts  int
	nEvents  int
	start    time.Time
}

const (
	evAdvance = iota
	evCrash
	evRestart
	evNewNode
	evRegFlap
	evAPIErr
	evFalseNeg
	evRegWriteFault
	evCASBump
	evRegOutage
	evLeader
	evCreateNs
	evMarkRemoving
	evReplicaChange
	evUpgrade
	evAdminRemove
	evCount
)

var evNames = []string{"advance", "crash", "restart", "newnode", "regflap", "apierr", "falseneg", "regwritefault", "casbump", "regoutage", "leader", "createns", "markremoving", "replicachange", "upgrade", "adminremove"}

func drawCoordCfg(c *core.RunCtx) coordCfg {
	t := c.Tape
	var g coordCfg
	g.nNodes = t.Range(3, 9)
	g.nDC = pick(t, 0, 0, 1, 2, 3)
	g.replica = pick(t, 3, 3, 2, 5, 4, 1)
	if g.replica > g.nNodes {
		g.replica = g.nNodes
	}
	g.parts = pick(t, 2, 1, 4, 3, 8, 6)
	g.balanceVer = pick3(t, "v2", "v2", "", "v1")
	g.intervals = pick(t, 0, 0, 1, 2)
	switch g.intervals {
	case 0:
		g.step = time.Second
		g.durs = []time.Duration{2 * time.Second, 6 * time.Second, 12 * time.Second, 30 * time.Second, 90 * time.Second, 1 * time.Second}
	case 1:
		g.step = 10 * time.Second
		g.durs = []time.Duration{time.Minute, 6 * time.Minute, 17 * time.Minute, 40 * time.Minute, 2 * time.Hour, 10 * time.Second}
	default:
		g.step = 2 * time.Second
		g.durs = []time.Duration{10 * time.Second, 40 * time.Second, 2 * time.Minute, 5 * time.Minute, 15 * time.Minute, 2 * time.Second}
	}
	g.joinDelay = time.Duration(pick(t, 0, 1, 3, 20)) * g.step
	g.catchDelay = time.Duration(pick(t, 0, 2, 10, 60)) * g.step
	g.removeDelay = time.Duration(pick(t, 0, 1, 5)) * g.step
	g.events = t.Range(4, 20)
	if c.Tier == "thorough" {
		g.events = t.Range(4, 50)
	}
	g.balWindow = pick(t, 0, 0, 0, 1)
	// swarm: per-run subset of event kinds
	base := []int{6, 10, 8, 3, 3, 3, 3, 3, 2, 2, 1, 1, 1, 1, 1, 1}
	g.w = make([]int, evCount)
	for i := range base {
		g.w[i] = base[i]
		if i >= evRegFlap && t.Choose(2) == 0 {
			g.w[i] = 0
		}
	}
	if os.Getenv("PDSIM_NO_OPERATOR") != "" { // debugging aid: no operator commands
		g.w[evMarkRemoving], g.w[evReplicaChange], g.w[evUpgrade], g.w[evAdminRemove] = 0, 0, 0, 0
	}
	if t.Choose(4) == 0 { // plain node up/down histories only
		for i := evRegFlap; i < evCount; i++ {
			g.w[i] = 0
		}
	}
	return g
}

func pick3(t *core.Tape, vals ...string) string { return vals[t.Choose(len(vals))] }

func runCoord(c *core.RunCtx) {
	defer func() {
		if e := recover(); e != nil {
			// synctest reports goroutines left blocked in the bubble by panicking in
			// the caller: infrastructure trouble, not a verdict
			c.Count("infra.bubble_panic", 1)
			c.Log("infra", "bubble panic: %v", e)
			fmt.Printf("pdsim: bubble ended with panic (counted as inconclusive): %.600v\n", e)
			if os.Getenv("PDSIM_STACKS") != "" {
				buf := make([]byte, 1<<20)
				fmt.Printf("%s\n", buf[:runtime.Stack(buf, true)])
			}
			c.Inconclusive++
		}
	}()
	s := &coordSim{c: c, t: c.Tape, metas: map[string]*cluster.NamespaceMetaInfo{}, parts: map[string]map[int]*part{},
		kv: map[string]string{}, dnodes: map[string]*dnode{}, byHost: map[string]*dnode{}, stats: map[string]int64{},
		buf: map[string][]bufLine{}}
	s.cfg = drawCoordCfg(c)
	synctest.Test(c.T, func(t *testing.T) { s.run() })
	dumpMemLog()
	for _, k := range core.SortedKeys(s.stats) {
		c.Stats[k] += s.stats[k]
	}
}

func (s *coordSim) newNodeLocked() *dnode {
	i := len(s.dnodeOrder) + 1
	d := &dnode{n: i, up: true, registered: true}
	d.info = cluster.NodeInfo{RegID: uint64(i), NodeIP: fmt.Sprintf("10.0.0.%d", i), RedisPort: "1", HttpPort: "2"}
	if s.cfg.nDC > 0 {
		d.info.Tags = map[string]interface{}{cluster.DCInfoTag: fmt.Sprintf("dc%d", (i-1)%s.cfg.nDC+1)}
	} else {
		d.info.Tags = map[string]interface{}{}
	}
	d.info.ID = cluster.GenNodeID(&d.info, "datanode")
	d.host = d.info.NodeIP + ":" + d.info.HttpPort
	s.dnodes[d.info.ID] = d
	s.byHost[d.host] = d
	s.dnodeOrder = append(s.dnodeOrder, d)
	return d
}

func (s *coordSim) countRegLocked() int {
	n := 0
	for _, d := range s.dnodeOrder {
		if d.registered {
			n++
		}
	}
	if n > s.maxReg {
		s.maxReg = n
	}
	return n
}

func nshort(id string) string {
	if i := strings.Index(id, ":"); i > 0 {
		return "n" + id[:i]
	}
	return id
}

func verString(v *cluster.PartitionReplicaInfo) string {
	if v == nil {
		return "none"
	}
	var b strings.Builder
	b.WriteString("[")
	for i, n := range v.RaftNodes {
		if i > 0 {
			b.WriteString(" ")
		}
		fmt.Fprintf(&b, "%s=%d", nshort(n), v.RaftIDs[n])
	}
	b.WriteString("] removing{")
	rk := make([]string, 0, len(v.Removings))
	for k := range v.Removings {
		rk = append(rk, k)
	}
	sort.Strings(rk)
	for i, k := range rk {
		if i > 0 {
			b.WriteString(" ")
		}
		fmt.Fprintf(&b, "%s=%d", nshort(k), v.Removings[k].RemoveReplicaID)
	}
	fmt.Fprintf(&b, "} max=%d", v.MaxRaftID)
	return b.String()
}

// bufLocked records an observation made on a coordinator goroutine; the
// simulator goroutine writes the buffered lines into the trace in partition
// order (the coordinator walks partitions in Go map order, so the order in
// which independent partitions are written is not reproducible).
func (s *coordSim) bufLocked(ns string, pid int, kind string, format string, args ...interface{}) {
	k := fmt.Sprintf("%s-%04d", ns, pid)
	s.buf[k] = append(s.buf[k], bufLine{kind, fmt.Sprintf(format, args...)})
}

func (s *coordSim) flushLocked() {
	if len(s.buf) > 0 {
		for _, k := range core.SortedKeys(s.buf) {
			for _, l := range s.buf[k] {
				s.c.Log(l.kind, "%s %s", k, l.text)
			}
		}
		s.buf = map[string][]bufLine{}
	}
	if len(s.pviol) > 0 {
		sort.SliceStable(s.pviol, func(i, j int) bool { return s.pviol[i].msg < s.pviol[j].msg })
		for _, v := range s.pviol {
			if v.key != "" {
				s.c.Count("known."+v.key, 1)
			}
			s.c.Violate("C18", v.rule, v.key, "%s", v.msg)
		}
		s.pviol = nil
	}
}

func (s *coordSim) violLocked(rule, key, format string, args ...interface{}) {
	s.pviol = append(s.pviol, pendViol{rule, key, fmt.Sprintf(format, args...)})
}

func isrOf(v *cluster.PartitionReplicaInfo) []string {
	out := make([]string, 0, len(v.RaftNodes))
	for _, n := range v.RaftNodes {
		if _, ok := v.Removings[n]; ok {
			continue
		}
		out = append(out, n)
	}
	return out
}

func (s *coordSim) clock() string {
	return time.Since(s.start).Round(time.Millisecond).String()
}

// checkWriteLocked is the oracle: it runs on every version the register
// accepts (p.cur is still the previous version, nil on create).
func (s *coordSim) checkWriteLocked(p *part, nv *cluster.PartitionReplicaInfo, oldGen, structEpoch cluster.EpochType) {
	prev := p.cur
	meta := s.metas[p.ns]
	replica := meta.Replica
	name := p.name()
	where := fmt.Sprintf("%s at t=%s: %s -> %s (replication %d)", name, s.clock(), verString(prev), verString(nv), replica)
	s.nWrites++
	if prev != nil && !s.inTail {
		s.nReacts++
	}

	// classify for the trace / probes
	kind := "w.other"
	var added, dropped []string
	if prev == nil {
		kind = "w.create"
	} else {
		for _, n := range nv.RaftNodes {
			if cluster.FindSlice(prev.RaftNodes, n) == -1 {
				added = append(added, n)
			}
		}
		for _, n := range prev.RaftNodes {
			if cluster.FindSlice(nv.RaftNodes, n) == -1 {
				dropped = append(dropped, n)
			}
		}
		switch {
		case len(added) > 0 && len(isrOf(prev)) >= replica:
			kind = "w.add_move"
		case len(added) > 0:
			kind = "w.add"
		case len(nv.Removings) > len(prev.Removings):
			kind = "w.mark"
		case len(dropped) > 0:
			kind = "w.fin"
		case len(nv.RaftNodes) > 0 && len(prev.RaftNodes) > 0 && nv.RaftNodes[0] != prev.RaftNodes[0]:
			kind = "w.swap"
		}
	}
	s.stats["probe."+kind[2:]]++
	s.bufLocked(p.ns, p.pid, kind, "%s", verString(nv))

	// (1) at most one replica marked for removal
	if len(nv.Removings) > 1 {
		s.violLocked("removings-count", "", "%d replicas marked for removal at once: %s", len(nv.Removings), where)
	}
	// (2) remaining replicas: distinct nodes, strict majority of the configured replication factor
	isr := isrOf(nv)
	seen := map[string]bool{}
	for _, n := range isr {
		if seen[n] {
			s.violLocked("isr-distinct", "", "node %s appears twice among the remaining replicas: %s", nshort(n), where)
		}
		seen[n] = true
	}
	if !(2*len(isr) > replica) {
		// ground truth of a known finding: the operator raised the replication
		// factor during this run and the version satisfies the rule for the
		// factor that was configured before (the coordinator works a whole check
		// round on the namespace meta it read at the start of the round; the CAS
		// covers only the partition's replica entry)
		key := ""
		for _, r0 := range s.replicaBefore[p.ns] {
			if r0 < replica && 2*len(isr) > r0 {
				key = "isr-minority-replication-factor-raised-meanwhile"
			}
		}
		s.violLocked("isr-majority", key, "%d remaining replicas are not a strict majority of replication factor %d: %s", len(isr), replica, where)
	}
	// (3) replacements one at a time, only when the current replicas report in sync
	if prev != nil {
		if len(added) > 1 {
			s.violLocked("add-one", "", "%d replicas added in one step: %s", len(added), where)
		}
		if len(added) >= 1 {
			for _, m := range isrOf(prev) {
				a, ok := p.lastSync[m]
				switch {
				case !ok:
					s.violLocked("add-unsynced", "", "replica added although current replica %s was never asked for its sync state: %s", nshort(m), where)
				case !a.ok:
					s.violLocked("add-unsynced", "", "replica added although the most recent sync answer of current replica %s was %q (at t=%s): %s",
						nshort(m), a.what, a.at.Sub(s.start), where)
				case a.seq < p.curSeq:
					s.violLocked("add-unsynced", "", "replica added although current replica %s last reported in sync at t=%s, before the current version was written: %s",
						nshort(m), a.at.Sub(s.start), where)
				}
			}
		}
	}
	// (4) replica ids never reused, MaxRaftID monotone
	if prev != nil && nv.MaxRaftID < prev.MaxRaftID {
		s.violLocked("maxraftid-monotone", "", "MaxRaftID decreased %d -> %d: %s", prev.MaxRaftID, nv.MaxRaftID, where)
	}
	idOwner := map[uint64]string{}
	for _, n := range sortedIDKeys(nv.RaftIDs) {
		id := nv.RaftIDs[n]
		if o, ok := idOwner[id]; ok {
			s.violLocked("raftid-reuse", "", "replica id %d given to both %s and %s: %s", id, nshort(o), nshort(n), where)
		}
		idOwner[id] = n
		if prev != nil {
			if pid, ok := prev.RaftIDs[n]; ok && pid == id {
				continue
			}
		}
		if o, ok := p.usedIDs[id]; ok {
			s.violLocked("raftid-reuse", "", "replica id %d (given to %s) was used before in this partition's history by %s: %s", id, nshort(n), nshort(o), where)
		}
	}
	for n, id := range nv.RaftIDs {
		p.usedIDs[id] = n
	}
	// (5) no removal marked while more than half of the replicas are unreachable
	if prev != nil {
		for _, k := range sortedRemKeys(nv.Removings) {
			if _, ok := prev.Removings[k]; ok {
				continue
			}
			down := 0
			var dl []string
			for _, n := range prev.RaftNodes {
				if d := s.dnodes[n]; d == nil || !d.up {
					down++
					dl = append(dl, nshort(n))
				}
			}
			if 2*down > len(prev.RaftNodes) {
				s.violLocked("removal-majority-unreachable", "", "replica %s marked for removal while %d of %d replicas are unreachable (%v): %s",
					nshort(k), down, len(prev.RaftNodes), dl, where)
			}
			s.stats["probe.removal_marked"]++
			if d := s.dnodes[k]; d != nil && d.up {
				s.stats["probe.removal_marked_live_node"]++
			}
		}
	}
	// (6) compare-and-swap: the write names the epoch of the version it was derived from
	if oldGen != structEpoch {
		s.violLocked("cas-epoch", "", "write passed epoch %d but the version it modified was read at epoch %d: %s", oldGen, structEpoch, where)
	}
}

func sortedIDKeys(m map[string]uint64) []string {
	ks := make([]string, 0, len(m))
	for k := range m {
		ks = append(ks, k)
	}
	sort.Strings(ks)
	return ks
}

func sortedRemKeys(m map[string]cluster.RemovingInfo) []string {
	ks := make([]string, 0, len(m))
	for k := range m {
		ks = append(ks, k)
	}
	sort.Strings(ks)
	return ks
}

// wouldLayoutPanic is called (without s.mu held) when the placement driver is
// about to compute a layout (its getCurrentPartitionNodes reads the register
// immediately before): the real layout function is evaluated on the same
// inputs - register content of the namespace the coordinator is working on
// and the coordinator's own view of the data nodes - under recover. The
// namespace is the one named in the coordinator's most recent register call or
// data-node query (every layout computation is preceded, without a blocking
// point in between, by such a call for its namespace); only on the
// operator-removal path, where that does not hold, all namespaces are tried. A panic there would kill the placement driver process (and
// this worker); it is recorded as a violation and the caller makes the read
// fail so that the coordinator skips the computation.
func (s *coordSim) wouldLayoutPanic(only string) bool {
	type in struct {
		ns             string
		parts, replica int
		old            [][]string
		long           bool
	}
	var ins []in
	s.mu.Lock()
	for _, ns := range s.nsOrder {
		if only != "" && ns != only {
			continue
		}
		m := s.metas[ns]
		x := in{ns: ns, parts: m.PartitionNum, replica: m.Replica}
		for pid, p := range s.parts[ns] {
			if p.cur == nil {
				continue
			}
			for pid >= len(x.old) {
				x.old = append(x.old, nil)
			}
			x.old[pid] = isrOf(p.cur)
			if len(x.old[pid]) > m.Replica {
				x.long = true
			}
		}
		ins = append(ins, x)
	}
	opRemoving := map[string]bool{}
	for _, d := range s.dnodeOrder {
		if d.opRemoving {
			opRemoving[d.info.ID] = true
		}
	}
	s.mu.Unlock()
	all, _ := s.pd.GetAllDataNodes()
	sets := []map[string]cluster.NodeInfo{all}
	if len(opRemoving) > 0 {
		m := map[string]cluster.NodeInfo{}
		for k, v := range all {
			if !opRemoving[k] {
				m[k] = v
			}
		}
		sets = append(sets, m)
	}
	ver := s.cfg.balanceVer
	if ver == "" {
		ver = pdnode_coord.BalanceV2Str
	}
	for _, x := range ins {
		for _, nodes := range sets {
			msg := func() (msg string) {
				defer func() {
					if e := recover(); e != nil {
						msg = fmt.Sprint(e)
					}
				}()
				pdnode_coord.VerifGetRebalancedNamespacePartitions(x.ns, x.parts, x.replica, cloneLayout(x.old), nodes, ver)
				return ""
			}()
			if msg != "" {
				key := ""
				if x.long {
					key = "v2-panic-current-list-longer-than-replica"
				}
				var nl []string
				for k := range nodes {
					nl = append(nl, nshort(k))
				}
				sort.Strings(nl)
				s.mu.Lock()
				s.layoutPanic = true
				s.stats["probe.layout_panic_predicted"]++
				s.violLocked("pd-crash", key, "the placement driver would crash: layout function panics (%s) on the register content it is about to use: namespace %s partitions=%d replication=%d current=%s live nodes=%v (t=%s)",
					msg, x.ns, x.parts, x.replica, layoutShort(x.old), nl, s.clock())
				s.mu.Unlock()
				return true
			}
		}
	}
	return false
}

// ---------------------------------------------------------------------------
// fake data nodes
// ---------------------------------------------------------------------------

func (s *coordSim) quorumAliveLocked(p *part) bool {
	up := 0
	for n := range p.members {
		if d := s.dnodes[n]; d != nil && d.up {
			up++
		}
	}
	return 2*up > len(p.members)
}

// api answers the coordinator's HTTP queries (intercepted common.APIRequest).
var (
	errAPINoRoute = fmt.Errorf("sim: no route to host")
	errAPITimeout = fmt.Errorf("sim: i/o timeout")
	errAPIRefused = fmt.Errorf("sim: connection refused")
	errAPIReset   = fmt.Errorf("sim: connection reset")
	errAPI404     = fmt.Errorf("sim: got error response 404 no namespace found")
	errAPI406     = fmt.Errorf("sim: got error response 406 raft node is not synced yet")
)

func (s *coordSim) api(method string, endpoint string, body io.Reader, timeout time.Duration, ret interface{}) (bool, int, error) {
	rest := strings.TrimPrefix(endpoint, "http://")
	i := strings.Index(rest, "/")
	if i < 0 {
		return true, 0, fmt.Errorf("sim: bad endpoint %s", endpoint)
	}
	host, path := rest[:i], rest[i:]
	full := path[strings.LastIndex(path, "/")+1:]
	ns, pid := full, 0
	if j := strings.LastIndex(full, "-"); j > 0 {
		ns = full[:j]
		pid, _ = strconv.Atoi(full[j+1:])
	}
	isSync := strings.HasPrefix(path, common.APIIsRaftSynced+"/")
	isMembers := strings.HasPrefix(path, common.APIGetMembers+"/")

	s.mu.Lock()
	s.seq++
	s.lastNS = ns
	now := time.Now()
	d := s.byHost[host]
	p := s.partLocked(ns, pid)
	record := func(ok bool, what string) {
		if isSync && p != nil && d != nil {
			p.lastSync[d.info.ID] = syncAns{ok: ok, what: what, seq: s.seq, at: now}
		}
	}
	if d == nil {
		s.mu.Unlock()
		return true, 0, errAPINoRoute
	}
	if !d.up {
		record(false, "unreachable")
		slow := d.slowFail
		s.stats["api.down"]++
		s.mu.Unlock()
		if slow {
			time.Sleep(timeout)
			s.mu.Lock()
			s.lastNS = ns
			s.mu.Unlock()
			return true, 0, errAPITimeout
		}
		return true, 0, errAPIRefused
	}
	if now.Before(d.apiErrTo) {
		record(false, "request error")
		s.stats["fault.api_error"]++
		s.mu.Unlock()
		return true, 0, errAPIReset
	}
	defer s.mu.Unlock()
	if !isSync && !isMembers {
		s.stats["api.other"]++
		return true, 404, errAPI404
	}
	if p == nil {
		return true, 404, errAPI404
	}
	if _, ok := p.members[d.info.ID]; !ok {
		record(false, "no namespace (not a raft member)")
		return true, 404, errAPI404
	}
	if isMembers {
		s.stats["api.members"]++
		out, ok := ret.(*[]*common.MemberInfo)
		if !ok {
			return true, 500, fmt.Errorf("sim: unexpected result type %T", ret)
		}
		if p.memCache == nil {
			for _, n := range sortedIDKeys(p.members) {
				p.memCache = append(p.memCache, &common.MemberInfo{ID: p.members[n], NodeID: cluster.ExtractRegIDFromGenID(n), GroupName: full})
			}
		}
		*out = append(*out, p.memCache...)
		return true, 200, nil
	}
	s.stats["api.synced"]++
	synced := !now.Before(p.syncedAt[d.info.ID]) && s.quorumAliveLocked(p)
	if synced && now.Before(d.falseNegTo) {
		s.stats["fault.sync_status_false"]++
		record(false, "not synced (false negative)")
		return true, 406, errAPI406
	}
	if !synced {
		s.stats["api.synced_no"]++
		record(false, "not synced")
		return true, 406, errAPI406
	}
	record(true, "synced")
	return true, 200, nil
}

// stepDataNodesLocked advances the fake data nodes: registration expiry and
// flaps, raft joins of nodes the metadata names, raft removals of replicas
// the metadata marks.
func (s *coordSim) stepDataNodesLocked() {
	now := time.Now()
	changed := false
	for _, d := range s.dnodeOrder {
		if d.hasUnregAt && !now.Before(d.unregAt) {
			d.hasUnregAt = false
			if !d.up && d.registered {
				d.registered = false
				changed = true
				s.c.Log("unregistered", "%s (session expired)", nshort(d.info.ID))
			}
		}
		if d.hasReregAt && !now.Before(d.reregAt) {
			d.hasReregAt = false
			if d.up && !d.registered {
				d.registered = true
				changed = true
				s.c.Log("reregistered", "%s", nshort(d.info.ID))
			}
		}
	}
	if changed {
		s.countRegLocked()
		s.pushNodesLocked()
	}
	for _, p := range s.sortedParts() {
		if p.cur == nil {
			continue
		}
		if !p.bootstrapped {
			p.bootstrapped = true
			for _, n := range p.cur.RaftNodes {
				p.members[n] = p.cur.RaftIDs[n]
				p.syncedAt[n] = now.Add(s.cfg.catchDelay)
			}
			p.memCache = nil
			continue
		}
		q := s.quorumAliveLocked(p)
		for _, n := range p.cur.RaftNodes {
			id := p.cur.RaftIDs[n]
			if _, rm := p.cur.Removings[n]; rm {
				continue
			}
			if mid, ok := p.members[n]; ok && mid == id {
				continue
			}
			jk := fmt.Sprintf("%s/%d", n, id)
			if _, ok := p.joinSeen[jk]; !ok {
				p.joinSeen[jk] = now
			}
			d := s.dnodes[n]
			if d != nil && d.up && q && !now.Before(p.joinSeen[jk].Add(s.cfg.joinDelay)) {
				p.members[n] = id
				p.memCache = nil
				p.syncedAt[n] = now.Add(s.cfg.catchDelay)
				s.c.Log("joined", "%s %s=%d", p.name(), nshort(n), id)
			}
		}
		for _, n := range sortedRemKeys(p.cur.Removings) {
			ri := p.cur.Removings[n]
			mid, ok := p.members[n]
			if !ok || mid != ri.RemoveReplicaID {
				continue
			}
			rk := fmt.Sprintf("%s/%d", n, mid)
			if _, ok := p.removeSeen[rk]; !ok {
				p.removeSeen[rk] = now
			}
			if q && !now.Before(p.removeSeen[rk].Add(s.cfg.removeDelay)) {
				delete(p.members, n)
				p.memCache = nil
				s.c.Log("left", "%s %s=%d", p.name(), nshort(n), mid)
			}
		}
	}
}

// ---------------------------------------------------------------------------
// the run
// ---------------------------------------------------------------------------

func (s *coordSim) advance(d time.Duration) {
	for rem := d; rem > 0; {
		st := s.cfg.step
		if st > rem {
			st = rem
		}
		time.Sleep(st)
		synctest.Wait()
		s.mu.Lock()
		s.flushLocked()
		s.stepDataNodesLocked()
		s.mu.Unlock()
		rem -= st
	}
}

func (s *coordSim) settle() {
	synctest.Wait()
	s.mu.Lock()
	s.flushLocked()
	s.mu.Unlock()
}

func (s *coordSim) run() {
	c, t, g := s.c, s.t, s.cfg
	s.start = time.Now()
	// channels must be made inside the bubble (blocking on an outside channel is
	// not a durable block and synctest.Wait would never return)
	s.nsNotify = make(chan struct{})
	s.leaderW = &leaderWatch{note: make(chan struct{}, 1)}
	c.Log(fmt.Sprintf("cfg/n%d/p%d/r%d/i%d", g.nNodes, g.parts, g.replica, g.intervals), "dc=%d ver=%q join=%s catch=%s remove=%s events=%d w=%v",
		g.nDC, g.balanceVer, g.joinDelay, g.catchDelay, g.removeDelay, g.events, g.w)

	saved := pdnode_coord.VerifGetIntervals()
	defer pdnode_coord.VerifSetIntervals(saved)
	switch g.intervals {
	case 0:
		pdnode_coord.VerifSetIntervals(pdnode_coord.VerifIntervals{WaitMigrate: 10 * time.Second, WaitRemoveRemovingNode: 5 * time.Second,
			NsCheck: time.Second, NsCheckLearner: 10 * time.Second, BalanceCheck: 5 * time.Second, CheckRemovingNode: 5 * time.Second})
	case 1: // the shipped values
		pdnode_coord.VerifSetIntervals(pdnode_coord.VerifIntervals{WaitMigrate: 16 * time.Minute, WaitRemoveRemovingNode: 5 * time.Minute,
			NsCheck: time.Minute, NsCheckLearner: 10 * time.Second, BalanceCheck: 10 * time.Minute, CheckRemovingNode: time.Minute})
	default:
		pdnode_coord.VerifSetIntervals(pdnode_coord.VerifIntervals{WaitMigrate: time.Minute, WaitRemoveRemovingNode: 20 * time.Second,
			NsCheck: 5 * time.Second, NsCheckLearner: 10 * time.Second, BalanceCheck: 30 * time.Second, CheckRemovingNode: 10 * time.Second})
	}
	common.VerifAPIHook = s.api
	defer func() { common.VerifAPIHook = nil }()

	scratch := os.Getenv("VERIF_SCRATCH")
	if scratch == "" {
		scratch = "/dev/shm/pdsim.scratch"
	}
	dir, err := os.MkdirTemp(mkdirAll(scratch), "pd")
	if err != nil {
		c.Count("infra.mkdir", 1)
		return
	}
	defer os.RemoveAll(dir)

	s.mu.Lock()
	for i := 0; i < g.nNodes; i++ {
		s.newNodeLocked()
	}
	s.countRegLocked()
	s.mu.Unlock()

	me := &cluster.NodeInfo{NodeIP: "10.0.1.1", HttpPort: "18001", RegID: 1000}
	opts := &cluster.Options{AutoBalanceAndMigrate: true, BalanceStart: 0, BalanceEnd: 24, BalanceVer: g.balanceVer, DataDir: dir}
	if g.balWindow == 1 {
		opts.BalanceStart, opts.BalanceEnd = 1, 5
	}
	pd := pdnode_coord.NewPDCoordinator("c1", me, opts)
	s.pd = pd
	pd.SetRegister(&fakeReg{s})
	if err := pd.Start(); err != nil {
		c.Count("infra.pdstart", 1)
		return
	}
	stopped := false
	stop := func() {
		if stopped {
			return
		}
		stopped = true
		pd.Stop()
		synctest.Wait()
		// detached helper goroutines of the coordinator (delayed check triggers,
		// requests sleeping in a simulated timeout) end within seconds of fake time
		time.Sleep(15 * time.Second)
		synctest.Wait()
	}
	defer stop()

	meCopy := *me
	s.mu.Lock()
	s.pushLeaderLocked(&meCopy)
	s.isLeader = true
	s.mu.Unlock()
	s.settle()
	s.advance(2 * g.step)

	s.createNamespace(g.parts, g.replica)
	s.advance(g.durs[t.Choose(3)])

	for ev := 0; ev < g.events && !s.fatal(); ev++ {
		s.event(t.Weighted(g.w))
		s.nEvents++
		s.advance(g.durs[t.Choose(len(g.durs))])
	}
	if !s.fatal() {
		s.tail()
	}
	stop()
	s.mu.Lock()
	s.flushLocked()
	s.mu.Unlock()

	c.Events = int64(s.nEvents + s.nWrites)
	c.SimMs = time.Since(s.start).Milliseconds()
	nf := c.Stats["fault.node_down"] + c.Stats["fault.registration_lost"]
	c.NonTrivial = nf > 0 && s.nReacts > 0
	c.Count("writes_accepted", int64(s.nWrites))
	c.Sample = map[string]interface{}{
		"nodes": g.nNodes, "data_centres": g.nDC, "partitions": g.parts, "replica": g.replica, "balance_ver": g.balanceVer,
		"intervals": []string{"test", "shipped", "mixed"}[g.intervals], "events": s.nEvents, "writes_accepted": s.nWrites,
		"sim_time": time.Since(s.start).String(), "final": s.finalState(),
	}
}

func mkdirAll(p string) string {
	os.MkdirAll(p, 0755)
	return filepath.Clean(p)
}

func (s *coordSim) finalState() []string {
	s.mu.Lock()
	defer s.mu.Unlock()
	var out []string
	for _, p := range s.sortedParts() {
		out = append(out, p.name()+" "+verString(p.cur))
		if len(out) >= 6 {
			break
		}
	}
	return out
}

// fatal: an unexplained violation was recorded; stop making events.
func (s *coordSim) fatal() bool {
	for _, v := range s.c.Viol {
		if v.Key == "" {
			return true
		}
	}
	return false
}

func (s *coordSim) createNamespace(parts, replica int) {
	s.mu.Lock()
	name := fmt.Sprintf("ns%d", len(s.metas)+1)
	s.mu.Unlock()
	s.c.Log("createns", "%s parts=%d replica=%d", name, parts, replica)
	err := s.pd.CreateNamespace(name, cluster.NamespaceMetaInfo{PartitionNum: parts, Replica: replica, EngType: "rockredis"})
	s.settle()
	s.c.Log("createns.result", "%v", err)
}

func (s *coordSim) pickNode(f func(d *dnode) bool) *dnode {
	var l []*dnode
	for _, d := range s.dnodeOrder {
		if f(d) {
			l = append(l, d)
		}
	}
	if len(l) == 0 {
		return nil
	}
	return l[s.t.Choose(len(l))]
}

func (s *coordSim) pickPart(f func(p *part) bool) *part {
	var l []*part
	for _, p := range s.sortedParts() {
		if f(p) {
			l = append(l, p)
		}
	}
	if len(l) == 0 {
		return nil
	}
	return l[s.t.Choose(len(l))]
}

func (s *coordSim) event(kind int) {
	c, t, g := s.c, s.t, s.cfg
	now := time.Now()
	dur := func() time.Duration { return g.durs[t.Choose(len(g.durs))] }
	switch kind {
	case evAdvance:
		c.Log("advance", "")
	case evCrash:
		s.mu.Lock()
		d := s.pickNode(func(d *dnode) bool { return d.up })
		if d != nil {
			d.up = false
			d.slowFail = t.Choose(3) == 0
			d.hasReregAt = false
			ttl := time.Duration(pick(t, 0, 0, 3, 15)) * g.step
			if !d.registered {
				ttl = 0
			}
			c.Fault("node_down")
			c.Log("crash", "%s ttl=%s slow=%v", nshort(d.info.ID), ttl, d.slowFail)
			if ttl == 0 {
				if d.registered {
					d.registered = false
					s.pushNodesLocked()
				}
			} else {
				d.unregAt, d.hasUnregAt = now.Add(ttl), true
			}
		}
		s.mu.Unlock()
	case evRestart:
		s.mu.Lock()
		d := s.pickNode(func(d *dnode) bool { return !d.up })
		if d != nil {
			d.up = true
			d.hasUnregAt = false
			c.Fault("node_up")
			c.Log("restart", "%s", nshort(d.info.ID))
			for _, p := range s.sortedParts() {
				if _, ok := p.members[d.info.ID]; ok {
					p.syncedAt[d.info.ID] = now.Add(g.catchDelay)
				}
			}
			if !d.registered {
				d.registered = true
				s.countRegLocked()
				s.pushNodesLocked()
			}
		}
		s.mu.Unlock()
	case evNewNode:
		s.mu.Lock()
		if len(s.dnodeOrder) < 10 {
			d := s.newNodeLocked()
			s.countRegLocked()
			c.Log("newnode", "%s", nshort(d.info.ID))
			s.pushNodesLocked()
		}
		s.mu.Unlock()
	case evRegFlap:
		s.mu.Lock()
		d := s.pickNode(func(d *dnode) bool { return d.up && d.registered })
		if d != nil {
			d.registered = false
			d.reregAt, d.hasReregAt = now.Add(dur()), true
			c.Fault("registration_lost")
			c.Log("regflap", "%s until +%s", nshort(d.info.ID), d.reregAt.Sub(now))
			s.pushNodesLocked()
		}
		s.mu.Unlock()
	case evAPIErr:
		s.mu.Lock()
		d := s.pickNode(func(d *dnode) bool { return d.up })
		if d != nil {
			d.apiErrTo = now.Add(dur())
			c.Log("apierr", "%s for %s", nshort(d.info.ID), d.apiErrTo.Sub(now))
		}
		s.mu.Unlock()
	case evFalseNeg:
		s.mu.Lock()
		d := s.pickNode(func(d *dnode) bool { return d.up })
		if d != nil {
			d.falseNegTo = now.Add(dur())
			c.Log("falseneg", "%s for %s", nshort(d.info.ID), d.falseNegTo.Sub(now))
		}
		s.mu.Unlock()
	case evRegWriteFault:
		s.mu.Lock()
		p := s.pickPart(func(p *part) bool { return p.cur != nil })
		if p != nil {
			if t.Choose(2) == 0 {
				p.failWrites += t.Range(1, 3)
				c.Log("regwritefault", "%s fail next %d", p.name(), p.failWrites)
			} else {
				p.lostAcks++
				c.Log("regwritefault", "%s lose next ack", p.name())
			}
		}
		s.mu.Unlock()
	case evCASBump:
		s.mu.Lock()
		p := s.pickPart(func(p *part) bool { return p.cur != nil })
		if p != nil {
			if t.Choose(2) == 0 {
				s.idx++
				p.cur.VerifSetEpoch(cluster.EpochType(s.idx))
				c.Log("casbump", "%s epoch=%d", p.name(), s.idx)
			} else {
				p.conflictNext++
				c.Log("casbump", "%s at next direct read", p.name())
			}
		}
		s.mu.Unlock()
	case evRegOutage:
		s.mu.Lock()
		s.stale = s.allNamespacesLocked()
		s.staleEpoch = cluster.EpochType(s.idx)
		s.regDownUntil = now.Add(dur())
		c.Fault("register_outage")
		c.Log("regoutage", "for %s", s.regDownUntil.Sub(now))
		s.mu.Unlock()
	case evLeader:
		s.mu.Lock()
		if s.isLeader {
			other := &cluster.NodeInfo{NodeIP: "10.0.1.2", HttpPort: "18001", RegID: 1001}
			other.ID = cluster.GenNodeID(other, "pd")
			if t.Choose(2) == 0 {
				other = &cluster.NodeInfo{}
			}
			s.pushLeaderLocked(other)
			s.isLeader = false
			c.Fault("pd_leader_lost")
			c.Log("leaderlost", "to %q", other.ID)
		} else {
			cp := *s.me
			s.pushLeaderLocked(&cp)
			s.isLeader = true
			c.Log("leaderback", "")
		}
		s.mu.Unlock()
	case evCreateNs:
		s.mu.Lock()
		n := len(s.metas)
		s.mu.Unlock()
		if n < 3 {
			s.createNamespace(pick(t, 1, 2, 4, 3), pick(t, 3, 2, 1, 4, 5))
		}
	case evMarkRemoving:
		s.mu.Lock()
		d := s.pickNode(func(d *dnode) bool { return d.registered && !d.opRemoving })
		if d != nil {
			d.opRemoving = true
		}
		s.mu.Unlock()
		if d != nil {
			s.operatorCmds++
			err := s.pd.MarkNodeAsRemoving(d.info.ID)
			c.Log("markremoving", "%s: %v", nshort(d.info.ID), err)
			if err != nil {
				s.mu.Lock()
				d.opRemoving = false
				s.mu.Unlock()
			}
		}
	case evReplicaChange:
		s.mu.Lock()
		var ns string
		var nr int
		if len(s.nsOrder) > 0 {
			ns = s.nsOrder[t.Choose(len(s.nsOrder))]
			nr = s.metas[ns].Replica + 1 - 2*t.Choose(2)
		}
		s.mu.Unlock()
		if ns != "" && nr >= 1 && nr <= 5 {
			s.operatorCmds++
			s.mu.Lock()
			if s.replicaBefore == nil {
				s.replicaBefore = map[string][]int{}
			}
			s.replicaBefore[ns] = append(s.replicaBefore[ns], s.metas[ns].Replica)
			s.mu.Unlock()
			err := s.pd.ChangeNamespaceMetaParam(ns, nr, "", 0)
			c.Log("replicachange", "%s -> %d: %v", ns, nr, err)
		}
	case evAdminRemove:
		// the operator asks for one replica of one partition to be removed
		// (admin API); the coordinator has to refuse what leaves no safe quorum
		s.mu.Lock()
		var ns, nid string
		pid := 0
		if len(s.nsOrder) > 0 {
			ns = s.nsOrder[t.Choose(len(s.nsOrder))]
			pid = t.Choose(s.metas[ns].PartitionNum)
			if p := s.parts[ns][pid]; p != nil && p.cur != nil && len(p.cur.RaftNodes) > 0 {
				nid = p.cur.RaftNodes[t.Choose(len(p.cur.RaftNodes))]
			}
		}
		s.mu.Unlock()
		if nid != "" {
			s.operatorCmds++
			err := s.pd.RemoveNamespaceFromNode(ns, strconv.Itoa(pid), nid)
			c.Log("adminremove", "%s-%d %s: %v", ns, pid, nshort(nid), err)
		}
	case evUpgrade:
		s.upgrade = !s.upgrade
		s.operatorCmds++
		err := s.pd.SetClusterUpgradeState(s.upgrade)
		c.Log("upgrade", "%v: %v", s.upgrade, err)
		if err != nil {
			s.upgrade = !s.upgrade
		}
	}
	s.settle()
}

// tail: faults stop; with enough live nodes every partition must return to
// full replication (replication-factor many replicas, all on live registered
// nodes, nothing marked for removal) within the bound.
func (s *coordSim) tail() {
	c, g := s.c, s.cfg
	now := time.Now()
	s.mu.Lock()
	s.inTail = true
	s.tailStart = now
	s.regDownUntil = time.Time{}
	for _, d := range s.dnodeOrder {
		d.apiErrTo, d.falseNegTo = time.Time{}, time.Time{}
		d.hasReregAt, d.hasUnregAt = false, false
		if d.up && !d.registered {
			d.registered = true
		}
		if !d.up && d.registered {
			d.registered = false
		}
	}
	for _, p := range s.sortedParts() {
		p.failWrites, p.lostAcks, p.conflictNext = 0, 0, 0
	}
	s.countRegLocked()
	s.pushNodesLocked()
	if !s.isLeader {
		cp := *s.me
		s.pushLeaderLocked(&cp)
		s.isLeader = true
	}
	s.mu.Unlock()
	c.Log("tail", "")
	s.settle()
	if s.upgrade {
		s.upgrade = false
		s.pd.SetClusterUpgradeState(false)
		s.settle()
	}

	// which partitions can be expected to recover
	s.mu.Lock()
	reg, elig := 0, 0
	for _, d := range s.dnodeOrder {
		if d.registered {
			reg++
			if !d.opRemoving {
				elig++
			}
		}
	}
	excluded := ""
	if s.operatorCmds > 0 {
		// operator commands (mark a node as removing, change the replication
		// factor, upgrade mode) redefine what the coordinator is supposed to
		// converge to; the liveness tail is only evaluated for histories without them
		excluded = "operator_commands"
	} else if 2*reg <= s.maxReg {
		excluded = "mass_failure" // the coordinator's guard: at most half of the largest node count seen is left
	}
	var expect []*part
	for _, p := range s.sortedParts() {
		if p.cur == nil {
			continue
		}
		r := s.metas[p.ns].Replica
		// replicas on nodes the operator marked as removing do not count: the
		// coordinator deliberately treats such nodes as gone
		upISR := 0
		for _, n := range isrOf(p.cur) {
			if d := s.dnodes[n]; d != nil && d.up && !d.opRemoving {
				upISR++
			}
		}
		switch {
		case excluded != "":
		case elig < r:
			s.stats["tail_excluded.too_few_nodes"]++
		case !(2*upISR > r):
			s.stats["tail_excluded.no_live_majority"]++
		case !s.quorumAliveLocked(p):
			s.stats["tail_excluded.raft_quorum_lost"]++
		default:
			expect = append(expect, p)
		}
	}
	if excluded != "" {
		s.stats["tail_excluded."+excluded]++
	}
	s.mu.Unlock()
	if len(expect) == 0 {
		c.Count("tail_runs_excluded", 1)
		s.advance(3 * g.step)
		return
	}
	c.Count("tail_runs_checked", 1)
	bound := tailBound(g.intervals)
	chunk := g.step
	deadline := now.Add(bound)
	for {
		s.mu.Lock()
		all := true
		for _, p := range expect {
			if !p.recovered && s.fullLocked(p) {
				p.recovered = true
				s.stats["tail_partitions_recovered"]++
			}
			if !p.recovered {
				all = false
			}
		}
		s.mu.Unlock()
		if all {
			el := time.Since(now)
			switch {
			case el <= bound/16:
				c.Count("tail_recovered_within_1/16_bound", 1)
			case el <= bound/4:
				c.Count("tail_recovered_within_1/4_bound", 1)
			case el <= bound/2:
				c.Count("tail_recovered_within_1/2_bound", 1)
			default:
				c.Count("tail_recovered_within_bound", 1)
			}
			break
		}
		if !time.Now().Before(deadline) {
			s.mu.Lock()
			var stuck []string
			// Known findings are recognised from ground truth only:
			// (A) a replica is marked for removal and another remaining replica of
			//     that partition is down (the coordinator cannot finish the removal
			//     because it needs an answer from every remaining replica, and does not
			//     handle the second failure while a removal is pending);
			// (B) the balancer is observed polling for a node it added to become ready
			//     (it waits without limit, holding the balance lock, and no pending
			//     removal anywhere is finished and no surplus replica dropped while
			//     that lock is held);
			// (C) the simulator suppressed a layout computation that would have
			//     crashed the coordinator (reported separately as pd-crash).
			balancerWaits := s.balancerWaitsLocked(bound)
			allA, allPending := true, true
			for _, p := range expect {
				if p.recovered {
					continue
				}
				stuck = append(stuck, fmt.Sprintf("%s %s members=%v", p.name(), verString(p.cur), s.memberString(p)))
				downISR := 0
				for _, n := range isrOf(p.cur) {
					if d := s.dnodes[n]; d == nil || !d.up {
						downISR++
					}
				}
				// what the balance lock blocks: finishing a pending removal and
				// dropping the surplus replica of an over-replicated partition
				if len(p.cur.Removings) != 1 && len(p.cur.RaftNodes) <= s.metas[p.ns].Replica {
					allPending = false
				}
				if !(len(p.cur.Removings) == 1 && downISR > 0) {
					allA = false
				}
			}
			key := ""
			switch {
			case s.layoutPanic:
				key = "tail-stuck-layout-panic-suppressed"
			case balancerWaits != "" && allPending:
				key = "tail-stuck-balancer-waits-holding-balance-lock"
				stuck = append(stuck, "balancer waits for "+balancerWaits)
			case allA:
				key = "tail-stuck-removal-pending-while-other-replica-down"
			}
			var nodes []string
			for _, d := range s.dnodeOrder {
				nodes = append(nodes, fmt.Sprintf("%s up=%v reg=%v oprm=%v", nshort(d.info.ID), d.up, d.registered, d.opRemoving))
			}
			s.mu.Unlock()
			if key != "" {
				c.Count("known."+key, 1)
			}
			c.Violate("C18", "tail-liveness", key, "no faults for %s but partitions are not back to full replication: %v; nodes: %v", bound, stuck, nodes)
			break
		}
		s.advance(chunk)
		if s.fatal() {
			break
		}
	}
	// let balancing go on for a while: every write is still checked
	s.advance(time.Duration(s.t.Range(0, 20)) * g.step * 5)
}

// tailBound: the stated liveness bound per interval set. The longest chain
// the coordinator needs for one partition (mark, finish removal, add; twice
// for two lost replicas) is about 4 x (wait-migrate + wait-remove) - 1 min,
// 5 min and 1.5 h for the three interval sets.
func tailBound(intervals int) time.Duration {
	switch intervals {
	case 0:
		return 20 * time.Minute
	case 1:
		return 10 * time.Hour
	default:
		return 90 * time.Minute
	}
}

// balancerWaitsLocked: observation of "the balance loop is inside its
// unbounded wait": the coordinator's wait loop (addNodeToNamespaceAndWaitReady)
// re-reads the partition from the register in every iteration; the fake
// register recognises that caller. The balancer counts as stuck when it has
// been polling one partition for at least half of the tail and still did so
// within the last minute.
func (s *coordSim) balancerWaitsLocked(bound time.Duration) string {
	now := time.Now()
	for _, p := range s.sortedParts() {
		if p.cur == nil || p.balPollLast.IsZero() {
			continue
		}
		if now.Sub(p.balPollLast) <= time.Minute && p.balPollLast.Sub(p.balPollFirst) >= bound/2 {
			return fmt.Sprintf("a node of %s %s since t=%s", p.name(), verString(p.cur), p.balPollFirst.Sub(s.start))
		}
	}
	return ""
}

func (s *coordSim) memberString(p *part) string {
	var l []string
	for _, n := range sortedIDKeys(p.members) {
		l = append(l, fmt.Sprintf("%s=%d", nshort(n), p.members[n]))
	}
	return strings.Join(l, " ")
}

func (s *coordSim) fullLocked(p *part) bool {
	if p.cur == nil {
		return false
	}
	r := s.metas[p.ns].Replica
	if len(p.cur.Removings) != 0 || len(p.cur.RaftNodes) != r {
		return false
	}
	for _, n := range p.cur.RaftNodes {
		d := s.dnodes[n]
		if d == nil || !d.up || !d.registered {
			return false
		}
	}
	return true
}
