// Package pdsim simulates the placement driver (PD) of ZanRedisDB.
//
// C17: generator-driven check of the real layout function
// (getRebalancedNamespacePartitions) over generated topologies plus, for the
// incremental (v2) algorithm, simulated histories of node loss / recovery /
// addition in which each layout is computed from the previous one.
//
// C18: the real PDCoordinator with all its loops runs inside a synctest bubble
// against an in-memory PDRegister (CAS epochs, watch channels, injected
// faults) and fake data nodes that answer the coordinator's HTTP queries
// through the intercepted common.APIRequest; every metadata version the
// register accepts is checked against the property.
package pdsim

import (
	"fmt"
	"os"
	"sync"
	"time"

	"github.com/youzan/ZanRedisDB/cluster"
	"github.com/youzan/ZanRedisDB/common"

	"verif/sim/core"
)

var Engine = core.Engine{Name: "pdsim", Run: Run}

type nullLogger struct{}

func (nullLogger) Output(maxdepth int, s string) error        { return nil }
func (nullLogger) OutputErr(maxdepth int, s string) error     { return nil }
func (nullLogger) OutputWarning(maxdepth int, s string) error { return nil }

// memLogger keeps the coordinator's log lines in memory (writing them to a
// file descriptor from inside the bubble would let the Go scheduler switch
// goroutines at every write). Debugging aid: PDSIM_LOG=1 prints them after
// the run.
type memLogger struct {
	mu    sync.Mutex
	lines []string
}

func (m *memLogger) add(s string) {
	m.mu.Lock()
	m.lines = append(m.lines, time.Now().Format("15:04:05.000 ")+s)
	m.mu.Unlock()
}
func (m *memLogger) Output(maxdepth int, s string) error        { m.add(s); return nil }
func (m *memLogger) OutputErr(maxdepth int, s string) error     { m.add("ERR " + s); return nil }
func (m *memLogger) OutputWarning(maxdepth int, s string) error { m.add("WARN " + s); return nil }

var memLog *memLogger

func init() {
	if os.Getenv("PDSIM_LOG") == "" {
		cluster.SetLogger(-1, nullLogger{})
	} else {
		memLog = &memLogger{}
		cluster.SetLogger(common.LOG_INFO, memLog)
	}
}

func dumpMemLog() {
	if memLog == nil {
		return
	}
	memLog.mu.Lock()
	for _, l := range memLog.lines {
		if len(l) > 600 {
			l = l[:600]
		}
		fmt.Println("PD", l)
	}
	memLog.lines = nil
	memLog.mu.Unlock()
}

func pick(t *core.Tape, vals ...int) int { return vals[t.Choose(len(vals))] }

// Run executes one simulated run of the check selected by c.Prop.
func Run(c *core.RunCtx) {
	seedMapOrder(c.Tape.U32())
	switch c.Prop {
	case "C17":
		runPlacement(c)
	case "C18":
		runCoord(c)
	default:
		// no property selected: alternate by tape
		if c.Tape.Choose(2) == 0 {
			runPlacement(c)
		} else {
			runCoord(c)
		}
	}
}
