package walsim

import (
	"fmt"
	"os"
	"path/filepath"
	"runtime"
	"strings"
	"testing/synctest"

	pb "github.com/youzan/ZanRedisDB/raft/raftpb"
	"github.com/youzan/ZanRedisDB/wal/walpb"

	"verif/sim/core"
)

type fileImg struct {
	name string
	data []byte
}

func readAllFiles(dir string) map[string][]byte {
	m := map[string][]byte{}
	for _, n := range listWal(dir) {
		b, err := os.ReadFile(filepath.Join(dir, n))
		if err == nil {
			m[n] = b
		}
	}
	return m
}

func writeImage(dir string, files []fileImg) {
	os.MkdirAll(dir, 0700)
	for _, f := range files {
		os.WriteFile(filepath.Join(dir, f.name), f.data, 0600)
	}
}

// examine builds the crash images for "the process/machine died during or
// right after the operation that just returned" and checks each.
func (s *sim) examine(preDur map[uint64][]byte, preDir map[string]uint64, preFiles []string, prePower, preKill int) {
	c, t := s.c, s.t
	cur := readAllFiles(s.wd)
	names := listWal(s.wd)
	curIno := map[string]uint64{}
	for _, n := range names {
		curIno[n] = ino(filepath.Join(s.wd, n))
	}
	start := s.snaps[0]
	// production reopens from the newest snapshot it has; any marker that is
	// durable is a legitimate start
	var durSnaps []walpb.Snapshot
	np := 0
	for i := range s.recs {
		if i >= prePower {
			break
		}
		if s.recs[i].kind == recSnap {
			durSnaps = append(durSnaps, s.recs[i].snap)
		}
		np++
	}
	if len(durSnaps) > 0 && t.Bool(500) {
		start = durSnaps[t.Choose(len(durSnaps))]
	}

	// ---- 1. process kill right after the operation: files as they are ----
	{
		var files []fileImg
		for _, n := range names {
			files = append(files, fileImg{n, cur[n]})
		}
		// every marker whose SaveSnapshot returned is flushed: each is a legitimate
		// place to open from (production opens from its newest snapshot)
		for _, killStart := range s.snaps {
			if len(c.Viol) > 0 {
				break
			}
			s.checkImage("kill", files, killStart, s.killMin, false, -1)
		}
	}
	if len(c.Viol) > 0 {
		return
	}

	// ---- 2. power loss during the operation -----------------------------
	// per file: durable version (content at its last fsync before the
	// operation; nothing if never synced or not in the durable directory)
	// and current version.
	type ver struct {
		name     string
		dur, cur []byte
		durKnown bool // file existed durably (name in durable dir listing)
	}
	var vs []ver
	for _, n := range names {
		if !strings.HasSuffix(n, ".wal") {
			continue
		}
		v := ver{name: n, cur: cur[n]}
		if i, ok := preDir[n]; ok && i == curIno[n] {
			v.durKnown = true
		}
		if d, ok := preDur[curIno[n]]; ok {
			v.dur = d
		}
		// the very first segment is created in a temp dir that is renamed and
		// whose parent is synced by Create: treat segment files that existed
		// before the operation as durably named (Create syncs the parent dir)
		for _, pn := range preFiles {
			if pn == n {
				v.durKnown = true
			}
		}
		vs = append(vs, v)
	}
	// files that differ between durable and current version
	var changed []int
	for i := range vs {
		if string(vs[i].dur) != string(vs[i].cur) {
			changed = append(changed, i)
		}
	}
	if len(changed) == 0 {
		c.Probe("no_unsynced_bytes")
	}
	budget := 1200
	if c.Tier == "thorough" {
		budget = 4000
	}
	if s.light {
		budget = 120
	}
	for ci, fi := range changed {
		v := vs[fi]
		// differing region [lo,hi) between the durable (zero-extended) and the
		// current (zero-extended) content
		durAt := func(i int) byte {
			if i < len(v.dur) {
				return v.dur[i]
			}
			return 0
		}
		curAt := func(i int) byte {
			if i < len(v.cur) {
				return v.cur[i]
			}
			return 0
		}
		ml := max(len(v.cur), len(v.dur))
		lo, hi := 0, ml
		for lo < ml && curAt(lo) == durAt(lo) {
			lo++
		}
		for hi > lo && curAt(hi-1) == durAt(hi-1) {
			hi--
		}
		if hi > len(v.cur) {
			hi = len(v.cur)
		}
		if lo > hi {
			lo = hi
		}
		n := hi - lo + 1
		stride := 1
		if n > budget {
			stride = n/budget + 1
			c.Probe("offset_enumeration_sampled")
		} else {
			c.Probe("offset_enumeration_complete")
		}
		phase := 0
		if stride > 1 {
			phase = t.Choose(stride)
		}
		// how many leading sectors of the unsynced region are lost (one, a few, a
		// page or more) while what follows reached the disk
		// the bytes that were pending together: what the file held at the first
		// fsync of it inside the operation (everything if there was none)
		ep := v.cur
		if fsb, ok := s.firstSync[curIno[v.name]]; ok {
			ep = fsb
		}
		e1 := lo
		for k := min(len(ep), ml) - 1; k >= lo; k-- {
			if ep[k] != durAt(k) {
				e1 = k + 1
				break
			}
		}
		for _, nsec := range []int{1, 2, 8, 9, 17, 33} {
			holeEnd := (lo/512 + nsec) * 512
			hole := holeEnd - lo
			if e1 <= holeEnd || len(c.Viol) > 0 {
				break
			}
			// the first sector(s) of what was being written never reached the disk
			// (a partly old sector keeps its old version), the later ones did
			// (sector-granular reordering): recovery must wipe them, or they come
			// back behind whatever is saved next. The kept bytes end where the
			// first fsync inside the operation found the file: up to there all of
			// it was pending at the same time.
			var files []fileImg
			for j := range vs {
				w := vs[j]
				var data []byte
				switch {
				case j == fi:
					data = make([]byte, len(w.cur))
					for k := range data {
						if k < lo || (k >= holeEnd && k < e1 && k < len(ep)) {
							if k < len(ep) {
								data[k] = ep[k]
							}
						} else {
							data[k] = durAt(k)
						}
					}
				case isBefore(changed, ci, j):
					data = w.cur
				default:
					if !w.durKnown && w.dur == nil {
						continue
					}
					if w.dur != nil {
						data = w.dur
					} else {
						data = w.cur
					}
				}
				files = append(files, fileImg{w.name, data})
			}
			c.Fault("first_unsynced_sector_lost")
			if lo%512 == 0 {
				c.Fault("first_unsynced_sector_lost_aligned")
			}
			if hole >= 4096 {
				c.Fault("first_unsynced_page_lost")
			}
			s.forcePost = true
			s.checkImage("power", files, start, prePower, false, lo)
			s.forcePost = false
		}
		for o := lo; o <= hi && len(c.Viol) == 0; o++ {
			if stride > 1 && (o-lo)%stride != phase && o-lo > 300 && hi-o > 300 {
				continue
			}
			// image: files before this one in segment order are current (written
			// earlier), files after it durable version
			var files []fileImg
			for j := range vs {
				w := vs[j]
				var data []byte
				switch {
				case j == fi:
					data = make([]byte, len(w.cur))
					copy(data, w.cur[:o])
					for k := o; k < len(data); k++ {
						data[k] = durAt(k)
					}
					if len(w.dur) > len(data) {
						// the operation truncated the file (cut); beyond o the old bytes
						data = append(data, w.dur[len(data):]...)
					}
				case isBefore(changed, ci, j):
					data = w.cur
				default:
					if !w.durKnown && w.dur == nil {
						continue // file creation/rename not durable: absent
					}
					if w.dur != nil {
						data = w.dur
					} else {
						data = w.cur
					}
				}
				files = append(files, fileImg{w.name, data})
			}
			variant := -1
			if t.Bool(150) {
				variant = t.Choose(3)
			}
			s.applyVariant(files, v.name, lo, o, variant)
			s.checkImage("power", files, start, prePower, false, o)
		}
	}
	if len(c.Viol) > 0 {
		return
	}
	// ---- 3. bit flips in the synced region ------------------------------
	nflip := 2 + t.Choose(6)
	for k := 0; k < nflip && len(c.Viol) == 0; k++ {
		var files []fileImg
		for _, n := range names {
			if strings.HasSuffix(n, ".wal") {
				files = append(files, fileImg{n, append([]byte(nil), cur[n]...)})
			}
		}
		if len(files) == 0 {
			break
		}
		f := &files[t.Choose(len(files))]
		// written region: up to the last non-zero byte
		wl := len(f.data)
		for wl > 0 && f.data[wl-1] == 0 {
			wl--
		}
		if wl == 0 {
			continue
		}
		off := t.Choose(wl)
		bit := t.Choose(8)
		// half of the flips aim at the few bytes the checksum does not cover
		if t.Bool(500) {
			for try := 0; try < 64 && payloadAt(f.data, off); try++ {
				off = t.Choose(wl)
			}
		}
		s.flipInPayload = payloadAt(f.data, off)
		f.data[off] ^= 1 << uint(bit)
		if s.flipInPayload {
			c.Fault("bitflip_payload")
		} else {
			c.Fault("bitflip_header")
		}
		s.checkImage("bitflip", files, s.snaps[0], 0, true, off)
	}
}

func isBefore(changed []int, ci int, j int) bool {
	for k := 0; k < ci; k++ {
		if changed[k] == j {
			return true
		}
	}
	// unchanged files: same either way (handled by caller through dur==cur)
	return j < changed[ci]
}

// applyVariant: torn-sector and shortened-file variants of a byte-granular cut.
func (s *sim) applyVariant(files []fileImg, name string, lo, o int, variant int) {
	if variant < 0 {
		return
	}
	for i := range files {
		if files[i].name != name {
			continue
		}
		d := files[i].data
		switch variant {
		case 0: // file shortened to the cut instead of zero filled
			if o < len(d) {
				files[i].data = d[:o]
				s.c.Fault("short_file")
			}
		case 1: // the 512-byte sector holding the cut is lost entirely
			st := o / 512 * 512
			if st < lo {
				st = lo
			}
			for k := st; k < o && k < len(d); k++ {
				d[k] = 0
			}
			s.c.Fault("torn_sector_zero")
		case 2: // an earlier unsynced sector never made it (hole), later bytes did
			if o-lo > 512 {
				st := lo + s.t.Choose(o-lo-512)
				st = st / 512 * 512
				if st < lo {
					st = lo
				}
				for k := st; k < st+512 && k < o && k < len(d); k++ {
					d[k] = 0
				}
				s.c.Fault("lost_sector_hole")
			}
		}
	}
}

func (s *sim) checkImage(kind string, files []fileImg, start walpb.Snapshot, minL int, flipped bool, off int) {
	c := s.c
	s.images++
	s.imgSeq++
	if os.Getenv("WALSIM_DEBUG") != "" && s.images%1000 == 0 {
		var ms runtime.MemStats
		runtime.ReadMemStats(&ms)
		fmt.Fprintf(core.Stdout, "images=%d goroutines=%d heap=%dMB kind=%s\n", s.images, runtime.NumGoroutine(), ms.HeapAlloc>>20, kind)
	}
	img := filepath.Join(s.dir, fmt.Sprintf("img%d", s.imgSeq))
	writeImage(img, files)
	defer os.RemoveAll(img)
	c.Fault("crash_image_" + kind)
	r := reopen(img, start, s.opt)
	synctest.Wait()
	defer func() {
		if r.w != nil {
			r.w.Close()
			synctest.Wait()
		}
	}()
	desc := func() string {
		return fmt.Sprintf("%s image after op %d (offset %d, start %d/%d, records %d, required prefix >= %d)", kind, s.curOp, off, start.Index, start.Term, len(s.recs), minL)
	}
	// ground truth for known finding "bitflip-outside-crc": the flipped bit is
	// in a byte the rolling CRC does not cover (record type, frame length, ...)
	key := ""
	if flipped && !s.flipInPayload {
		key = "bitflip-outside-crc"
	}
	switch r.tag {
	case "panic":
		if flipped {
			// the process dies at start-up: loud, not silent
			s.stats.loud++
			c.Probe("reopen_panic_on_corruption")
			c.Log("img", "%s off=%d panic", kind, off)
			return
		}
		c.Violate("C05", "reopen-panic", "", "%s: %v", desc(), r.err)
		return
	case "loud":
		s.stats.loud++
		c.Log("img", "%s off=%d loud", kind, off)
		if kind == "kill" {
			// nothing was torn: a process kill never justifies a failure
			c.Violate("C05", "kill-reopen-failed", "", "%s: reopen failed: %v", desc(), r.err)
		}
		return
	case "repaired":
		s.stats.repaired++
		c.Probe("repaired")
	default:
		s.stats.ok++
	}
	L, ok := s.matchPrefix(r.hs, r.ents, start, 0)
	c.Log("img", "%s off=%d %s L=%d ok=%v", kind, off, r.tag, L, ok)
	if !ok {
		if e := s.unknownEntry(r.ents); e != nil {
			c.Violate("C05", "unwritten-data", key, "%s: returned entry index %d term %d (%d bytes) that was never saved", desc(), e.Index, e.Term, len(e.Data))
		} else {
			c.Violate("C05", "not-a-prefix", key, "%s: returned hs=%v with %d entries (last %d) which is not the effect of any prefix of the saved records", desc(), r.hs, len(r.ents), lastIdx(r.ents))
		}
		return
	}
	if L < minL && !flipped {
		// is there a longer matching prefix? matchPrefix returns the longest
		c.Violate("C05", "lost-durable", "", "%s: returned the effect of only %d records (hs=%v, %d entries)", desc(), L, r.hs, len(r.ents))
		return
	}
	// the reopened log must accept further saves and reopen cleanly again
	if (s.forcePost || s.t.Bool(60)) && r.w != nil {
		ni := lastIdx(r.ents)
		if ni < start.Index {
			ni = start.Index
		}
		// what is saved after the recovery: a small record, a large one (reaching
		// into whatever lies behind the recovered end of the log), or exactly the
		// records that were lost (a node that re-receives the same entries)
		var nents []pb.Entry
		nhs := pb.HardState{Term: r.hs.Term + 1, Vote: 1, Commit: r.hs.Commit}
		mode := s.t.Choose(3)
		if mode == 2 && L < len(s.recs) {
			nhs = r.hs
			for i := L; i < len(s.recs) && s.recs[i].op == s.recs[L].op; i++ {
				if s.recs[i].kind == recEntry {
					nents = append(nents, s.recs[i].ent)
				} else if s.recs[i].kind == recState {
					nhs = s.recs[i].hs
				}
			}
			if len(nents) > 0 && nents[0].Index != ni+1 {
				nents = nil
			}
			c.Probe("resave_lost_records")
		}
		if len(nents) == 0 {
			nhs = pb.HardState{Term: r.hs.Term + 1, Vote: 1, Commit: r.hs.Commit}
			data := []byte("after-recovery")
			if mode == 1 {
				data = dataFor(ni+1, r.hs.Term+1, 777, 600+s.t.Choose(1500))
			}
			nents = []pb.Entry{{Term: r.hs.Term + 1, Index: ni + 1, Data: data}}
		}
		ne := nents
		if err := r.w.Save(nhs, append([]pb.Entry(nil), ne...)); err != nil {
			c.Violate("C05", "save-after-recovery", "", "%s: Save after recovery: %v", desc(), err)
			return
		}
		synctest.Wait()
		r.w.Close()
		synctest.Wait()
		r.w = nil
		r2 := reopen(img, start, s.opt)
		synctest.Wait()
		if r2.tag != "ok" {
			c.Violate("C05", "reopen-after-recovery", "", "%s: second reopen after one more Save: %s %v", desc(), r2.tag, r2.err)
			return
		}
		want := append(append([]pb.Entry(nil), r.ents...), ne...)
		e := effect{hs: nhs, ents: want}
		if !sameEffect(r2.hs, r2.ents, &e) {
			c.Violate("C05", "reopen-after-recovery", "", "%s: second reopen returned hs=%v %d entries, want hs=%v %d entries", desc(), r2.hs, len(r2.ents), nhs, len(want))
		}
		r2.w.Close()
		synctest.Wait()
		c.Probe("save_after_recovery")
	}
}

func lastIdx(ents []pb.Entry) uint64 {
	if len(ents) == 0 {
		return 0
	}
	return ents[len(ents)-1].Index
}
