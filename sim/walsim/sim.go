// Package walsim decides C05: a tape-generated save history is written through
// the real wal package to real files; an fsync observer (verif hook in
// pkg/fileutil) records what is durable; crash images are built for crashes
// during any operation (process kill, power loss with every byte offset of the
// unsynced region, torn sectors, lost renames, bit flips) and reopened the way
// node/raft.go openWAL does (Open+ReadAll, Repair once on error).
package walsim

import (
	"bytes"
	"fmt"
	"os"
	"path/filepath"
	"sort"
	"strings"
	"syscall"
	"testing"
	"testing/synctest"

	"github.com/youzan/ZanRedisDB/pkg/fileutil"
	"github.com/youzan/ZanRedisDB/raft"
	pb "github.com/youzan/ZanRedisDB/raft/raftpb"
	"github.com/youzan/ZanRedisDB/wal"
	"github.com/youzan/ZanRedisDB/wal/walpb"

	"verif/sim/core"
)

var Engine = core.Engine{Name: "walsim", Run: Run}

const (
	recEntry = iota
	recState
	recSnap
)

type record struct {
	kind int
	ent  pb.Entry
	hs   pb.HardState
	snap walpb.Snapshot
	op   int
	file uint64 // inode of the segment the record was written to
}

// effect of a record prefix, read from a start marker
type effect struct {
	hs   pb.HardState
	ents []pb.Entry
}

type sim struct {
	c   *core.RunCtx
	t   *core.Tape
	dir string // run directory
	wd  string // wal dir
	w   *wal.WAL
	opt bool // optimizedFsync

	recs []record
	// power-level durability: per inode content at its last fsync, directory
	// listing at the last directory fsync
	durContent map[uint64][]byte
	light      bool              // sampled offsets only (see run)
	firstSync  map[uint64][]byte // inode -> content at its first fsync inside the running operation
	durDir     map[string]uint64
	syncedUpTo map[uint64]int // inode -> number of records (global count) issued when it was last fsynced
	nsync      int
	// process-level promise: records [0,killMin) are flushed to the OS
	killMin int

	term, last, commit uint64
	vote               uint64
	state              pb.HardState // what the WAL believes (for MustSync)
	snaps              []walpb.Snapshot
	seq                int
	curOp              int
	images             int
	imgSeq             int
	stats              struct{ ok, repaired, loud int }
	policyChecked      int
	pending            int // records the running operation writes
	flipInPayload      bool
	forcePost          bool
}

func ino(path string) uint64 {
	fi, err := os.Stat(path)
	if err != nil {
		return 0
	}
	return fi.Sys().(*syscall.Stat_t).Ino
}

func listWal(dir string) []string {
	fs, _ := os.ReadDir(dir)
	var out []string
	for _, f := range fs {
		out = append(out, f.Name())
	}
	sort.Strings(out)
	return out
}

func (s *sim) tailIno() uint64 {
	names := listWal(s.wd)
	for i := len(names) - 1; i >= 0; i-- {
		if strings.HasSuffix(names[i], ".wal") {
			return ino(filepath.Join(s.wd, names[i]))
		}
	}
	return 0
}

func (s *sim) hook(f *os.File) {
	fi, err := f.Stat()
	if err != nil {
		return
	}
	s.nsync++
	if fi.IsDir() {
		// only the wal directory matters
		if filepath.Clean(f.Name()) != filepath.Clean(s.wd) {
			return
		}
		m := map[string]uint64{}
		for _, n := range listWal(s.wd) {
			m[n] = ino(filepath.Join(s.wd, n))
		}
		s.durDir = m
		return
	}
	if strings.HasPrefix(filepath.Clean(f.Name()), filepath.Join(s.dir, "img")) {
		// a file of a crash image being examined (its own reopen syncs): only
		// the live log's files have a durable version to remember
		return
	}
	b, err := os.ReadFile(fmt.Sprintf("/proc/self/fd/%d", f.Fd()))
	if err != nil {
		return
	}
	i := fi.Sys().(*syscall.Stat_t).Ino
	if _, ok := s.firstSync[i]; !ok {
		s.firstSync[i] = b
	}
	s.durContent[i] = b
	// records of the running operation are encoded before its sync
	s.syncedUpTo[i] = len(s.recs) + s.pending
}

// powerMin is the number of leading records that are durable under the
// power-loss model: the longest prefix whose every record lies in a segment
// that was fsynced after the record was written.
func (s *sim) powerMin() int {
	n := 0
	for i := range s.recs {
		if s.syncedUpTo[s.recs[i].file] > i {
			n = i + 1
		} else {
			break
		}
	}
	return n
}

func dataFor(index, term uint64, seq, size int) []byte {
	b := make([]byte, size)
	x := index*0x9E3779B97F4A7C15 ^ term*0xD1B54A32D192ED03 ^ uint64(seq)*0x94d049bb133111eb
	for i := range b {
		x ^= x << 13
		x ^= x >> 7
		x ^= x << 17
		b[i] = byte(x)
	}
	return b
}

func (s *sim) entrySize() int {
	t := s.t
	switch t.Choose(12) {
	case 0:
		return 0
	case 1:
		return 512 - 40 + t.Choose(80)
	case 2:
		return 4096 - 60 + t.Choose(120)
	case 3:
		if s.c.Tier == "thorough" && t.Choose(6) == 0 {
			return 1<<20 - 50 + t.Choose(100)
		}
		return 2000 + t.Choose(3000)
	default:
		return 1 + t.Choose(200)
	}
}

// addRecs appends the records a Save(hs, ents) call writes, in order.
func (s *sim) addRecs(hs pb.HardState, ents []pb.Entry, file uint64) {
	for _, e := range ents {
		s.recs = append(s.recs, record{kind: recEntry, ent: e, op: s.curOp, file: file})
	}
	if !raft.IsEmptyHardState(hs) {
		s.recs = append(s.recs, record{kind: recState, hs: hs, op: s.curOp, file: file})
	}
}

func eff(recs []record, start walpb.Snapshot) (e effect, ok bool, matched bool) {
	for i := range recs {
		r := &recs[i]
		switch r.kind {
		case recEntry:
			if r.ent.Index > start.Index {
				up := r.ent.Index - start.Index - 1
				if up > uint64(len(e.ents)) {
					return e, false, matched
				}
				e.ents = append(e.ents[:up:up], r.ent)
			}
		case recState:
			e.hs = r.hs
		case recSnap:
			if r.snap.Index == start.Index && r.snap.Term == start.Term {
				matched = true
			}
		}
	}
	return e, true, matched
}

func sameEffect(hs pb.HardState, ents []pb.Entry, e *effect) bool {
	if hs.Term != e.hs.Term || hs.Vote != e.hs.Vote || hs.Commit != e.hs.Commit {
		return false
	}
	if len(ents) != len(e.ents) {
		return false
	}
	for i := range ents {
		a, b := &ents[i], &e.ents[i]
		if a.Index != b.Index || a.Term != b.Term || a.Type != b.Type || !bytes.Equal(a.Data, b.Data) {
			return false
		}
	}
	return true
}

// matchPrefix: is (hs, ents) the effect of recs[:L] for some L in [minL, len]?
func (s *sim) matchPrefix(hs pb.HardState, ents []pb.Entry, start walpb.Snapshot, minL int) (int, bool) {
	// the snapshot marker record with index 0 written by Create is implicit
	for L := len(s.recs); L >= minL; L-- {
		e, ok, _ := eff(s.recs[:L], start)
		if ok && sameEffect(hs, ents, &e) {
			return L, true
		}
	}
	return 0, false
}

// everyReturnedRecordWasWritten: each returned entry equals some saved entry
// with that index (weaker than prefix equality, used for diagnostics).
func (s *sim) unknownEntry(ents []pb.Entry) *pb.Entry {
	for i := range ents {
		found := false
		for j := range s.recs {
			r := &s.recs[j]
			if r.kind == recEntry && r.ent.Index == ents[i].Index && r.ent.Term == ents[i].Term && bytes.Equal(r.ent.Data, ents[i].Data) {
				found = true
				break
			}
		}
		if !found {
			return &ents[i]
		}
	}
	return nil
}

type readResult struct {
	tag  string // ok | repaired | loud
	err  error
	hs   pb.HardState
	ents []pb.Entry
	w    *wal.WAL
}

// reopen mirrors node/raft.go openWAL(readOld=true).
func reopen(dir string, start walpb.Snapshot, opt bool) (r readResult) {
	var cur *wal.WAL
	defer func() {
		if e := recover(); e != nil {
			if cur != nil {
				func() {
					defer func() { recover() }()
					cur.Close()
				}()
				synctest.Wait()
			}
			r = readResult{tag: "panic", err: fmt.Errorf("panic: %v", e)}
		}
	}()
	repaired := false
	for {
		w, err := wal.Open(dir, start, opt)
		if err != nil {
			return readResult{tag: "loud", err: err}
		}
		cur = w
		synctest.Wait()
		_, st, ents, err := w.ReadAll()
		if err != nil {
			w.Close()
			cur = nil
			synctest.Wait()
			if !repaired && wal.Repair(dir) {
				repaired = true
				continue
			}
			return readResult{tag: "loud", err: err}
		}
		tag := "ok"
		if repaired {
			tag = "repaired"
		}
		return readResult{tag: tag, hs: st, ents: ents, w: w}
	}
}

// payloadAt reports whether byte offset off of a segment image lies inside the
// Data payload of a record (the only bytes the rolling CRC covers). Everything
// else - frame length, protobuf tags, record type, crc field, data length,
// padding - is outside the checksum.
func payloadAt(seg []byte, off int) bool {
	p := 0
	for p+8 <= len(seg) {
		l := int64(0)
		for i := 0; i < 8; i++ {
			l |= int64(seg[p+i]) << (8 * uint(i))
		}
		if l == 0 {
			return false
		}
		recBytes := int(uint64(l) & ^(uint64(0xff) << 56))
		pad := 0
		if l < 0 {
			pad = int((uint64(l) >> 56) & 0x7)
		}
		body := p + 8
		if recBytes < 0 || body+recBytes > len(seg) {
			return false
		}
		if off >= body && off < body+recBytes {
			// walk the Record proto: fields 1 (type, varint), 2 (crc, varint), 3 (data, bytes)
			q := body
			end := body + recBytes
			for q < end {
				tag := seg[q]
				q++
				switch tag {
				case 0x08, 0x10:
					for q < end && seg[q]&0x80 != 0 {
						q++
					}
					q++
				case 0x1a:
					n, sh := 0, uint(0)
					for q < end {
						b := seg[q]
						q++
						n |= int(b&0x7f) << sh
						sh += 7
						if b&0x80 == 0 {
							break
						}
					}
					if off >= q && off < q+n {
						return true
					}
					q += n
				default:
					return false
				}
			}
			return false
		}
		p = body + recBytes + pad
	}
	return false
}

func Run(c *core.RunCtx) {
	defer func() { fileutil.VerifSyncHook = nil }()
	synctest.Test(c.T, func(t *testing.T) { run(c) })
}

func run(c *core.RunCtx) {
	t := c.Tape
	s := &sim{c: c, t: t, firstSync: map[uint64][]byte{}, durContent: map[uint64][]byte{}, durDir: map[string]uint64{}, syncedUpTo: map[uint64]int{}}
	base := os.Getenv("VERIF_SCRATCH")
	if base == "" {
		base = "/dev/shm"
	}
	dir, err := os.MkdirTemp(base, "walsim")
	if err != nil {
		panic(err)
	}
	defer os.RemoveAll(dir)
	s.dir = dir
	s.wd = filepath.Join(dir, "wal")
	s.opt = t.Choose(4) == 0
	seg := []int64{8 << 10, 4 << 10, 16 << 10, 32 << 10}[t.Choose(4)]
	wal.SegmentSizeBytes = seg
	nops := 4 + t.Choose(28)
	if c.Tier == "thorough" {
		nops = 4 + t.Choose(60)
	}
	examPm := []int{100, 250, 600}[t.Choose(3)]
	s.light = t.Choose(2) == 0
	c.Log("cfg", "opt=%v seg=%d nops=%d exam=%d", s.opt, seg, nops, examPm)
	fileutil.VerifSyncHook = s.hook
	wal.VerifSetLogger(nil)
	w, err := wal.Create(s.wd, []byte("meta"), s.opt)
	if err != nil {
		panic(err)
	}
	synctest.Wait()
	s.w = w
	s.term, s.vote = 1, 0
	// Create wrote an empty snapshot marker
	s.snaps = []walpb.Snapshot{{}}

	for op := 0; op < nops && len(c.Viol) == 0; op++ {
		s.curOp = op
		// state before the operation (for "crash during this operation")
		preDur := map[uint64][]byte{}
		for k, v := range s.durContent {
			preDur[k] = v
		}
		preDir := s.durDir
		prePower := s.powerMin()
		preKill := s.killMin
		preFiles := listWal(s.wd)
		s.firstSync = map[uint64][]byte{}
		s.doOp()
		if len(c.Viol) > 0 {
			break
		}
		c.Events++
		if s.w == nil {
			continue
		}
		last := op == nops-1
		imgCap := 2500
		if s.light {
			// many histories with few offsets each (history-level defects: segment
			// names, markers, overwrites) next to few histories with every offset
			imgCap = 500
		}
		if c.Tier == "thorough" {
			imgCap = 10000
		}
		if s.images < imgCap && (last || t.Bool(examPm)) {
			s.examine(preDur, preDir, preFiles, prePower, preKill)
		}
	}
	if s.w != nil {
		s.w.Close()
		synctest.Wait()
	}
	c.Count("images", int64(s.images))
	c.Count("images_ok", int64(s.stats.ok))
	c.Count("images_repaired", int64(s.stats.repaired))
	c.Count("images_loud", int64(s.stats.loud))
	c.Count("records", int64(len(s.recs)))
	c.Count("fsyncs_observed", int64(s.nsync))
	c.NonTrivial = s.images >= 20 && s.stats.ok+s.stats.repaired > 0 && len(s.recs) >= 5
	c.Sample = map[string]interface{}{
		"optimized_fsync": s.opt, "segment_bytes": seg, "operations": nops, "records": len(s.recs),
		"images": s.images, "ok": s.stats.ok, "repaired": s.stats.repaired, "loud": s.stats.loud,
		"last_index": s.last, "term": s.term, "snapshots": len(s.snaps) - 1,
	}
}

func (s *sim) doOp() {
	t, c := s.t, s.c
	file := s.tailIno()
	switch k := t.Weighted([]int{50, 10, 10, 8, 12, 5, 6, 6}); k {
	case 0, 1: // Save entries (1: overwrite a suffix first)
		if k == 1 && s.last > s.commit {
			back := uint64(1 + t.Choose(int(s.last-s.commit)))
			s.last -= back
			s.term++
			s.vote = 0
			c.Probe("overwrite_suffix")
		}
		n := 1 + t.Choose(4)
		var ents []pb.Entry
		for i := 0; i < n; i++ {
			s.last++
			s.seq++
			ents = append(ents, pb.Entry{Term: s.term, Index: s.last, Data: dataFor(s.last, s.term, s.seq, s.entrySize())})
		}
		hs := pb.HardState{}
		switch t.Choose(3) {
		case 0:
			if t.Bool(300) && s.commit < s.last {
				s.commit += uint64(1 + t.Choose(int(s.last-s.commit)))
			}
			hs = pb.HardState{Term: s.term, Vote: s.vote, Commit: s.commit}
		case 1:
			hs = pb.HardState{Term: s.term, Vote: s.vote, Commit: s.commit}
		}
		s.save(hs, ents, file)
	case 2: // hard state only: commit advance (no sync required)
		if s.commit < s.last {
			s.commit += uint64(1 + t.Choose(int(s.last-s.commit)))
		}
		s.save(pb.HardState{Term: s.term, Vote: s.vote, Commit: s.commit}, nil, file)
	case 3: // hard state only: term/vote change (sync required)
		if t.Bool(500) {
			s.term++
			s.vote = uint64(t.Choose(3))
		} else {
			s.vote = uint64(1 + t.Choose(3))
		}
		s.save(pb.HardState{Term: s.term, Vote: s.vote, Commit: s.commit}, nil, file)
	case 4: // snapshot marker
		if s.commit == 0 {
			return
		}
		idx := uint64(1 + t.Choose(int(s.commit)))
		var term uint64
		e, _, _ := eff(s.recs, walpb.Snapshot{})
		for _, x := range e.ents {
			if x.Index == idx {
				term = x.Term
			}
		}
		if term == 0 {
			return
		}
		sn := walpb.Snapshot{Index: idx, Term: term}
		c.Log("op", "SaveSnapshot %d/%d", idx, term)
		s.pending = 1
		err := s.w.SaveSnapshot(sn)
		s.pending = 0
		if err != nil {
			c.Violate("C05", "api-error", "", "SaveSnapshot: %v", err)
			return
		}
		synctest.Wait()
		s.recs = append(s.recs, record{kind: recSnap, snap: sn, op: s.curOp, file: file})
		s.snaps = append(s.snaps, sn)
		s.killMin = len(s.recs)
		s.policy("SaveSnapshot")
	case 5: // explicit Sync
		c.Log("op", "Sync")
		if err := s.w.Sync(); err != nil {
			c.Violate("C05", "api-error", "", "Sync: %v", err)
			return
		}
		synctest.Wait()
		s.killMin = len(s.recs)
		if s.powerMin() != len(s.recs) && !s.hadUnsyncedCut() {
			c.Violate("C05", "sync-policy", "", "Sync() returned but %d of %d records are not covered by an observed fsync", len(s.recs)-s.powerMin(), len(s.recs))
		}
	case 6: // release locks
		if len(s.snaps) < 2 {
			return
		}
		sn := s.snaps[1+t.Choose(len(s.snaps)-1)]
		c.Log("op", "ReleaseLockTo %d", sn.Index)
		if err := s.w.ReleaseLockTo(sn.Index); err != nil {
			c.Violate("C05", "api-error", "", "ReleaseLockTo: %v", err)
		}
		synctest.Wait()
	case 7: // graceful close and reopen: must return everything
		c.Log("op", "Close+Open")
		if err := s.w.Close(); err != nil {
			c.Violate("C05", "api-error", "", "Close: %v", err)
			return
		}
		synctest.Wait()
		s.w = nil
		s.killMin = len(s.recs)
		start := s.snaps[t.Choose(len(s.snaps))]
		r := reopen(s.wd, start, s.opt)
		if r.tag != "ok" {
			c.Violate("C05", "clean-reopen", "", "reopen after graceful Close (start %d/%d): %s %v", start.Index, start.Term, r.tag, r.err)
			return
		}
		if L, ok := s.matchPrefix(r.hs, r.ents, start, len(s.recs)); !ok {
			c.Violate("C05", "clean-reopen", "", "reopen after graceful Close returned hs=%v %d entries, not the full saved state (%d records) L=%d", r.hs, len(r.ents), len(s.recs), L)
			r.w.Close()
			return
		}
		s.w = r.w
		s.state = pb.HardState{} // ReadAll does not restore w.state
		c.Probe("graceful_reopen")
	}
}

// hadUnsyncedCut: in optimizedFsync mode a cut does not fsync the old segment;
// records there are never covered by a later fsync. That is the mode's stated
// trade-off, not a sync-policy violation of this operation.
func (s *sim) hadUnsyncedCut() bool { return s.opt }

func (s *sim) save(hs pb.HardState, ents []pb.Entry, file uint64) {
	c := s.c
	if raft.IsEmptyHardState(hs) && len(ents) == 0 {
		return
	}
	mustSync := raft.MustSync(hs, s.state, len(ents))
	c.Log("op", "Save hs=%v n=%d first=%d mustSync=%v", hs, len(ents), firstIdx(ents), mustSync)
	// the WAL may keep references: hand it copies
	cp := make([]pb.Entry, len(ents))
	for i := range ents {
		cp[i] = ents[i]
		cp[i].Data = append([]byte(nil), ents[i].Data...)
	}
	before := len(listWal(s.wd))
	s.pending = len(ents)
	if !raft.IsEmptyHardState(hs) {
		s.pending++
	}
	err := s.w.Save(hs, cp)
	s.pending = 0
	if err != nil {
		c.Violate("C05", "api-error", "", "Save: %v", err)
		return
	}
	synctest.Wait()
	s.addRecs(hs, ents, file)
	if !raft.IsEmptyHardState(hs) {
		s.state = hs
	}
	cut := s.tailIno() != file
	if cut {
		c.Probe("segment_cut")
	}
	_ = before
	if mustSync || cut {
		s.killMin = len(s.recs)
		s.policy("Save")
	}
}

// policy: in non-optimized mode an operation that must sync has to be covered
// by an observed fsync when it returns.
func (s *sim) policy(what string) {
	if s.opt {
		return
	}
	s.policyChecked++
	if pm := s.powerMin(); pm != len(s.recs) {
		s.c.Violate("C05", "sync-policy", "", "%s returned (sync required) but only %d of %d records are covered by a completed fsync of their segment", what, pm, len(s.recs))
	}
}

func firstIdx(ents []pb.Entry) uint64 {
	if len(ents) == 0 {
		return 0
	}
	return ents[0].Index
}
