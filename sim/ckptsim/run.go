// Package ckptsim decides C14: a checkpoint taken when the store has applied
// the log up to index i and restored later - on the same store after further
// writes, repeatedly, out of order, or through the remote-backup path that a
// catching-up replica uses - yields exactly the data as of index i; restoring
// never damages the checkpoint; old checkpoints are only discarded when a
// newer restorable one exists. A real single-replica data node (nodeh)
// produces the data through the client command path; backups, restores,
// purges and kills at the backup/restore points are driven by the tape.
package ckptsim

import (
	"crypto/sha256"
	"fmt"
	"io/ioutil"
	"os"
	"os/exec"
	"path/filepath"
	"sort"
	"strings"
	"testing"
	"testing/synctest"
	"time"

	"github.com/youzan/ZanRedisDB/node"
	"github.com/youzan/ZanRedisDB/raft"
	"github.com/youzan/ZanRedisDB/rockredis"

	"verif/sim/core"
	"verif/sim/nodeh"
)

var Engine = core.Engine{Name: "ckptsim", Run: Run}

type cfg struct {
	engine     string
	keepBackup int
	ops        int
	killPoint  string
	killHit    int
}

type ckpt struct {
	term, index uint64
	dump        string // logical dump recorded when the checkpoint was taken
	hash        string // content hash of the checkpoint directory when it completed
	gone        bool
}

type sim struct {
	c          *core.RunCtx
	t          *core.Tape
	cfg        cfg
	cl         *nodeh.Cluster
	nval       int
	cks        []*ckpt
	index      uint64
	latestSnap uint64
	nrestore   int
	nbackup    int
	// kill-at-point machinery
	hits    int
	tripped bool
	done    bool
	parkCh  chan struct{}
	stallCh chan struct{} // a backup goroutine held at stallAt (not a kill)
	stallAt string
	stalled bool
	inOp    bool
}

func pick(t *core.Tape, vals ...int) int { return vals[t.Choose(len(vals))] }

var points = []string{"", "", "backup.beforeCheckpoint", "backup.beforeSave", "backup.beforePurge", "restore.afterCloseEng", "restore.afterRemove", "restore.beforeReopen"}

var kvKeys = []string{"t:a", "t:b", "u:a"}
var cntKeys = []string{"t:n"}
var listKeys = []string{"t:l"}
var hashKeys = []string{"t:h", "u:h"}
var setKeys = []string{"t:s"}
var zsetKeys = []string{"t:z"}
var ttlKeys = []string{"t:x", "t:y"}
var hllKeys = []string{"t:p"}

func Run(c *core.RunCtx) {
	s := &sim{c: c, t: c.Tape}
	t := c.Tape
	s.cfg.engine = []string{"pebble", "mem", "pebble", ""}[t.Choose(4)] // "" = rocksdb
	s.cfg.keepBackup = pick(t, 2, 1, 3)
	s.cfg.ops = pick(t, 60, 120, 200)
	if c.Tier == "thorough" {
		s.cfg.ops = pick(t, 120, 300, 500)
	}
	s.cfg.killPoint = points[t.Choose(len(points))]
	s.cfg.killHit = 1 + t.Choose(4)
	raft.VerifSeedGlobalRand(int64(t.U32()))
	c.Log("cfg", "%+v", s.cfg)
	func() {
		defer func() {
			if e := recover(); e != nil {
				if strings.Contains(fmt.Sprint(e), "deadlock: main bubble goroutine has exited") {
					c.Count("infra.bubble_leftover_goroutines", 1)
					return
				}
				panic(e)
			}
		}()
		synctest.Test(c.T, func(tt *testing.T) { s.bubble() })
	}()
	c.NonTrivial = s.nrestore >= 1 && s.nbackup >= 2
	c.Count("backups", int64(s.nbackup))
	c.Count("restores", int64(s.nrestore))
	c.Sample = map[string]interface{}{"config": fmt.Sprintf("%+v", s.cfg), "backups": s.nbackup, "restores": s.nrestore, "checkpoints_tracked": len(s.cks)}
}

func (s *sim) store() *node.KVStore {
	return node.VerifKVStore(s.cl.M[0].Parts[0].Node.VerifStateMachine())
}

func ns(k string) string { return nodeh.NS + ":" + k }

func (s *sim) val() string { s.nval++; return fmt.Sprintf("v%05d", s.nval) }

func (s *sim) do(args ...interface{}) (interface{}, bool) {
	r, ok := s.cl.Do(s.cl.M[0], nodeh.Cmd(args...), 100)
	return r, ok
}

// dump reads everything the user can see of the pool keys (incl. counters,
// expiry information and HyperLogLog counts) through the command path.
func (s *sim) dump() string {
	var sb strings.Builder
	rd := func(args ...interface{}) {
		r, ok := s.do(args...)
		sb.WriteString(fmt.Sprintf("%v=%s|%v;", args[:2], nodeh.Fmt(r), ok))
	}
	for _, k := range append(append([]string{}, kvKeys...), cntKeys...) {
		rd("get", ns(k))
	}
	for _, k := range ttlKeys {
		rd("get", ns(k))
		rd("ttl", ns(k))
	}
	for _, k := range listKeys {
		rd("lrange", ns(k), "0", "-1")
		rd("llen", ns(k))
	}
	for _, k := range hashKeys {
		rd("hgetall", ns(k))
		rd("hlen", ns(k))
	}
	for _, k := range setKeys {
		rd("smembers", ns(k))
		rd("scard", ns(k))
	}
	for _, k := range zsetKeys {
		rd("zrange", ns(k), "0", "-1", "withscores")
		rd("zcard", ns(k))
	}
	for _, k := range hllKeys {
		rd("pfcount", ns(k))
	}
	// table key counters
	st := s.store()
	for _, tb := range []string{"t", "u"} {
		n, err := st.GetTableKeyCount([]byte(tb))
		sb.WriteString(fmt.Sprintf("count(%s)=%d,%v;", tb, n, err))
	}
	return sb.String()
}

func dirHash(dir string) string {
	var sb strings.Builder
	var names []string
	filepath.Walk(dir, func(p string, info os.FileInfo, err error) error {
		if err == nil && !info.IsDir() {
			names = append(names, p)
		}
		return nil
	})
	sort.Strings(names)
	for _, n := range names {
		b, err := ioutil.ReadFile(n)
		if err != nil {
			continue
		}
		// the engine's own LOG files are not part of the checkpoint's data
		// nor is the empty LOCK file an engine leaves behind when the checkpoint
		// is opened read-only for validation
		if bn := filepath.Base(n); strings.HasPrefix(bn, "LOG") || bn == "LOCK" {
			continue
		}
		sum := sha256.Sum256(b)
		sb.WriteString(fmt.Sprintf("%s:%d:%x ", strings.TrimPrefix(n, dir), len(b), sum[:4]))
	}
	return sb.String()
}

func (s *sim) ckDir(k *ckpt) string {
	return filepath.Join(s.store().GetBackupDir(), rockredis.GetCheckpointDir(k.term, k.index))
}

func (s *sim) bubble() {
	c, t, g := s.c, s.t, s.cfg
	cl := nodeh.New(c, nodeh.Options{Machines: 1, Partitions: 1, Replicas: 1, Engine: g.engine,
		SnapCount: 100000, SnapCatchup: 100, KeepBackup: g.keepBackup})
	s.cl = cl
	s.parkCh = make(chan struct{})
	defer cl.Close()
	defer func() { rockredis.VerifPointHook = nil; close(s.parkCh) }()
	rockredis.VerifPointHook = func(name string, dataDir string) {
		if cl.Stopping || !strings.HasPrefix(dataDir, cl.M[0].Dir) {
			return
		}
		if s.stallCh != nil && name == s.stallAt && !s.stalled {
			// a slow backup goroutine (held up by the checkpoint directory lock,
			// by removing an old directory, by the scheduler)
			s.stalled = true
			<-s.stallCh
			return
		}
		if g.killPoint != "" && name == g.killPoint && s.inOp && !s.tripped && !s.done {
			s.hits++
			if s.hits == g.killHit {
				s.tripped = true
				<-s.parkCh
			}
		}
	}
	cl.PumpFair(80, func() bool { return cl.Leader(0) >= 0 })
	if cl.Leader(0) < 0 {
		c.Violate("C14", "no-initial-leader", "", "no leader")
		return
	}
	if g.engine != "mem" && t.Choose(4) == 0 {
		s.sameNameTemplate()
		if s.tripped && !s.done {
			s.afterKill()
		}
	}
	for op := 0; op < g.ops && len(c.Viol) == 0; op++ {
		switch t.Weighted([]int{60, 10, 8, 4, 4, 14}) {
		case 0:
			s.write()
		case 1:
			s.backup()
		case 2:
			s.restore(false)
		case 3:
			s.restore(true)
		case 4:
			d := time.Duration(1+t.Choose(5)) * time.Second
			cl.Sleep(d)
			c.Log("sleep", "%v", d)
		case 5:
			s.store().CompactAllRange()
			synctest.Wait()
			c.Log("compact", "")
		}
		if s.tripped && !s.done {
			s.afterKill()
		}
		s.checkCheckpoints()
	}
	c.Events = int64(g.ops)
	c.SimMs = int64(time.Since(time.Date(2000, 1, 1, 0, 0, 0, 0, time.UTC)) / time.Millisecond)
}

// sameNameTemplate steers toward the hard-link/keep-identical-sst hazard of
// restoreFromPath: two histories that start from the same checkpoint and do
// the same number of equally sized writes and one compaction each produce
// sst files with the SAME NAME and SIZE but different content; restoring the
// other history's checkpoint must not keep the local file.
func (s *sim) sameNameTemplate() {
	t := s.t
	n := 2 + t.Choose(6)
	sets := func() {
		for i := 0; i < n && len(s.c.Viol) == 0 && !s.tripped; i++ {
			r, ok := s.do("set", ns(kvKeys[i%len(kvKeys)]), s.val())
			s.index++
			if !ok || nodeh.IsErr(r) {
				s.c.Violate("C14", "write-failed", "", "template write failed: %s", nodeh.Fmt(r))
			}
		}
	}
	compact := func() {
		if !s.tripped {
			s.store().CompactAllRange()
			synctest.Wait()
		}
	}
	sets()
	compact()
	s.backup() // A
	if len(s.live()) == 0 || s.tripped {
		return
	}
	a := s.live()[len(s.live())-1]
	// both histories start with a restore of A (the reopen consumes file
	// numbers), so that their new files get the same numbers
	s.restoreOf(a, false)
	if s.tripped {
		return
	}
	sets()
	compact()
	s.backup() // B
	if len(s.live()) < 2 || s.tripped {
		return
	}
	b := s.live()[len(s.live())-1]
	s.restoreOf(a, false)
	if s.tripped {
		return
	}
	sets() // same count and sizes as on the way to B, different values
	compact()
	s.c.Probe("same_name_template")
	s.restoreOf(b, t.Bool(300))
}

func (s *sim) write() {
	t := s.t
	var args []interface{}
	switch t.Choose(14) {
	case 0:
		args = []interface{}{"set", ns(kvKeys[t.Choose(len(kvKeys))]), s.val()}
	case 1:
		args = []interface{}{"incr", ns(cntKeys[0])}
	case 2:
		args = []interface{}{"del", ns(kvKeys[t.Choose(len(kvKeys))])}
	case 3:
		args = []interface{}{"rpush", ns(listKeys[0]), s.val()}
	case 4:
		args = []interface{}{"lpop", ns(listKeys[0])}
	case 5:
		args = []interface{}{"hset", ns(hashKeys[t.Choose(len(hashKeys))]), "f" + fmt.Sprint(t.Choose(3)), s.val()}
	case 6:
		args = []interface{}{"hdel", ns(hashKeys[t.Choose(len(hashKeys))]), "f" + fmt.Sprint(t.Choose(3))}
	case 7:
		args = []interface{}{"sadd", ns(setKeys[0]), "m" + fmt.Sprint(t.Choose(4))}
	case 8:
		args = []interface{}{"srem", ns(setKeys[0]), "m" + fmt.Sprint(t.Choose(4))}
	case 9:
		args = []interface{}{"zadd", ns(zsetKeys[0]), fmt.Sprint(t.Choose(5)), "m" + fmt.Sprint(t.Choose(4))}
	case 10:
		args = []interface{}{"zrem", ns(zsetKeys[0]), "m" + fmt.Sprint(t.Choose(4))}
	case 11:
		args = []interface{}{"setex", ns(ttlKeys[t.Choose(len(ttlKeys))]), fmt.Sprint(30 + t.Choose(500)), s.val()}
	case 12:
		args = []interface{}{"pfadd", ns(hllKeys[0]), s.val()}
	case 13:
		args = []interface{}{"hclear", ns(hashKeys[t.Choose(len(hashKeys))])}
	}
	r, ok := s.do(args...)
	s.index++
	s.c.Log("write", "%v -> %s", args, nodeh.Fmt(r))
	if !ok || nodeh.IsErr(r) {
		s.c.Violate("C14", "write-failed", "", "write %v failed: %s", args, nodeh.Fmt(r))
	}
}

func (s *sim) backup() {
	c := s.c
	st := s.store()
	s.index++
	k := &ckpt{term: 9, index: s.index}
	// the raft snapshot that references a checkpoint is recorded first
	if s.t.Bool(700) {
		s.latestSnap = k.index
		st.SetLatestSnapIndex(s.latestSnap)
	}
	s.inOp = true
	// sometimes the backup goroutine is slow at one of its steps: the apply
	// loop goes on as soon as WaitReady lets it
	s.stalled, s.stallAt = false, ""
	if s.cfg.killPoint == "" {
		switch s.t.Choose(6) {
		case 0:
			s.stallAt = "backup.beforeCheckpoint"
		case 1:
			s.stallAt = "backup.beforeSave"
		}
		if s.stallAt != "" {
			s.stallCh = make(chan struct{})
		}
	}
	bi := st.Backup(k.term, k.index)
	if bi == nil {
		s.inOp = false
		s.stallCh = nil
		c.Log("backup", "%d busy", k.index)
		return
	}
	// production: WaitReady (checkpoint started) in the apply loop, GetResult asynchronously
	done := make(chan struct{})
	ready := make(chan struct{})
	var err error
	go func() { bi.WaitReady(); close(ready); _, err = bi.GetResult(); close(done) }()
	synctest.Wait()
	dumpAtReady := ""
	if s.stallCh != nil {
		if s.stalled {
			c.Fault("backup_goroutine_stalled")
			select {
			case <-ready:
				// the apply loop was released while the backup goroutine is still
				// held: it applies the next entries now. The checkpoint still has
				// to be the state as of index i.
				c.Probe("applied_more_while_backup_goroutine_stalled")
				dumpAtReady = s.dump()
				for n := 1 + s.t.Choose(3); n > 0; n-- {
					s.write()
				}
			default:
			}
		}
		close(s.stallCh)
		s.stallCh = nil
		synctest.Wait()
	}
	// let the purge that follows the save finish
	s.cl.Sleep(10 * time.Millisecond)
	s.inOp = false
	select {
	case <-done:
	default:
		if s.tripped {
			return // killed inside the backup
		}
		c.Violate("C14", "backup-hangs", "", "backup %d did not finish", k.index)
		return
	}
	if err != nil {
		c.Violate("C14", "backup-failed", "", "backup %d: %v", k.index, err)
		return
	}
	// the state "as of index i": Backup flushes pending in-memory caches (HLL)
	// into the store before the checkpoint, nothing is written between the
	// backup and this read
	k.dump = s.dump()
	if dumpAtReady != "" {
		k.dump = dumpAtReady
	}
	k.hash = dirHash(s.ckDir(k))
	s.cks = append(s.cks, k)
	s.nbackup++
	c.Log("backup", "%d latestSnap=%d", k.index, s.latestSnap) // (the number of files depends on the timing of the real RocksDB background threads: not part of the trace)
}

func (s *sim) live() []*ckpt {
	var out []*ckpt
	for _, k := range s.cks {
		if !k.gone {
			out = append(out, k)
		}
	}
	return out
}

func (s *sim) restore(remote bool) {
	lv := s.live()
	if len(lv) == 0 {
		return
	}
	s.restoreOf(lv[s.t.Choose(len(lv))], remote)
}

func (s *sim) restoreOf(k *ckpt, remote bool) {
	c := s.c
	if k.gone || (s.tripped && !s.done) || len(c.Viol) > 0 {
		return
	}
	if _, e := os.Stat(s.ckDir(k)); e != nil {
		return
	}
	st := s.store()
	var err error
	s.inOp = true
	if remote {
		// the catch-up path: the checkpoint directory was fetched into the
		// remote backup directory (as another node's copy) and is restored from there
		rdir := st.GetBackupDirForRemote()
		os.MkdirAll(rdir, 0755)
		dst := filepath.Join(rdir, rockredis.GetCheckpointDir(k.term, k.index))
		os.RemoveAll(dst)
		if out, e := exec.Command("cp", "-r", s.ckDir(k), dst).CombinedOutput(); e != nil {
			panic(fmt.Sprintf("cp: %v %s", e, out))
		}
		c.Probe("restore_via_remote_dir")
	}
	// the restore runs on its own goroutine (production: the apply loop) so
	// that a kill can land inside it
	done := make(chan struct{})
	go func() {
		if remote {
			err = st.RestoreFromRemoteBackup(k.term, k.index)
		} else {
			err = st.Restore(k.term, k.index)
		}
		close(done)
	}()
	synctest.Wait()
	s.inOp = false
	select {
	case <-done:
	default:
		if s.tripped {
			return
		}
		c.Violate("C14", "restore-hangs", "", "restore of checkpoint %d did not finish", k.index)
		return
	}
	if err != nil {
		c.Violate("C14", "restore-failed", "", "restore of checkpoint %d (remote=%v): %v", k.index, remote, err)
		return
	}
	s.nrestore++
	got := s.dump()
	c.Log("restore", "%d remote=%v", k.index, remote)
	if got != k.dump {
		c.Violate("C14", "restore-mismatch", "", "restore of checkpoint %d (remote=%v, engine %q) differs from the state at backup time:\n got %s\nwant %s", k.index, remote, s.cfg.engine, got, k.dump)
		return
	}
	if h := dirHash(s.ckDir(k)); h != k.hash {
		c.Violate("C14", "checkpoint-damaged", "", "restoring checkpoint %d changed its directory content (hash %s -> %s)", k.index, k.hash, h)
	}
}

// checkCheckpoints: content never changes, and one disappears only if a newer
// restorable one exists and it is not referenced by the latest snapshot.
func (s *sim) checkCheckpoints() {
	c := s.c
	if s.tripped && !s.done {
		return
	}
	st := s.store()
	for _, k := range s.cks {
		if k.gone {
			continue
		}
		if _, err := os.Stat(s.ckDir(k)); err != nil {
			k.gone = true
			c.Probe("checkpoint_purged")
			newer := false
			for _, o := range s.cks {
				if o != k && !o.gone && o.index > k.index {
					if ok, _ := st.IsLocalBackupOK(o.term, o.index); ok {
						newer = true
					}
				}
			}
			if !newer {
				c.Violate("C14", "purged-without-newer", "", "checkpoint %d was discarded but no newer restorable checkpoint exists", k.index)
			}
			if s.latestSnap != 0 && k.index >= s.latestSnap {
				c.Violate("C14", "purged-referenced", "", "checkpoint %d was discarded although the latest snapshot index is %d", k.index, s.latestSnap)
			}
			continue
		}
		if h := dirHash(s.ckDir(k)); h != k.hash {
			c.Violate("C14", "checkpoint-damaged", "", "content of checkpoint %d changed after it completed (hash %s -> %s)", k.index, k.hash, h)
		}
	}
}

// afterKill: the process died with a goroutine parked inside a backup or a
// restore; the node must come back from its own raft state.
func (s *sim) afterKill() {
	c, cl := s.c, s.cl
	s.done = true
	c.Fault("kill_at_point")
	c.Log("kill-at-point", "%s hit %d", s.cfg.killPoint, s.cfg.killHit)
	cl.Kill(cl.M[0])
	if err := cl.Restart(cl.M[0]); err != nil {
		c.Violate("C14", "restart-failed", "", "node does not come back after a kill at %s: %v", s.cfg.killPoint, err)
		return
	}
	cl.PumpFair(200, func() bool { return cl.Leader(0) >= 0 })
	if cl.Leader(0) < 0 {
		c.Violate("C14", "restart-failed", "", "node does not lead again after a kill at %s", s.cfg.killPoint)
		return
	}
	// every checkpoint that was complete before the kill is still intact
	for _, k := range s.cks {
		if k.gone {
			continue
		}
		if _, err := os.Stat(s.ckDir(k)); err != nil {
			k.gone = true
			continue
		}
		if h := dirHash(s.ckDir(k)); h != k.hash {
			c.Violate("C14", "checkpoint-damaged", "", "content of checkpoint %d changed across a kill at %s", k.index, s.cfg.killPoint)
		}
	}
	s.latestSnap = 0
}
