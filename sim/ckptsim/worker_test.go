package ckptsim

import (
	"testing"

	"verif/sim/core"
)

func TestWorker(t *testing.T) { core.Worker(t, Engine) }
