package kvsim

import (
	"fmt"
	"os"
	"strconv"
	"strings"
	"testing"
	"testing/synctest"
	"time"

	"verif/sim/core"
	"verif/sim/model"
	"verif/sim/nodeh"
)

// TestScript is a triage aid: KVSIM_SCRIPT=file runs the commands of the file
// (one per line; words are bare or Go-quoted; !restart !kill !compact
// !sleep <dur> !batch <n> are environment events) on a fresh node and prints
// implementation reply vs model reply.
func TestScript(t *testing.T) {
	path := os.Getenv("KVSIM_SCRIPT")
	if path == "" {
		t.Skip("no script")
	}
	b, err := os.ReadFile(path)
	if err != nil {
		t.Fatal(err)
	}
	eng := os.Getenv("KVSIM_ENGINE")
	if eng == "" {
		eng = "mem"
	}
	c := core.NewRunCtx(t, "", "quick", core.ReplayTape(nil))
	s := &sim{c: c, t: c.Tape, cache: map[string]string{}, taint: map[string]string{}}
	s.cfg = cfg{mode: "cmd", engine: eng, parts: 1, snapCount: 5, keepBackup: 1}
	synctest.Test(t, func(t *testing.T) {
		cl := nodeh.New(c, nodeh.Options{Machines: 1, Partitions: 1, Replicas: 1, Engine: eng, SnapCount: 5, SnapCatchup: 3, KeepBackup: 1})
		s.cl = cl
		defer cl.Close()
		cl.PumpFair(100, s.leaders)
		s.mdl = model.New()
		lines := strings.Split(string(b), "\n")
		for li := 0; li < len(lines); li++ {
			args := splitWords(lines[li])
			if len(args) == 0 {
				continue
			}
			switch args[0] {
			case "!restart":
				cl.StopGraceful(s.m())
				fmt.Fprintln(core.Stdout, "!restart", cl.Restart(s.m()))
				cl.PumpFair(100, s.leaders)
				continue
			case "!kill":
				cl.Kill(s.m())
				fmt.Fprintln(core.Stdout, "!kill", cl.Restart(s.m()))
				cl.PumpFair(100, s.leaders)
				continue
			case "!compact":
				s.store(0).CompactAllRange()
				synctest.Wait()
				fmt.Fprintln(core.Stdout, "!compact")
				continue
			case "!sleep":
				d, _ := time.ParseDuration(args[1])
				cl.Sleep(d)
				continue
			case "!batch":
				n, _ := strconv.Atoi(args[1])
				release, _ := cl.Arm("raft.ready.begin", 0, 0)
				var calls []*nodeh.Call
				var cmds [][]string
				for k := 0; k < n && li+1 < len(lines); k++ {
					li++
					a := splitWords(lines[li])
					cmds = append(cmds, a)
					calls = append(calls, cl.Invoke(s.m(), toCmd(a)))
				}
				release()
				cl.Sleep(20 * time.Millisecond)
				cl.PumpFair(3, nil)
				for k, a := range cmds {
					fmt.Fprintf(core.Stdout, "  (batch) %s -> %s\n", q(a), nodeh.Fmt(s.replyOf(calls[k])))
				}
				continue
			}
			r := s.do(args)
			want := s.mdl.Apply(args)
			flag := ""
			if !model.Equal(r, want) {
				flag = "   <<<<<< DIFFERS"
			}
			fmt.Fprintf(core.Stdout, "%s -> %s | model %s%s\n", q(args), nodeh.Fmt(r), model.Canon(want), flag)
		}
	})
}

func splitWords(l string) []string {
	l = strings.TrimSpace(l)
	if l == "" || strings.HasPrefix(l, "#") {
		return nil
	}
	var out []string
	for len(l) > 0 {
		l = strings.TrimLeft(l, " \t")
		if l == "" {
			break
		}
		if l[0] == '"' {
			// find the closing quote
			end := 1
			for end < len(l) && (l[end] != '"' || l[end-1] == '\\') {
				end++
			}
			w, err := strconv.Unquote(l[:end+1])
			if err != nil {
				w = l[1:end]
			}
			out = append(out, w)
			l = l[end+1:]
			continue
		}
		i := strings.IndexAny(l, " \t")
		if i < 0 {
			i = len(l)
		}
		out = append(out, l[:i])
		l = l[i:]
	}
	return out
}
