// Package kvsim drives one real single-replica data node (every partition of
// namespace "default" on one machine: raft loop, WAL, snapshots, apply loop,
// state machine, rockredis store, and the server package's redis command path)
// with tape-generated command sequences and environment events, and decides
//
//	C08  replies and data equal the reference model (conformance)
//	C09  counting commands agree with enumerating commands (no model)
//	C12  operations never touch another (type, table, key); codec sub-part
//	C13  cursor scans return every element exactly once, in order
package kvsim

import (
	"fmt"
	"os"
	"sort"
	"strconv"
	"strings"
	"testing"
	"testing/synctest"
	"time"
	"unicode/utf8"

	"github.com/absolute8511/redcon"
	"github.com/youzan/ZanRedisDB/node"
	"github.com/youzan/ZanRedisDB/raft"
	"github.com/youzan/ZanRedisDB/rockredis"

	"verif/sim/core"
	"verif/sim/model"
	"verif/sim/nodeh"
)

var Engine = core.Engine{Name: "kvsim", Run: Run}

type cfg struct {
	mode       string // cmd | scan
	engine     string
	parts      int
	snapCount  int
	keepBackup int
	steps      int
	adv        bool // adversarial name pools (C12)
	// per-step weights
	wCmd, wBatch, wStop, wKill, wSleep, wCompact, wTick, wTableDel int
}

type tuple struct{ typ, key string } // key is table:key

func (x tuple) id() string { return x.typ + "|" + x.key }

type sim struct {
	c   *core.RunCtx
	t   *core.Tape
	cfg cfg
	cl  *nodeh.Cluster
	g   *gen
	mdl *model.Store

	on08, on09, on12, on13 bool

	tuples   []tuple
	cache    map[string]string // C12: last observed content per tuple
	pre      preState
	unjudged bool              // the batch being processed cannot be judged against the model
	panics   int               // recovered handler panics of a recorded shape
	poison   bool              // a command that fails at apply time is in the raft log
	envKey   string            // known-finding key for kv/hash content lost or resurrected by the current restart
	cur      map[string]string // known-finding key of the command shapes just executed, per addressed tuple
	fresh    map[string]bool   // tainted by the command(s) being judged right now
	taint    map[string]string // tuples damaged by a recorded deviation (no further judgement)

	ncmd, ncompared, nbatch, nbatched, nenv int
	restores                                int
	applyHits                               int
	sample                                  []string
	scanSample                              []string
	pages, scans                            int
}

func pick(t *core.Tape, vals ...int) int { return vals[t.Choose(len(vals))] }

func (s *sim) prop(def string) string {
	if s.c.Prop != "" {
		return s.c.Prop
	}
	return def
}

func drawCfg(c *core.RunCtx) cfg {
	t := c.Tape
	var g cfg
	g.mode = "cmd"
	switch c.Prop {
	case "C13":
		g.mode = "scan"
	case "":
		if t.Choose(3) == 2 {
			g.mode = "scan"
		}
	}
	g.engine = []string{"mem", "pebble"}[pick(t, 0, 0, 1)]
	g.snapCount = pick(t, 10, 5, 20, 40)
	g.keepBackup = pick(t, 1, 0, 2)
	g.parts = 1
	g.steps = pick(t, 120, 60, 200)
	if c.Tier == "thorough" {
		g.steps = pick(t, 200, 120, 400)
	}
	if g.mode == "scan" {
		g.parts = pick(t, 2, 3, 4, 1)
	}
	g.adv = c.Prop == "C12" || (c.Prop == "" && t.Choose(3) == 1)
	g.wCmd = 800
	g.wBatch = pick(t, 60, 30, 120)
	g.wStop = pick(t, 8, 0, 20)
	g.wKill = pick(t, 8, 0, 20)
	g.wSleep = pick(t, 10, 0, 20)
	g.wCompact = pick(t, 10, 0, 20)
	g.wTick = 10
	if g.adv {
		g.wTableDel = pick(t, 10, 5, 20)
	}
	return g
}

func Run(c *core.RunCtx) {
	s := &sim{c: c, t: c.Tape, cache: map[string]string{}, taint: map[string]string{}}
	s.on08 = c.Prop == "" || c.Prop == "C08"
	s.on09 = c.Prop == "" || c.Prop == "C09"
	s.on12 = c.Prop == "" || c.Prop == "C12"
	s.on13 = c.Prop == "" || c.Prop == "C13"
	s.cfg = drawCfg(c)
	raft.VerifSeedGlobalRand(int64(c.Tape.U32()))
	c.Log("cfg", "%+v", s.cfg)
	func() {
		defer func() {
			if e := recover(); e != nil {
				msg := fmt.Sprint(e)
				if strings.Contains(msg, "deadlock: main bubble goroutine has exited") {
					c.Count("infra.bubble_leftover_goroutines", 1)
					return
				}
				panic(e)
			}
		}()
		synctest.Test(c.T, func(t *testing.T) { s.bubble() })
	}()
	if s.on12 && s.cfg.mode == "cmd" && s.cfg.adv {
		s.codecCheck()
	}
	// unknown violations first: the worker reports the first one of the property
	sort.SliceStable(c.Viol, func(i, j int) bool { return c.Viol[i].Key == "" && c.Viol[j].Key != "" })
	c.Events = int64(s.ncmd + s.nenv + s.pages)
	c.Count("commands", int64(s.ncmd))
	c.Count("commands_compared", int64(s.ncompared))
	c.Count("env_events", int64(s.nenv))
	c.Count("batches", int64(s.nbatch))
	c.Count("scan_chains", int64(s.scans))
	c.Count("scan_pages", int64(s.pages))
	if s.cfg.mode == "cmd" {
		c.NonTrivial = s.ncmd >= 30 && s.nenv >= 1 && s.nbatched >= 1
		c.Sample = map[string]interface{}{"config": fmt.Sprintf("%+v", s.cfg), "pools": fmt.Sprintf("%q", s.g.p), "commands": s.ncmd, "env_events": s.nenv,
			"multi_command_apply_batches": s.nbatched, "head": s.sample}
	} else {
		c.NonTrivial = s.scans >= 3 && s.pages >= 6 && c.Stats["probe.scan_multi_page"] >= 1
		c.Sample = map[string]interface{}{"config": fmt.Sprintf("%+v", s.cfg), "scan_chains": s.scans, "pages": s.pages, "head": s.scanSample}
	}
}

func (s *sim) m() *nodeh.Machine { return s.cl.M[0] }

func (s *sim) leaders() bool {
	for p := 0; p < s.cfg.parts; p++ {
		if s.cl.Leader(p) < 0 {
			return false
		}
	}
	return true
}

func (s *sim) bubble() {
	c, g := s.c, s.cfg
	cl := nodeh.New(c, nodeh.Options{Machines: 1, Partitions: g.parts, Replicas: 1, Engine: g.engine,
		SnapCount: g.snapCount, SnapCatchup: 3, KeepBackup: g.keepBackup})
	s.cl = cl
	defer cl.Close()
	rockredis.VerifPointHook = func(name string, dir string) {
		if name == "restore.beforeReopen" {
			s.restores++
		}
	}
	defer func() { rockredis.VerifPointHook = nil }()
	cl.OnPoint = func(name string, gid, rid uint64) {
		if name == "apply.beforeApplyAll" {
			s.applyHits++
		}
	}
	cl.PumpFair(100, s.leaders)
	if !s.leaders() {
		c.Violate(s.prop("C08"), "no-initial-leader", "", "no leader after 100 fair rounds on a fresh single-replica node")
		return
	}
	if g.mode == "scan" {
		s.scanScenario()
	} else {
		s.cmdScenario()
	}
	c.SimMs = int64(time.Since(time.Date(2000, 1, 1, 0, 0, 0, 0, time.UTC)) / time.Millisecond)
}

// fatal reports whether an unknown violation was recorded (the run stops;
// recorded known deviations do not stop it).
func (s *sim) fatal() bool {
	for _, v := range s.c.Viol {
		if v.Key == "" {
			return true
		}
	}
	return false
}

// ---- talking to the node ----------------------------------------------------

// toCmd turns model args (name, table:key, ...) into a client command on the
// simulated namespace.
func toCmd(args []string) redcon.Command {
	xs := [][]byte{[]byte(args[0])}
	multi := model.MultiKey(args[0])
	for i, a := range args[1:] {
		if i == 0 || multi {
			xs = append(xs, []byte(nodeh.NS+":"+a))
		} else {
			xs = append(xs, []byte(a))
		}
	}
	return nodeh.BuildCommand(xs)
}

// raw runs one client command synchronously on the simulator goroutine
// through the server's command path. Only for commands that never wait for
// raft (reads, scans).
func (s *sim) raw(cmd redcon.Command) (r interface{}) {
	conn := &nodeh.CapConn{}
	s.m().Srv.VerifServeRedis(conn, cmd)
	r, ok := conn.Result()
	if !ok {
		if conn.Closed {
			return nodeh.RErr("CONNECTION-CLOSED (the server recovered a panic of the command handler)")
		}
		return nodeh.RErr("NO-REPLY")
	}
	return r
}

func (s *sim) rd(args ...string) interface{} { return s.raw(toCmd(args)) }

func closedConn(r interface{}) bool {
	e, ok := r.(nodeh.RErr)
	return ok && (strings.HasPrefix(string(e), "CONNECTION-CLOSED") || string(e) == "NO-REPLY")
}

// do runs one command to completion through the full client path.
func (s *sim) do(args []string) interface{} {
	if isRead(args[0]) {
		return s.rd(args...)
	}
	call := s.cl.Invoke(s.m(), toCmd(args))
	for r := 0; r < 50 && !call.Done(); r++ {
		s.cl.PumpFair(1, nil)
	}
	// simulated time flows with work (request ids embed the millisecond)
	s.cl.Sleep(2 * time.Millisecond)
	return s.replyOf(call)
}

func (s *sim) replyOf(call *nodeh.Call) interface{} {
	r, ok := call.Reply()
	if !ok {
		if call.Conn.Closed {
			return nodeh.RErr("CONNECTION-CLOSED (the server recovered a panic of the command handler)")
		}
		return nodeh.RErr("NO-REPLY")
	}
	return r
}

func (s *sim) store(p int) *node.KVStore {
	return node.VerifKVStore(s.m().Parts[p].Node.VerifStateMachine())
}

// ---- the command scenario (C08, C09, C12) ---------------------------------------

func touched(args []string) []tuple {
	typ := model.TypeOf(args[0])
	if typ == "" || len(args) < 2 {
		return nil
	}
	if model.MultiKey(args[0]) {
		var out []tuple
		seen := map[string]bool{}
		for _, k := range args[1:] {
			if !seen[k] {
				seen[k] = true
				out = append(out, tuple{typ, k})
			}
		}
		return out
	}
	return []tuple{{typ, args[1]}}
}

func (s *sim) cmdScenario() {
	c, t, g := s.c, s.t, s.cfg
	p := smallPools()
	if g.adv {
		p = advPools(t)
	}
	s.g = &gen{t: t, p: p, plain: g.adv}
	s.mdl = model.New()
	for _, typ := range types {
		for _, tb := range p.tables {
			for _, k := range p.keys {
				if k == "" && typ != "kv" {
					// collections refuse an empty key name ("invalid key size"); strings accept it
					continue
				}
				s.tuples = append(s.tuples, tuple{typ, tb + ":" + k})
			}
		}
	}
	c.Log("pools", "%q", p)
	if s.on12 {
		for _, x := range s.tuples {
			s.cache[x.id()] = s.observe(x)
		}
	}
	w := []int{g.wCmd, g.wBatch, g.wStop, g.wKill, g.wSleep, g.wCompact, g.wTick, g.wTableDel}
	for step := 0; step < g.steps && !s.fatal(); step++ {
		switch t.Weighted(w) {
		case 0:
			s.one(s.g.cmd())
		case 1:
			s.batch()
		case 2:
			s.restart(false)
		case 3:
			s.restart(true)
		case 4:
			d := time.Duration(1+t.Choose(60)) * time.Second
			c.Log("sleep", "%v", d)
			s.cl.Sleep(d)
			s.cl.PumpFair(2, nil)
			s.nenv++
			s.fullCheck("clock advance")
		case 5:
			c.Log("compact", "")
			for p := 0; p < g.parts; p++ {
				s.store(p).CompactAllRange()
			}
			synctest.Wait()
			c.Fault("compact")
			s.nenv++
			s.fullCheck("manual compaction")
		case 6:
			s.cl.PumpFair(1+t.Choose(5), nil)
		case 7:
			s.tableDelete()
		}
	}
	if !s.fatal() {
		s.fullCheck("end of run")
	}
}

func (s *sim) note(args []string, r interface{}) {
	if len(s.sample) < 15 {
		s.sample = append(s.sample, q(args)+" -> "+nodeh.Fmt(r))
	}
}

// one runs a single command and all oracles on it.
func (s *sim) one(args []string) {
	// ground truth for the shapes of recorded deviations only
	s.pre = preState{known: true, listLen: -1}
	if args[0] == "ltrim" && len(args) > 1 {
		if n, ok := num(s.rd("llen", args[1])); ok {
			s.pre.listLen = int(n)
		}
	}
	if args[0] == "zincrby" && len(args) == 4 {
		if b, ok := s.rd("zscore", args[1], args[3]).([]byte); ok {
			if f, err := strconv.ParseFloat(string(b), 64); err == nil {
				s.pre.zhad, s.pre.zscore = true, f
			}
		}
	}
	r := s.do(args)
	s.ncmd++
	s.c.Log("cmd", "%s -> %s", q(args), nodeh.Fmt(r))
	s.note(args, r)
	s.after([][]string{args}, []interface{}{r}, "")
	pm := 80
	if laterFailingSetex([][]string{args}) {
		pm = 300
	}
	if !isRead(args[0]) && nodeh.IsErr(r) && !s.fatal() && s.t.Bool(pm) {
		// an erroring write may sit in the raft log: replaying it must not
		// disturb its neighbours
		s.c.Probe("restart_after_erroring_write")
		s.restart(s.t.Bool(500))
	}
}

// after: oracles after one command or after one batch (commands in their
// linearization order with their replies).
func (s *sim) after(cmds [][]string, replies []interface{}, ctx string) {
	c := s.c
	tset := map[string]tuple{}
	s.cur = map[string]string{}
	s.fresh = map[string]bool{}
	useModel := s.on08 || s.on12
	broken := false
	for i, args := range cmds {
		if closedConn(replies[i]) {
			if k := panicShape(args); k != "" {
				s.panics++
				// recorded deviation; the command was not executed
				c.Violate(s.prop("C08"), "handler-panic-or-no-reply", k, "%s%s: %s", ctx, q(args), nodeh.Fmt(replies[i]))
				for _, x := range touched(args) {
					tset[x.id()] = x
				}
				continue
			}
			c.Violate(s.prop("C08"), "handler-panic-or-no-reply", "", "%s%s: %s", ctx, q(args), nodeh.Fmt(replies[i]))
			return
		}
		var want interface{}
		var zms []string
		if useModel {
			switch args[0] {
			case "zrangebylex", "zlexcount", "zremrangebylex":
				for m := range s.mdl.ZSet[args[1]] {
					zms = append(zms, m)
				}
				sort.Strings(zms)
			}
			var had []bool
			for _, x := range touched(args) {
				had = append(had, s.holds(x))
			}
			want = s.mdl.Apply(args)
			for j, x := range touched(args) {
				if had[j] && !s.holds(x) && x.typ != "kv" {
					c.Probe("collection_emptied")
				}
				if !had[j] && s.holds(x) {
					n := 0
					for _, typ := range types {
						if s.holds(tuple{typ, x.key}) {
							n++
						}
					}
					if n >= 2 {
						// the same key name now holds data in several types
						c.Probe("name_reused_across_types")
					}
				}
			}
		}
		pre := preState{listLen: -1}
		if len(cmds) == 1 {
			pre = s.pre
		}
		pre.zmembers = zms
		key := knownShape(args, want, s.mdl, pre, s.cfg.engine)
		if key == "" && s.panics > 0 && slowCmd(args[0]) {
			if e, ok := replies[i].(nodeh.RErr); ok && strings.Contains(string(e), "context deadline exceeded") {
				// every recovered panic above leaked one slot of the slow-write wait queue
				key = "non-utf8-table-name-panics-in-slow-write-metrics"
			}
		}
		if laterFailingSetex([][]string{args}) {
			// this entry is in the raft log now and fails whenever it is applied
			s.poison = true
		}
		if key == "" && len(cmds) > 1 && batchable(args) && laterFailingSetex(cmds[i+1:]) {
			key = "batched-write-fails-with-neighbours-error"
		}
		tainted := false
		for _, x := range touched(args) {
			tset[x.id()] = x
			if key != "" && (s.cur[x.id()] == "" || (damaging(key) && !damaging(s.cur[x.id()]))) {
				s.cur[x.id()] = key
			}
			if s.taint[x.id()] != "" {
				tainted = true
			}
		}
		if s.unjudged {
			broken = true
		}
		if useModel && !broken {
			if tainted {
				// the key was damaged by a recorded deviation: adopt whatever it holds now
				broken = true
			} else if !s.compare(args, replies[i], want, key, ctx) {
				// within a batch nothing after the first mismatch can be judged
				broken = true
			}
		}
		if key != "" && len(cmds) > 1 {
			// a recorded deviation inside a batch: what follows it in the same
			// batch cannot be judged (the data is judged at the end)
			broken = true
		}
		if damaging(key) {
			// executing this shape may leave latent damage: the key is judged
			// one last time right now and never again in this run
			for _, x := range touched(args) {
				if s.taint[x.id()] == "" {
					s.taint[x.id()] = key
					s.fresh[x.id()] = true
					s.c.Count("tainted_keys", 1)
				}
			}
		}
	}
	var ts []tuple
	for _, id := range core.SortedKeys(tset) {
		ts = append(ts, tset[id])
	}
	if broken {
		s.resync(ts)
	}
	where := ctx + "after " + q(cmds[len(cmds)-1])
	for _, x := range ts {
		if useModel && !s.unjudged {
			s.dataCheck(x, where)
		}
		if s.on09 {
			s.check09(x, where)
		}
	}
	if s.on12 {
		s.check12(tset, where)
	}
	s.cur = nil
	s.fresh = nil
}

// holds: the model has data under (type, key).
func (s *sim) holds(x tuple) bool {
	switch x.typ {
	case "kv":
		_, ok := s.mdl.KV[x.key]
		return ok
	case "list":
		return len(s.mdl.List[x.key]) > 0
	case "hash":
		return len(s.mdl.Hash[x.key]) > 0
	case "set":
		return len(s.mdl.Set[x.key]) > 0
	case "zset":
		return len(s.mdl.ZSet[x.key]) > 0
	}
	return false
}

// compare: reply of the implementation against the reference model. Returns
// false on a mismatch.
func (s *sim) compare(args []string, got, want interface{}, key string, ctx string) bool {
	s.ncompared++
	if e, ok := want.(model.Err); ok && strings.HasSuffix(string(e), "not modelled") {
		return true
	}
	if model.Equal(got, want) {
		return true
	}
	if survey(key, "reply %s => impl %s | model %s", q(args), nodeh.Fmt(got), model.Canon(want)) {
		return false
	}
	prop, rule := s.prop("C08"), "reply-differs-from-model"
	if s.c.Prop == "C12" {
		if key != "" {
			// a recorded C08 deviation is not an isolation failure
			return false
		}
		rule = "reply-differs-under-adversarial-names"
	}
	s.c.Violate(prop, rule, key, "%s%s answered %s, the reference model (Redis semantics + documented deviations) says %s", ctx, q(args), nodeh.Fmt(got), model.Canon(want))
	return false
}

// dataCheck: content, size and existence of one (type, key) against the model.
func (s *sim) dataCheck(x tuple, ctx string) {
	if s.taint[x.id()] != "" && !s.fresh[x.id()] {
		return
	}
	type probe struct {
		cmd  []string
		want interface{}
	}
	ps := []probe{{model.DumpCmd(x.typ, x.key), s.mdl.Dump(x.typ, x.key)}}
	if x.typ != "kv" {
		ps = append(ps, probe{[]string{sizeCmd[x.typ], x.key}, s.mdl.Apply([]string{sizeCmd[x.typ], x.key})})
	}
	ps = append(ps, probe{[]string{existCmd[x.typ], x.key}, s.mdl.Apply([]string{existCmd[x.typ], x.key})})
	for _, p := range ps {
		got := s.rd(p.cmd...)
		if model.Equal(got, p.want) {
			continue
		}
		key := s.cur[x.id()]
		if key == "" && s.envKey != "" && (x.typ == "kv" || x.typ == "hash") {
			key = s.envKey
		}
		if !survey(key, "data %s after %s => impl %s | model %s", q(p.cmd), ctx, nodeh.Fmt(got), model.Canon(p.want)) {
			prop, rule := s.prop("C08"), "data-differs-from-model"
			if s.c.Prop == "C12" {
				rule = "data-differs-under-adversarial-names"
			}
			if !(s.c.Prop == "C12" && key != "") {
				s.c.Violate(prop, rule, key, "%s: %s answers %s, the reference model says %s", ctx, q(p.cmd), nodeh.Fmt(got), model.Canon(p.want))
			}
		}
		s.resync([]tuple{x})
		return
	}
}

// resync adopts the implementation's content of the given keys in the model
// (only after a violation was recorded for them) so that checking continues.
func (s *sim) resync(ts []tuple) {
	for _, x := range ts {
		s.mdl.Load(x.typ, x.key, s.rd(model.DumpCmd(x.typ, x.key)...))
	}
}

// survey is a development aid (KVSIM_SURVEY=file): unknown deviations are
// appended to a file instead of ending the run, to list them all at once.
func survey(key string, format string, args ...interface{}) bool {
	p := os.Getenv("KVSIM_SURVEY")
	if p == "" || key != "" {
		return false
	}
	f, err := os.OpenFile(p, os.O_APPEND|os.O_CREATE|os.O_WRONLY, 0644)
	if err != nil {
		return false
	}
	fmt.Fprintf(f, format+"\n", args...)
	f.Close()
	return true
}

var sizeCmd = map[string]string{"kv": "exists", "list": "llen", "hash": "hlen", "set": "scard", "zset": "zcard"}
var existCmd = map[string]string{"kv": "exists", "list": "lkeyexist", "hash": "hkeyexist", "set": "skeyexist", "zset": "zkeyexist"}

// fullCheck: after an environment event every pool key is read back.
func (s *sim) fullCheck(what string) {
	if s.fatal() {
		return
	}
	c := s.c
	c.Log("readback", "%s", what)
	ctx := "after " + what
	for _, x := range s.tuples {
		if s.on08 || s.on12 {
			s.dataCheck(x, ctx)
		}
		if s.on09 {
			s.check09(x, ctx)
		}
		if s.fatal() {
			return
		}
	}
	if s.on12 {
		s.check12(map[string]tuple{}, ctx)
		s.scanIsolation(ctx)
	}
}

// ---- environment events -----------------------------------------------------------

// batch: several client calls are started while the raft loop is parked at
// the beginning of a Ready, so the later ones are proposed together, committed
// by one Ready and applied in one apply batch.
func (s *sim) batch() {
	c, t, cl := s.c, s.t, s.cl
	k := 3 + t.Choose(4)
	// focus: same table and key name, mostly the same type
	tb, kn := s.g.pick(s.g.p.tables), s.g.pick(s.g.p.keys)
	fg := &gen{t: t, p: s.g.p, plain: s.g.plain}
	fg.p.tables, fg.p.keys = []string{tb}, []string{kn}
	if t.Bool(300) {
		if k2 := s.g.pick(s.g.p.keys); k2 != "" {
			fg.p.keys = []string{kn, k2}
		}
	}
	ftyp := ""
	if t.Bool(700) {
		ftyp = types[t.Choose(len(types))]
	}
	if kn == "" {
		// only strings accept the empty key name
		ftyp = "kv"
		fg.p.keys = []string{kn}
	}
	var cmds [][]string
	for i := 0; i < k; i++ {
		a := fg.write()
		for try := 0; try < 40 && ftyp != "" && model.TypeOf(a[0]) != ftyp; try++ {
			a = fg.write()
		}
		cmds = append(cmds, a)
	}
	if !s.g.plain && (ftyp == "kv" || ftyp == "hash") && t.Bool(100) {
		// a command that passes validation and fails when it is applied, last in
		// the batch (its valid neighbours must not be affected)
		cmds = append(cmds, []string{"setex", tb + ":" + s.g.pick(s.g.p.keys), s.g.pick([]string{"0", "-1", "x"}), "v"})
		k++
	}
	release, _ := cl.Arm("raft.ready.begin", 0, 0)
	h0 := s.applyHits
	var calls []*nodeh.Call
	var immediate []bool
	for _, a := range cmds {
		call := cl.Invoke(s.m(), toCmd(a))
		calls = append(calls, call)
		immediate = append(immediate, call.Done())
	}
	release()
	cl.Sleep(time.Duration(2*k) * time.Millisecond)
	alldone := func() bool {
		for _, x := range calls {
			if !x.Done() {
				return false
			}
		}
		return true
	}
	for r := 0; r < 50 && !alldone(); r++ {
		cl.PumpFair(1, nil)
	}
	// linearization: a call that was answered while the raft loop was parked
	// took effect (or found nothing to do) on the state before the batch;
	// the others are applied in the order they were proposed
	var ocmds [][]string
	var oreps []interface{}
	queued := 0
	for pass := 0; pass < 2; pass++ {
		for i, a := range cmds {
			if immediate[i] == (pass == 0) {
				ocmds = append(ocmds, a)
				oreps = append(oreps, s.replyOf(calls[i]))
			}
		}
	}
	for _, im := range immediate {
		if !im {
			queued++
		}
	}
	applies := s.applyHits - h0
	s.nbatch++
	s.ncmd += k
	s.nenv++
	c.Fault("batch")
	if queued >= 2 && applies < queued {
		// at least two commands shared one apply batch
		c.Probe("batch_of_2plus_applied")
		s.nbatched++
	}
	for i := range ocmds {
		c.Log("batch-cmd", "%s -> %s", q(ocmds[i]), nodeh.Fmt(oreps[i]))
		s.note(append([]string{"(batch)"}, ocmds[i]...), oreps[i])
	}
	c.Log("batch", "n=%d queued=%d applies=%d", k, queued, applies)
	if s.on08 {
		// recorded deviation, judged on its own: a valid batchable write
		// answered with an error because a later SETEX of the same apply batch
		// fails when it is applied
		m := s.mdl.Clone()
		for i, a := range ocmds {
			_, bad := m.Apply(a).(model.Err)
			if !bad && batchable(a) && laterFailingSetex(ocmds[i+1:]) && nodeh.IsErr(oreps[i]) {
				c.Violate(s.prop("C08"), "reply-differs-from-model", "batched-write-fails-with-neighbours-error",
					"in one apply batch: %s answered %s although it is valid; a later call of the batch is %s", q(a), nodeh.Fmt(oreps[i]), q(ocmds[len(ocmds)-1]))
				break
			}
		}
	}
	s.unjudged = false
	if s.on08 || s.on12 {
		var explained bool
		ocmds, oreps, explained = s.linearize(ocmds, oreps, k-queued)
		if !explained && (s.panics > 0 || s.batchHasKnownShape(ocmds)) {
			// no order explains the batch, and it contains a recorded deviation
			// (or the slow-write queue has leaked slots, which delays and
			// times out commands): replies and data of this batch are not judged
			s.unjudged = true
			c.Probe("batch_not_judged_known_deviation_inside")
		}
	}
	s.after(ocmds, oreps, "in one apply batch: ")
	s.unjudged = false
}

// linearize: the calls of a batch that went through raft are concurrent (none
// returned before all were started), so any order of them is a legal
// linearization; the implementation normally applies them in the order they
// were proposed, but a command may be held back before it is proposed (the
// slow-write limiter queues SPOP, LTRIM, ZREMRANGEBY*, xCLEAR). If the
// proposal order does not explain the replies and the resulting data and the
// batch contains such a command, every other order is tried; the first one
// that explains everything is used. The first nimm commands
// (answered before anything was applied) stay in front.
func (s *sim) linearize(cmds [][]string, reps []interface{}, nimm int) ([][]string, []interface{}, bool) {
	n := len(cmds) - nimm
	var ts []tuple
	seen := map[string]bool{}
	for _, a := range cmds {
		for _, x := range touched(a) {
			if !seen[x.id()] {
				seen[x.id()] = true
				ts = append(ts, x)
			}
		}
	}
	for _, r := range reps {
		if closedConn(r) {
			return cmds, reps, false
		}
	}
	final := map[string]string{}
	for _, x := range ts {
		final[x.id()] = model.Canon(s.rd(model.DumpCmd(x.typ, x.key)...))
	}
	explains := func(order []int) bool {
		m := s.mdl.Clone()
		for i := 0; i < nimm; i++ {
			if !model.Equal(reps[i], m.Apply(cmds[i])) {
				return false
			}
		}
		for _, j := range order {
			if !model.Equal(reps[nimm+j], m.Apply(cmds[nimm+j])) {
				return false
			}
		}
		for _, x := range ts {
			if model.Canon(m.Dump(x.typ, x.key)) != final[x.id()] {
				return false
			}
		}
		return true
	}
	order := make([]int, n)
	for i := range order {
		order[i] = i
	}
	if explains(order) {
		return cmds, reps, true
	}
	// only the commands the slow-write limiter watches can be held back
	// before they are proposed
	held := false
	for _, a := range cmds[nimm:] {
		if slowCmd(a[0]) {
			held = true
		}
	}
	if n < 2 || n > 7 || !held {
		return cmds, reps, false
	}
	var found []int
	var perm func(k int)
	perm = func(k int) {
		if found != nil {
			return
		}
		if k == n {
			if explains(order) {
				found = append([]int{}, order...)
			}
			return
		}
		for i := k; i < n; i++ {
			order[k], order[i] = order[i], order[k]
			perm(k + 1)
			order[k], order[i] = order[i], order[k]
		}
	}
	perm(0)
	if found == nil {
		return cmds, reps, false
	}
	s.c.Probe("batch_explained_by_other_order")
	if p := os.Getenv("KVSIM_SURVEY"); p != "" {
		var l []string
		for i, a := range cmds {
			l = append(l, q(a)+" -> "+nodeh.Fmt(reps[i]))
		}
		survey("", "batch-order nimm=%d order=%v: %s", nimm, found, strings.Join(l, " ; "))
	}
	s.c.Log("batch-order", "%v", found)
	oc := append([][]string{}, cmds[:nimm]...)
	or := append([]interface{}{}, reps[:nimm]...)
	for _, j := range found {
		oc = append(oc, cmds[nimm+j])
		or = append(or, reps[nimm+j])
	}
	return oc, or, true
}

// batchHasKnownShape: some command of the batch has the shape of a recorded
// deviation (judged on a copy of the model, in proposal order).
func (s *sim) batchHasKnownShape(cmds [][]string) bool {
	m := s.mdl.Clone()
	for i, a := range cmds {
		want := m.Apply(a)
		if knownShape(a, want, m, preState{listLen: -1}, s.cfg.engine) != "" || panicShape(a) != "" {
			return true
		}
		if batchable(a) && laterFailingSetex(cmds[i+1:]) {
			return true
		}
		if model.TypeOf(a[0]) == "zset" {
			for _, x := range a[2:] {
				if strings.HasPrefix(x, "(") || strings.Contains(strings.ToLower(x), "inf") || x == "+" || x == "-" {
					return true
				}
				if s.cfg.engine == "mem" && strings.HasPrefix(x, "[") && strings.Contains(x, "\x00") {
					return true
				}
			}
		}
	}
	return false
}

func (s *sim) restart(kill bool) {
	c, cl := s.c, s.cl
	m := s.m()
	r0 := s.restores
	what := "graceful restart"
	if kill {
		what = "kill -9 and restart"
		c.Fault("kill")
		c.Log("kill", "")
		cl.Kill(m)
	} else {
		c.Fault("stop_graceful")
		c.Log("stop", "")
		cl.StopGraceful(m)
	}
	h0 := s.applyHits
	if err := cl.Restart(m); err != nil {
		c.Violate(s.prop("C08"), "restart-failed", "", "the node does not come back on its directory after %s: %v", what, err)
		return
	}
	cl.PumpFair(100, s.leaders)
	if !s.leaders() {
		c.Violate(s.prop("C08"), "restart-failed", "", "no leader within 100 fair rounds after %s", what)
		return
	}
	c.Fault("restart")
	if s.restores > r0 {
		c.Probe("checkpoint_restored")
	}
	if s.applyHits-h0 >= 2 {
		c.Probe("restart_replayed")
	}
	s.nenv++
	if s.poison {
		// recorded deviation: the log holds a SETEX that fails when applied; on
		// replay it shares one apply batch with its neighbours and aborts them
		s.envKey = "failing-setex-in-log-aborts-neighbours-on-replay"
	}
	s.fullCheck(what)
	s.envKey = ""
}

// tableDelete removes one whole table through the node API the HTTP
// /kv/delrange endpoint uses (proposed through raft).
func (s *sim) tableDelete() {
	c, cl := s.c, s.cl
	tb := s.g.pick(s.g.p.tables)
	c.Log("table-delete", "%q", tb)
	srv := s.m().Srv
	done := make(chan error, 1)
	go func() { done <- srv.DeleteRange(nodeh.NS, node.DeleteTableRange{Table: tb, DeleteAll: true}) }()
	synctest.Wait()
	var err error
	got := false
	for r := 0; r < 50 && !got; r++ {
		select {
		case err = <-done:
			got = true
		default:
			cl.PumpFair(1, nil)
		}
	}
	cl.Sleep(2 * time.Millisecond)
	c.Fault("table_delete")
	s.nenv++
	if !got || err != nil {
		c.Violate(s.prop("C12"), "table-delete-failed", "", "whole-table delete of %q: finished=%v err=%v", tb, got, err)
		return
	}
	ts := map[string]tuple{}
	for _, x := range s.tuples {
		if strings.HasPrefix(x.key, tb+":") {
			ts[x.id()] = x
		}
	}
	ctx := fmt.Sprintf("after whole-table delete of %q", tb)
	if !utf8.ValidString(tb) {
		// recorded deviation: the request travels as JSON, which replaces the
		// bytes that are not UTF-8, so another (non-existing) table is deleted
		left := false
		for _, id := range core.SortedKeys(ts) {
			x := ts[id]
			if r := s.rd(existCmd[x.typ], x.key); r == int64(1) {
				left = true
			}
		}
		if left {
			c.Violate(s.prop("C12"), "table-delete-incomplete", "table-delete-mangles-non-utf8-table-name", "%s every key of the table is still there", ctx)
		}
		if s.on12 {
			s.check12(map[string]tuple{}, ctx)
		}
		return
	}
	for _, id := range core.SortedKeys(ts) {
		x := ts[id]
		s.mdl.Load(x.typ, x.key, nil)
	}
	for _, id := range core.SortedKeys(ts) {
		x := ts[id]
		s.dataCheck(x, ctx)
		if s.on09 {
			s.check09(x, ctx)
		}
	}
	if s.on12 {
		s.check12(ts, ctx)
	}
}
