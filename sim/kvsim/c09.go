package kvsim

import (
	"fmt"
	"sort"
	"strconv"

	"verif/sim/nodeh"
)

// strs converts an array-of-bulk reply.
func strs(r interface{}) ([]string, bool) {
	a, ok := r.([]interface{})
	if !ok {
		return nil, false
	}
	out := make([]string, 0, len(a))
	for _, e := range a {
		b, ok := e.([]byte)
		if !ok {
			return nil, false
		}
		out = append(out, string(b))
	}
	return out, true
}

func num(r interface{}) (int64, bool) {
	n, ok := r.(int64)
	return n, ok
}

func sameStrs(a, b []string) bool {
	if len(a) != len(b) {
		return false
	}
	for i := range a {
		if a[i] != b[i] {
			return false
		}
	}
	return true
}

func sortedCopy(a []string) []string {
	b := append([]string{}, a...)
	sort.Strings(b)
	return b
}

func hasDup(a []string) bool {
	b := sortedCopy(a)
	for i := 1; i < len(b); i++ {
		if b[i] == b[i-1] {
			return true
		}
	}
	return false
}

// subScan follows an HSCAN / SSCAN / ZSCAN cursor chain with the given COUNT
// and returns the element names (and values / scores when the command has
// them) in the order returned.
func (s *sim) subScan(cmd, key string, count int) (names []string, vals []string, err string) {
	cursor := ""
	for page := 0; ; page++ {
		if page > 200 {
			return names, vals, "cursor chain does not end within 200 pages"
		}
		r := s.rd(cmd, key, cursor, "count", strconv.Itoa(count))
		a, ok := r.([]interface{})
		if !ok || len(a) != 2 {
			return names, vals, "reply " + nodeh.Fmt(r)
		}
		cb, ok1 := a[0].([]byte)
		el, ok2 := strs(a[1])
		if !ok1 || !ok2 {
			return names, vals, "reply " + nodeh.Fmt(r)
		}
		if cmd == "sscan" {
			names = append(names, el...)
		} else {
			if len(el)%2 != 0 {
				return names, vals, "odd element list " + nodeh.Fmt(r)
			}
			for i := 0; i < len(el); i += 2 {
				names = append(names, el[i])
				vals = append(vals, el[i+1])
			}
		}
		cursor = string(cb)
		if cursor == "" {
			return names, vals, ""
		}
	}
}

// recorded deviation: the element scans start strictly after the collection's
// start key, which is the key of the element with the empty name.
const emptyNameKey = "hscan-sscan-zscan-never-return-the-empty-element-name"

// check09: every way of counting and enumerating one collection agrees
// (no reference model involved).
func (s *sim) check09(x tuple, ctx string) {
	k := x.key
	if s.taint[x.id()] != "" && !s.fresh[x.id()] {
		return
	}
	forced := ""
	bad := func(rule string, format string, args ...interface{}) {
		key := s.cur[x.id()]
		if !damaging(key) {
			// only a deviation that damages the stored representation can
			// explain an inconsistency between counting and enumerating
			key = ""
		}
		if forced != "" {
			key = forced
		}
		if !survey(key, "c09 %s %s %q %s: %s", rule, x.typ, k, ctx, fmt.Sprintf(format, args...)) {
			s.c.Violate(s.prop("C09"), rule, key, "%s: %s %q: %s", ctx, x.typ, k, fmt.Sprintf(format, args...))
		}
	}
	exist := func(cmd string, n int) {
		r := s.rd(cmd, k)
		e, ok := num(r)
		if !ok || (e != 0 && e != 1) || (e == 1) != (n >= 1) {
			bad("exist-vs-size", "%s = %s but the collection enumerates %d elements", cmd, nodeh.Fmt(r), n)
		}
	}
	switch x.typ {
	case "hash":
		all, ok := strs(s.rd("hgetall", k))
		if !ok || len(all)%2 != 0 {
			bad("enumerate-failed", "HGETALL = %s", nodeh.Fmt(s.rd("hgetall", k)))
			return
		}
		var fs, vs []string
		for i := 0; i < len(all); i += 2 {
			fs, vs = append(fs, all[i]), append(vs, all[i+1])
		}
		n := len(fs)
		if r := s.rd("hlen", k); r != int64(n) {
			bad("size-vs-enumeration", "HLEN = %s, HGETALL has %d fields %q", nodeh.Fmt(r), n, fs)
		}
		if ks, ok := strs(s.rd("hkeys", k)); !ok || !sameStrs(ks, fs) {
			bad("enumerations-differ", "HKEYS = %q, HGETALL fields %q", ks, fs)
		}
		if vv, ok := strs(s.rd("hvals", k)); !ok || !sameStrs(vv, vs) {
			bad("enumerations-differ", "HVALS = %q, HGETALL values %q", vv, vs)
		}
		if hasDup(fs) {
			bad("element-twice", "HGETALL lists a field twice: %q", fs)
		}
		exist("hkeyexist", n)
		for i, f := range fs {
			if r := s.rd("hget", k, f); nodeh.Fmt(r) != nodeh.Fmt([]byte(vs[i])) {
				bad("element-unreachable", "HGETALL lists %q=%q but HGET answers %s", f, vs[i], nodeh.Fmt(r))
			}
			if r := s.rd("hexists", k, f); r != int64(1) {
				bad("element-unreachable", "HGETALL lists %q but HEXISTS answers %s", f, nodeh.Fmt(r))
			}
		}
		if n > 0 {
			if mv, ok := strs(s.rd(append([]string{"hmget", k}, fs...)...)); !ok || !sameStrs(mv, vs) {
				bad("element-unreachable", "HMGET of all fields = %q, HGETALL values %q", mv, vs)
			}
		}
		for _, cnt := range []int{2, 100} {
			sf, sv, e := s.subScan("hscan", k, cnt)
			if e != "" || !sameStrs(sf, fs) || !sameStrs(sv, vs) {
				if e == "" && n > 0 && fs[0] == "" && sameStrs(sf, fs[1:]) && sameStrs(sv, vs[1:]) {
					forced = emptyNameKey
				}
				bad("scan-vs-enumeration", "HSCAN COUNT %d chain gives %q=%q (%s), HGETALL %q=%q", cnt, sf, sv, e, fs, vs)
				forced = ""
			}
		}
	case "set":
		ms, ok := strs(s.rd("smembers", k))
		if !ok {
			bad("enumerate-failed", "SMEMBERS = %s", nodeh.Fmt(s.rd("smembers", k)))
			return
		}
		n := len(ms)
		if r := s.rd("scard", k); r != int64(n) {
			bad("size-vs-enumeration", "SCARD = %s, SMEMBERS has %d members %q", nodeh.Fmt(r), n, ms)
		}
		if hasDup(ms) {
			bad("element-twice", "SMEMBERS lists a member twice: %q", ms)
		}
		exist("skeyexist", n)
		for _, m := range ms {
			if r := s.rd("sismember", k, m); r != int64(1) {
				bad("element-unreachable", "SMEMBERS lists %q but SISMEMBER answers %s", m, nodeh.Fmt(r))
			}
		}
		for _, cnt := range []int{2, 100} {
			sm, _, e := s.subScan("sscan", k, cnt)
			if e != "" || !sameStrs(sm, ms) {
				if e == "" && n > 0 && ms[0] == "" && sameStrs(sm, ms[1:]) {
					forced = emptyNameKey
				}
				bad("scan-vs-enumeration", "SSCAN COUNT %d chain gives %q (%s), SMEMBERS %q", cnt, sm, e, ms)
				forced = ""
			}
		}
	case "list":
		l, ok := strs(s.rd("lrange", k, "0", "-1"))
		if !ok {
			bad("enumerate-failed", "LRANGE 0 -1 = %s", nodeh.Fmt(s.rd("lrange", k, "0", "-1")))
			return
		}
		n := len(l)
		if r := s.rd("llen", k); r != int64(n) {
			bad("size-vs-enumeration", "LLEN = %s, LRANGE 0 -1 has %d elements", nodeh.Fmt(r), n)
		}
		exist("lkeyexist", n)
		for i, v := range l {
			if i >= 12 {
				break
			}
			if r := s.rd("lindex", k, strconv.Itoa(i)); nodeh.Fmt(r) != nodeh.Fmt([]byte(v)) {
				bad("element-unreachable", "LRANGE has %q at %d but LINDEX %d answers %s", v, i, i, nodeh.Fmt(r))
			}
			if r := s.rd("lindex", k, strconv.Itoa(i-n)); nodeh.Fmt(r) != nodeh.Fmt([]byte(v)) {
				bad("element-unreachable", "LRANGE has %q at %d but LINDEX %d answers %s", v, i, i-n, nodeh.Fmt(r))
			}
		}
		if r := s.rd("lindex", k, strconv.Itoa(n)); r != nil {
			bad("size-vs-enumeration", "LINDEX %d (one past the end of LRANGE 0 -1) answers %s", n, nodeh.Fmt(r))
		}
		if r := s.rd("lindex", k, strconv.Itoa(-n-1)); r != nil {
			bad("size-vs-enumeration", "LINDEX %d (one before the head of LRANGE 0 -1) answers %s", -n-1, nodeh.Fmt(r))
		}
	case "zset":
		all, ok := strs(s.rd("zrange", k, "0", "-1", "withscores"))
		if !ok || len(all)%2 != 0 {
			bad("enumerate-failed", "ZRANGE 0 -1 WITHSCORES = %s", nodeh.Fmt(s.rd("zrange", k, "0", "-1", "withscores")))
			return
		}
		var ms, sc []string
		for i := 0; i < len(all); i += 2 {
			ms, sc = append(ms, all[i]), append(sc, all[i+1])
		}
		n := len(ms)
		if r := s.rd("zcard", k); r != int64(n) {
			bad("size-vs-enumeration", "ZCARD = %s, ZRANGE 0 -1 has %d members %q", nodeh.Fmt(r), n, ms)
		}
		if hasDup(ms) {
			bad("element-twice", "ZRANGE 0 -1 lists a member twice: %q", ms)
		}
		exist("zkeyexist", n)
		if a, ok := strs(s.rd("zrange", k, "0", "-1")); !ok || !sameStrs(a, ms) {
			bad("enumerations-differ", "ZRANGE 0 -1 = %q, WITHSCORES members %q", a, ms)
		}
		if a, ok := strs(s.rd("zrangebyscore", k, "-inf", "+inf", "withscores")); !ok || !sameStrs(a, all) {
			bad("enumerations-differ", "ZRANGEBYSCORE -inf +inf WITHSCORES = %q, ZRANGE 0 -1 WITHSCORES = %q", a, all)
		}
		if a, ok := strs(s.rd("zrevrangebyscore", k, "+inf", "-inf")); !ok || len(a) != n {
			bad("enumerations-differ", "ZREVRANGEBYSCORE +inf -inf = %q, ZRANGE 0 -1 = %q", a, ms)
		}
		if a, ok := strs(s.rd("zrangebylex", k, "-", "+")); !ok || !sameStrs(sortedCopy(a), sortedCopy(ms)) {
			bad("enumerations-differ", "ZRANGEBYLEX - + = %q, ZRANGE 0 -1 = %q", a, ms)
		}
		if a, ok := strs(s.rd("zrevrange", k, "0", "-1")); !ok || len(a) != n {
			bad("enumerations-differ", "ZREVRANGE 0 -1 = %q, ZRANGE 0 -1 = %q", a, ms)
		} else {
			for i := range a {
				if a[i] != ms[n-1-i] {
					bad("enumerations-differ", "ZREVRANGE 0 -1 = %q is not the reverse of ZRANGE 0 -1 = %q", a, ms)
					break
				}
			}
		}
		if r := s.rd("zcount", k, "-inf", "+inf"); r != int64(n) {
			bad("size-vs-enumeration", "ZCOUNT -inf +inf = %s, ZRANGE 0 -1 has %d members", nodeh.Fmt(r), n)
		}
		if r := s.rd("zlexcount", k, "-", "+"); r != int64(n) {
			bad("size-vs-enumeration", "ZLEXCOUNT - + = %s, ZRANGE 0 -1 has %d members", nodeh.Fmt(r), n)
		}
		prev := 0.0
		for i, m := range ms {
			f, err := strconv.ParseFloat(sc[i], 64)
			if err != nil {
				bad("enumerate-failed", "score %q of %q does not parse", sc[i], m)
				continue
			}
			if i > 0 && (f < prev || (f == prev && m <= ms[i-1])) {
				bad("order", "ZRANGE 0 -1 WITHSCORES is not ordered by (score, member): %q", all)
			}
			prev = f
			if r := s.rd("zscore", k, m); nodeh.Fmt(r) != nodeh.Fmt([]byte(sc[i])) {
				bad("element-unreachable", "ZRANGE lists %q with score %s but ZSCORE answers %s", m, sc[i], nodeh.Fmt(r))
			}
			if r := s.rd("zrank", k, m); r != int64(i) {
				bad("rank-vs-position", "%q is at position %d of ZRANGE 0 -1 %q but ZRANK answers %s", m, i, ms, nodeh.Fmt(r))
			}
			if r := s.rd("zrevrank", k, m); r != int64(n-1-i) {
				bad("rank-vs-position", "%q is at position %d of %d of ZRANGE 0 -1 but ZREVRANK answers %s", m, i, n, nodeh.Fmt(r))
			}
		}
		for _, cnt := range []int{2, 100} {
			sm, sv, e := s.subScan("zscan", k, cnt)
			okk := e == "" && sameStrs(sortedCopy(sm), sortedCopy(ms))
			if okk {
				byM := map[string]string{}
				for i, m := range ms {
					byM[m] = sc[i]
				}
				for i, m := range sm {
					if byM[m] != sv[i] {
						okk = false
					}
				}
			}
			if !okk && e == "" && len(sm) == n-1 {
				// everything but the empty member name, with the right scores?
				byM := map[string]string{}
				for i, m := range ms {
					byM[m] = sc[i]
				}
				_, hasEmpty := byM[""]
				all := hasEmpty
				for i, m := range sm {
					if m == "" || byM[m] != sv[i] {
						all = false
					}
				}
				if all && !hasDup(sm) {
					forced = emptyNameKey
				}
			}
			if !okk {
				bad("scan-vs-enumeration", "ZSCAN COUNT %d chain gives %q scores %q (%s), ZRANGE 0 -1 WITHSCORES %q", cnt, sm, sv, e, all)
				forced = ""
			}
		}
	}
}
