package kvsim

import (
	"encoding/base64"
	"fmt"
	"path"
	"sort"
	"strconv"
	"strings"
	"testing/synctest"

	"verif/sim/nodeh"
)

// scanSpec is one cursor iteration.
type scanSpec struct {
	cmd   string // scan | advscan | hscan | sscan | zscan (forward names; rev picks the reverse command)
	rev   bool
	typ   string // kv list hash set zset: the type whose keys are scanned (scan, advscan)
	table string
	key   string // table:key of the collection (hscan, sscan, zscan)
	count int    // 0: no COUNT argument
	match string // "": no MATCH argument
	// qualified: the pattern is sent as table:pattern (the form the
	// implementation matches key names against)
	qualified bool
	start     string // element name to start after (forward) / before (reverse); "": from the beginning
}

func (sp scanSpec) String() string {
	return fmt.Sprintf("%s rev=%v type=%s table=%q key=%q count=%d match=%q table-qualified=%v start=%q", sp.cmd, sp.rev, sp.typ, sp.table, sp.key, sp.count, sp.match, sp.qualified, sp.start)
}

func (sp scanSpec) keyScan() bool { return sp.cmd == "scan" || sp.cmd == "advscan" }

func (sp scanSpec) name() string {
	if !sp.rev {
		return sp.cmd
	}
	switch sp.cmd {
	case "scan":
		return "revscan"
	case "advscan":
		return "advrevscan"
	}
	return sp.cmd[:1] + "rev" + sp.cmd[1:]
}

// partOf: the partition that serves table:key (asked from the node's own routing).
func (s *sim) partOf(tk string) int {
	nn, err := s.m().NSM.GetNamespaceNodeWithPrimaryKey(nodeh.NS, []byte(tk))
	if err != nil {
		return -1
	}
	for p := 0; p < s.cfg.parts; p++ {
		if s.m().Parts[p] == nn {
			return p
		}
	}
	return -1
}

// mergedCursor builds the cursor a client would hold if every partition had
// last returned the element `at` (documented format: base64 of
// "pid:base64(cursor);" per partition).
func (s *sim) mergedCursor(at string) string {
	var sb strings.Builder
	for p := 0; p < s.cfg.parts; p++ {
		sb.WriteString(strconv.Itoa(p) + ":" + base64.StdEncoding.EncodeToString([]byte(at)) + ";")
	}
	return base64.StdEncoding.EncodeToString([]byte(sb.String()))
}

// canonCursor renders a merged cursor independent of the order in which the
// server happened to list the partitions.
func canonCursor(cur string) string {
	if cur == "" {
		return ""
	}
	raw, err := base64.StdEncoding.DecodeString(cur)
	if err != nil {
		return "?" + cur
	}
	parts := strings.Split(strings.TrimRight(string(raw), ";"), ";")
	for i, p := range parts {
		if j := strings.IndexByte(p, ':'); j >= 0 {
			if d, err := base64.StdEncoding.DecodeString(p[j+1:]); err == nil {
				parts[i] = p[:j] + ":" + strconv.Quote(string(d))
			}
		}
	}
	sort.Strings(parts)
	return strings.Join(parts, ";")
}

// scanPage issues one scan command. cursor is what the previous page
// returned ("" on the first page unless the spec has a start element).
func (s *sim) scanPage(sp scanSpec, cursor string) (els []string, vals []string, next string, err string) {
	var args []string
	if sp.keyScan() {
		args = []string{sp.name(), nodeh.NS + ":" + sp.table + ":" + cursor}
		if sp.cmd == "advscan" {
			args = append(args, advType[sp.typ])
		}
	} else {
		args = []string{sp.name(), nodeh.NS + ":" + sp.key, cursor}
	}
	if sp.match != "" {
		if sp.qualified {
			args = append(args, "match", sp.table+":"+sp.match)
		} else {
			args = append(args, "match", sp.match)
		}
	}
	if sp.count > 0 {
		args = append(args, "count", strconv.Itoa(sp.count))
	}
	xs := make([]interface{}, len(args))
	for i, a := range args {
		xs[i] = a
	}
	r := s.raw(nodeh.Cmd(xs...))
	a, ok := r.([]interface{})
	if !ok || len(a) != 2 {
		return nil, nil, "", "reply " + nodeh.Fmt(r)
	}
	cb, ok1 := a[0].([]byte)
	el, ok2 := strs(a[1])
	if !ok1 || !ok2 {
		return nil, nil, "", "reply " + nodeh.Fmt(r)
	}
	if sp.cmd == "hscan" || sp.cmd == "zscan" {
		if len(el)%2 != 0 {
			return nil, nil, "", "odd element list " + nodeh.Fmt(r)
		}
		for i := 0; i < len(el); i += 2 {
			els = append(els, el[i])
			vals = append(vals, el[i+1])
		}
	} else {
		els = el
	}
	return els, vals, string(cb), ""
}

// canonPage renders the elements of a page grouped by partition (the server
// concatenates the partitions' answers in map order).
func (s *sim) canonPage(sp scanSpec, els []string) string {
	if !sp.keyScan() || s.cfg.parts == 1 {
		return fmt.Sprintf("%q", els)
	}
	by := make([][]string, s.cfg.parts+1)
	for _, e := range els {
		p := s.partOf(sp.table + ":" + e)
		if p < 0 {
			p = s.cfg.parts
		}
		by[p] = append(by[p], e)
	}
	return fmt.Sprintf("%q", by)
}

// chain follows the cursor chain to the empty cursor. between is called
// after every page that is not the last one.
func (s *sim) chain(sp scanSpec, between func(sofar []string)) (got []string, pages int, err string) {
	cursor := ""
	if sp.start != "" {
		cursor = sp.start
		if sp.keyScan() {
			cursor = s.mergedCursor(sp.start)
		}
	}
	for {
		els, _, next, e := s.scanPage(sp, cursor)
		pages++
		s.pages++
		if e != "" {
			return got, pages, e
		}
		got = append(got, els...)
		if sp.keyScan() {
			s.c.Log("page", "%s -> next=%s", s.canonPage(sp, els), canonCursor(next))
		} else {
			s.c.Log("page", "%q -> next=%q", els, next)
		}
		if next == "" {
			return got, pages, ""
		}
		if pages >= 400 {
			return got, pages, "the cursor chain did not reach the empty cursor within 400 pages"
		}
		if between != nil {
			between(got)
		}
		cursor = next
	}
}

// keyScan runs a key scan without interference (used by the C12 scan check).
func (s *sim) keyScan(sp scanSpec, between func([]string)) ([]string, int, string) {
	return s.chain(sp, between)
}

// ---- the scan scenario ---------------------------------------------------------------

var scanTables = [][]string{{"t", "ta", "t0"}, {"ab", "a", "abc"}, {"t", "t\x00", "u"}, {"T", "t", "S"}, {"t", "t;", "t~"}}

var namePool = []string{"a", "aa", "ab", "b", "a:", "a:b", ":", "::", ":a", "\xff", "\xff\xff", "\x00", "\x00\x00", "0", "9", "z", "zz", "a\x00", "a\xff", "A", "~",
	"k0", "k1", "k2", "k3", "k4", "k5", "k6", "k7", "k8", "k9", "k10", "k11", "t:", "t:a", ";", "ta", "t"}

var matchPool = []string{"a*", "*a", "k*", "*", "?", "k?", "[ab]*", "*:*", "k[0-4]", "a?", "*\x00*", "z*", "k1*"}

const revStart = "\xff\xff\xff\xff"

type world struct {
	keys map[string]map[string]bool // typ|table -> key names that hold data
	mem  map[string]map[string]bool // typ|table:key -> members / fields of the big collections
}

func (w *world) ks(typ, table string) map[string]bool {
	id := typ + "|" + table
	if w.keys[id] == nil {
		w.keys[id] = map[string]bool{}
	}
	return w.keys[id]
}

func (w *world) ms(typ, key string) map[string]bool {
	id := typ + "|" + key
	if w.mem[id] == nil {
		w.mem[id] = map[string]bool{}
	}
	return w.mem[id]
}

// must runs a write that has to succeed (population and interference use
// only the plainest commands).
func (s *sim) must(args ...string) bool {
	r := s.do(args)
	if nodeh.IsErr(r) {
		s.c.Violate(s.prop("C13"), "population-write-failed", "", "%s answered %s", q(args), nodeh.Fmt(r))
		return false
	}
	return true
}

func (s *sim) createKey(w *world, typ, table, name string) {
	k := table + ":" + name
	ok := false
	switch typ {
	case "kv":
		ok = s.must("set", k, "v")
	case "list":
		ok = s.must("rpush", k, "v")
	case "hash":
		ok = s.must("hset", k, "f", "v")
	case "set":
		ok = s.must("sadd", k, "m")
	case "zset":
		ok = s.must("zadd", k, "1", "m")
	}
	if ok {
		w.ks(typ, table)[name] = true
	}
}

func (s *sim) removeKey(w *world, typ, table, name string) {
	k := table + ":" + name
	cmd := map[string]string{"kv": "del", "list": "lclear", "hash": "hclear", "set": "sclear", "zset": "zclear"}[typ]
	if s.must(cmd, k) {
		delete(w.ks(typ, table), name)
		delete(w.mem, typ+"|"+k)
	}
}

func (s *sim) addMember(w *world, typ, key, m string) {
	ok := false
	switch typ {
	case "hash":
		ok = s.must("hset", key, m, "v"+m)
	case "set":
		ok = s.must("sadd", key, m)
	case "zset":
		ok = s.must("zadd", key, strconv.Itoa(len(m)), m)
	}
	if ok {
		w.ms(typ, key)[m] = true
		i := strings.IndexByte(key, ':')
		w.ks(typ, key[:i])[key[i+1:]] = true
	}
}

func (s *sim) remMember(w *world, typ, key, m string) {
	cmd := map[string]string{"hash": "hdel", "set": "srem", "zset": "zrem"}[typ]
	if s.must(cmd, key, m) {
		delete(w.ms(typ, key), m)
		if len(w.ms(typ, key)) == 0 {
			i := strings.IndexByte(key, ':')
			delete(w.ks(typ, key[:i]), key[i+1:])
		}
	}
}

func sortedNames(m map[string]bool) []string {
	out := make([]string, 0, len(m))
	for k := range m {
		out = append(out, k)
	}
	sort.Strings(out)
	return out
}

func globMatch(pat, name string) bool {
	ok, err := path.Match(pat, name)
	return err == nil && ok
}

func (s *sim) scanScenario() {
	c, t := s.c, s.t
	w := &world{keys: map[string]map[string]bool{}, mem: map[string]map[string]bool{}}
	tables := scanTables[t.Choose(len(scanTables))]
	main := tables[0]
	c.Log("tables", "%q", tables)
	// ---- population ----
	dens := pick(t, 400, 150, 700, 0)
	for _, typ := range types {
		d := dens
		if t.Bool(300) {
			d = pick(t, 0, 100, 900)
		}
		for _, name := range namePool {
			if t.Bool(d) {
				s.createKey(w, typ, main, name)
			}
		}
		for _, tb := range tables[1:] {
			for _, name := range namePool {
				if t.Bool(120) {
					s.createKey(w, typ, tb, name)
				}
			}
		}
		if s.fatal() {
			return
		}
	}
	collKeys := []string{main + ":big", main + ":bi", main + ":big0", main + ":big:", tables[1] + ":big"}
	for _, typ := range []string{"hash", "set", "zset"} {
		for i, k := range collKeys {
			d := dens
			if i > 0 {
				d = 150
			}
			for _, name := range namePool {
				if t.Bool(d) {
					s.addMember(w, typ, k, name)
				}
			}
		}
		if s.fatal() {
			return
		}
	}
	c.Log("populated", "")
	nchains := 4 + t.Choose(5)
	if c.Tier == "thorough" {
		nchains = 6 + t.Choose(8)
	}
	interf := pick(t, 250, 0, 500)
	for i := 0; i < nchains && !s.fatal(); i++ {
		var sp scanSpec
		switch t.Weighted([]int{40, 15, 15, 15, 15}) {
		case 0:
			sp = scanSpec{cmd: "advscan", typ: types[t.Choose(len(types))], table: main}
		case 1:
			sp = scanSpec{cmd: "scan", typ: "kv", table: main}
		case 2:
			sp = scanSpec{cmd: "hscan", typ: "hash", key: collKeys[0]}
		case 3:
			sp = scanSpec{cmd: "sscan", typ: "set", key: collKeys[0]}
		default:
			sp = scanSpec{cmd: "zscan", typ: "zset", key: collKeys[0]}
		}
		if t.Bool(100) {
			// a neighbour table / collection instead of the main one
			if sp.keyScan() {
				sp.table = tables[1+t.Choose(len(tables)-1)]
			} else {
				sp.key = collKeys[1+t.Choose(len(collKeys)-1)]
			}
		}
		sp.count = 1 + t.Choose(12)
		switch t.Choose(8) {
		case 6:
			sp.count = 0
		case 7:
			sp.count = 100
		}
		sp.rev = t.Bool(300)
		if t.Bool(250) {
			sp.match = matchPool[t.Choose(len(matchPool))]
			sp.qualified = sp.keyScan() && t.Bool(700)
		}
		if sp.rev {
			sp.start = revStart
		}
		if t.Bool(150) {
			sp.start = namePool[t.Choose(len(namePool))]
		}
		s.runChain(sp, w, tables, collKeys, interf)
	}
}

// scope: the element set a chain iterates over, in the ground truth.
func (s *sim) scope(sp scanSpec, w *world) map[string]bool {
	if sp.keyScan() {
		return w.ks(sp.typ, sp.table)
	}
	return w.ms(sp.typ, sp.key)
}

func inRange(sp scanSpec, name string) bool {
	if sp.match != "" && !globMatch(sp.match, name) {
		return false
	}
	if sp.start == "" {
		return true
	}
	if sp.rev {
		return name < sp.start
	}
	return name > sp.start
}

func (s *sim) runChain(sp scanSpec, w *world, tables, collKeys []string, interf int) {
	c, t := s.c, s.t
	s.scans++
	c.Log("scan", "%s", sp)
	initial := map[string]bool{}
	for _, n := range sortedNames(s.scope(sp, w)) {
		if inRange(sp, n) {
			initial[n] = true
		}
	}
	added := map[string]bool{}
	deleted := map[string]bool{}
	restarts := 0
	between := func(sofar []string) {
		if !t.Bool(interf) {
			return
		}
		ret := map[string]bool{}
		for _, e := range sofar {
			ret[e] = true
		}
		sc := s.scope(sp, w)
		switch t.Weighted([]int{30, 25, 15, 15, 8, 7}) {
		case 0: // write other elements of the same scope (they may or may not be seen)
			nadd := 1 + t.Choose(3)
			for n := 0; n < nadd; n++ {
				name := namePool[t.Choose(len(namePool))]
				if sc[name] || initial[name] || deleted[name] {
					continue
				}
				c.Log("interfere", "add %q", name)
				if sp.keyScan() {
					s.createKey(w, sp.typ, sp.table, name)
				} else {
					s.addMember(w, sp.typ, sp.key, name)
				}
				added[name] = true
			}
			c.Probe("scan_write_between_pages")
		case 1: // delete an element that was already returned
			var cand []string
			for _, e := range sortedNames(ret) {
				if sc[e] {
					cand = append(cand, e)
				}
			}
			if len(cand) == 0 {
				return
			}
			name := cand[t.Choose(len(cand))]
			c.Log("interfere", "delete returned %q", name)
			if sp.keyScan() {
				s.removeKey(w, sp.typ, sp.table, name)
			} else {
				s.remMember(w, sp.typ, sp.key, name)
			}
			deleted[name] = true
			c.Probe("scan_delete_returned_between_pages")
		case 2: // delete an element that was not returned yet
			var cand []string
			for _, e := range sortedNames(sc) {
				if !ret[e] {
					cand = append(cand, e)
				}
			}
			if len(cand) == 0 {
				return
			}
			name := cand[t.Choose(len(cand))]
			c.Log("interfere", "delete pending %q", name)
			if sp.keyScan() {
				s.removeKey(w, sp.typ, sp.table, name)
			} else {
				s.remMember(w, sp.typ, sp.key, name)
			}
			deleted[name] = true
			c.Probe("scan_delete_pending_between_pages")
		case 3: // writes to other tables, types and collections
			name := namePool[t.Choose(len(namePool))]
			otyp := types[t.Choose(len(types))]
			otb := tables[t.Choose(len(tables))]
			if sp.keyScan() && otyp == sp.typ && otb == sp.table {
				otb = tables[(indexOf(tables, otb)+1)%len(tables)]
			}
			if !sp.keyScan() && otb+":"+name == sp.key {
				return
			}
			c.Log("interfere", "other %s %q %q", otyp, otb, name)
			if !w.ks(otyp, otb)[name] {
				s.createKey(w, otyp, otb, name)
			}
			if !sp.keyScan() {
				other := collKeys[1+t.Choose(len(collKeys)-1)]
				if other != sp.key {
					s.addMember(w, sp.typ, other, name)
				}
			}
		case 4:
			c.Log("interfere", "compact")
			for p := 0; p < s.cfg.parts; p++ {
				s.store(p).CompactAllRange()
			}
			synctest.Wait()
			c.Fault("compact")
			c.Probe("scan_compaction_between_pages")
		case 5:
			if restarts >= 1 {
				return
			}
			restarts++
			kill := t.Bool(500)
			c.Log("interfere", "restart kill=%v", kill)
			if kill {
				s.cl.Kill(s.m())
				c.Fault("kill")
			} else {
				s.cl.StopGraceful(s.m())
				c.Fault("stop_graceful")
			}
			if err := s.cl.Restart(s.m()); err != nil {
				c.Violate(s.prop("C13"), "restart-failed", "", "the node does not come back between two scan pages: %v", err)
				return
			}
			s.cl.PumpFair(100, s.leaders)
			c.Fault("restart")
			c.Probe("scan_restart_between_pages")
		}
	}
	got, pages, err := s.chain(sp, between)
	if s.fatal() {
		return
	}
	if sp.keyScan() && s.cfg.parts > 1 {
		// the server concatenates the partitions' answers in map order: judge
		// and report the per-partition subsequences, in partition order
		by := make([][]string, s.cfg.parts+1)
		for _, e := range got {
			p := s.partOf(sp.table + ":" + e)
			if p < 0 {
				p = s.cfg.parts
			}
			by[p] = append(by[p], e)
		}
		got = nil
		for _, l := range by {
			got = append(got, l...)
		}
	}
	if len(s.scanSample) < 6 {
		s.scanSample = append(s.scanSample, fmt.Sprintf("%s: %d elements in scope, %d pages, %d returned", sp, len(initial), pages, len(got)))
	}
	if pages >= 2 {
		c.Probe("scan_multi_page")
	}
	if pages >= 2 && s.cfg.parts > 1 && sp.keyScan() {
		c.Probe("scan_multi_page_merged")
	}
	ctx := "iteration " + sp.String()
	nul := strings.Contains(sp.start, "\x00")
	for _, m := range []map[string]bool{initial, added, deleted, s.scope(sp, w)} {
		for e := range m {
			if strings.Contains(e, "\x00") {
				nul = true
			}
		}
	}
	viol := func(rule, format string, args ...interface{}) {
		c.Violate(s.prop("C13"), rule, known13(sp, rule, pages, s.cfg.engine, nul), "%s: %s", ctx, fmt.Sprintf(format, args...))
	}
	if err != "" {
		viol("scan-failed", "after %d pages: %s", pages, err)
		return
	}
	// exactly once
	seen := map[string]int{}
	for _, e := range got {
		seen[e]++
	}
	for _, e := range sortedNames(boolKeys(seen)) {
		if seen[e] > 1 {
			viol("element-twice", "%q was returned %d times; returned in order: %q", e, seen[e], got)
			break
		}
	}
	var missing []string
	for _, e := range sortedNames(initial) {
		if !deleted[e] && seen[e] == 0 {
			missing = append(missing, e)
		}
	}
	if len(missing) > 0 {
		viol("element-missed", "%q existed during the whole iteration but were never returned; returned: %q", missing, got)
	}
	for _, e := range got {
		if !initial[e] && !added[e] {
			why := "it does not exist in the addressed table/type/collection"
			if s.scope(sp, w)[e] || deleted[e] {
				why = "it is outside the requested range or does not match the pattern"
			}
			viol("foreign-element", "%q was returned but %s; returned: %q", e, why, got)
			break
		}
	}
	// order within a partition
	last := map[int]string{}
	has := map[int]bool{}
	for _, e := range got {
		p := 0
		if sp.keyScan() {
			p = s.partOf(sp.table + ":" + e)
		}
		if has[p] && ((!sp.rev && e <= last[p]) || (sp.rev && e >= last[p])) {
			viol("order", "%q came after %q from the same partition (reverse=%v); returned: %q", e, last[p], sp.rev, got)
			break
		}
		last[p], has[p] = e, true
	}
	// termination
	n := len(initial) + len(added)
	cnt := sp.count
	if cnt == 0 {
		cnt = 10
	}
	tight := (n+cnt-1)/cnt + s.cfg.parts + 2
	if pages > tight {
		c.Probe("scan_pages_over_tight_bound")
	}
	if pages > 2*((n+cnt-1)/cnt)+s.cfg.parts+2 {
		viol("too-many-pages", "%d pages for at most %d elements with COUNT %d on %d partitions", pages, n, cnt, s.cfg.parts)
	}
}

func boolKeys(m map[string]int) map[string]bool {
	out := map[string]bool{}
	for k := range m {
		out[k] = true
	}
	return out
}

func indexOf(l []string, x string) int {
	for i, y := range l {
		if y == x {
			return i
		}
	}
	return 0
}
