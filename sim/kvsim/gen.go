package kvsim

import (
	"strconv"
	"strings"

	"verif/sim/core"
)

// The five per-type keyspaces, in canonical order.
var types = []string{"kv", "list", "hash", "set", "zset"}

// pools of names and arguments a run draws its commands from. Small on
// purpose: operations must collide.
type pools struct {
	tables []string
	keys   []string // the same key names are used for every type (name reuse across types)
	subs   []string // hash fields, set / zset members, list values
	vals   []string
	scores []string
}

// ---- C08/C09 pools: small and adversarial in the values, plain in the names ----

var smallTables = []string{"t", "ta"}
var smallKeys = []string{"k", "kk", "a"}
var smallSubs = []string{"m", "mm", "", "\x00\xffz", "n"}
var edgeVals = []string{"v", "", "10", "-3", "w\x00\xff", "9223372036854775807", "-9223372036854775808", "007", "+5", "1.5", " 7", strings.Repeat("L", 300)}
var plainVals = []string{"v", "w", "10", "-3", "", "x\x00y"}
var edgeScores = []string{"1", "2", "1.5", "-1", "0", "2.5", "3", "1e3", "-0.5"}
var rareScores = []string{"inf", "-inf", "+inf", "nan", "x", "", "1e400", "0x10"}

// ---- C12 pools: adversarial names ----
//
// A client key is namespace:table:key and the table is everything up to the
// first ':' after the namespace, so a table name cannot contain ':' on the
// client path; every other byte can appear. Key, field and member names are
// arbitrary byte strings.
var advTables = []string{"t", "ta", "t\x00", "\x00\x01", "t;", "a", "\xff", "t\xff", "T", "\x00\x01t"}
var advKeys = []string{"a", "a:b", "a:", ":a", "ab", "a\x00", "\x00\x01a", "a\xff", "a;", "", ":", "a:b:c", "\x00\x01", "\xff\xff", "a\x00\x01b", "b"}
var advSubs = []string{"c", "b:c", ":c", "", "\x00", "\xff", "\x00\x01", "c;", ":", "c\x00", "\x00\x01c", "b:c:d", "c:", ";"}

func pickN(t *core.Tape, from []string, n int) []string {
	// the first n-1 picks are tape-chosen distinct elements, in pool order
	if n >= len(from) {
		return append([]string{}, from...)
	}
	used := map[int]bool{}
	var idx []int
	for len(idx) < n {
		i := t.Choose(len(from))
		for used[i] {
			i = (i + 1) % len(from)
		}
		used[i] = true
		idx = append(idx, i)
	}
	out := make([]string, 0, n)
	for _, i := range idx {
		out = append(out, from[i])
	}
	return out
}

// advPools draws a pool of adversarial names; related names (prefixes,
// concatenation collisions) are drawn together.
func advPools(t *core.Tape) pools {
	var p pools
	switch t.Choose(4) {
	case 0:
		p.tables = []string{"t", "ta", "t\x00"}
	case 1:
		p.tables = []string{"a", "\x00\x01", "\x00\x01a"}
	case 2:
		p.tables = []string{"t", "t;", "t\xff"}
	default:
		p.tables = pickN(t, advTables, 3)
	}
	switch t.Choose(4) {
	case 0:
		p.keys = []string{"a", "a:b", "a:", ""}
	case 1:
		p.keys = []string{"a", "a\x00", "\x00\x01a", "a\x00\x01b"}
	case 2:
		p.keys = []string{":a", ":", "a;", "a\xff"}
	default:
		p.keys = pickN(t, advKeys, 4)
	}
	switch t.Choose(4) {
	case 0:
		p.subs = []string{"c", "b:c", ":c", ""}
	case 1:
		p.subs = []string{"c", "\x00", "\x00\x01", "\x00\x01c"}
	case 2:
		p.subs = []string{"\xff", "c;", ";", ":"}
	default:
		p.subs = pickN(t, advSubs, 4)
	}
	p.vals = plainVals
	p.scores = []string{"1", "2", "3", "1.5"}
	return p
}

func smallPools() pools {
	return pools{tables: smallTables, keys: smallKeys, subs: smallSubs, vals: edgeVals, scores: edgeScores}
}

type gen struct {
	t     *core.Tape
	p     pools
	plain bool // C12: only well-formed arguments, the names are the adversary
}

func (g *gen) pick(l []string) string { return l[g.t.Choose(len(l))] }
func (g *gen) key() string            { return g.pick(g.p.tables) + ":" + g.pick(g.p.keys) }
func (g *gen) sub() string            { return g.pick(g.p.subs) }
func (g *gen) val() string            { return g.pick(g.p.vals) }

func (g *gen) score() string {
	if !g.plain && g.t.Bool(40) {
		return g.pick(rareScores)
	}
	return g.pick(g.p.scores)
}

var idxPool = []string{"0", "1", "-1", "2", "-2", "3", "-3", "5", "-5", "100", "-100"}

func (g *gen) idx() string {
	if !g.plain && g.t.Bool(20) {
		return g.pick([]string{"x", "", "1.0", "9223372036854775808"})
	}
	return g.pick(idxPool)
}

func (g *gen) intArg() string {
	if g.plain {
		return g.pick([]string{"1", "2", "-1", "10"})
	}
	if g.t.Bool(60) {
		return g.pick([]string{"x", "", "1.5", "9223372036854775807", "-9223372036854775808", "+1", "01", " 1"})
	}
	return g.pick([]string{"1", "2", "-1", "10", "-7", "0"})
}

func (g *gen) scoreBound() string {
	if g.plain {
		return g.pick([]string{"-inf", "+inf", "1", "2", "3"})
	}
	switch g.t.Choose(8) {
	case 0:
		return "-inf"
	case 1:
		return "+inf"
	case 2, 3:
		return "(" + g.pick(g.p.scores)
	case 4:
		if g.t.Bool(300) {
			return g.pick([]string{"inf", "(inf", "(-inf", "a", "", "(", "nan"})
		}
	}
	return g.pick(g.p.scores)
}

func (g *gen) lexBound() string {
	switch g.t.Choose(7) {
	case 0:
		return "-"
	case 1:
		return "+"
	case 2, 3:
		return "[" + g.sub()
	case 4, 5:
		return "(" + g.sub()
	}
	if g.plain {
		return "-"
	}
	return g.pick([]string{g.sub(), "", "[", "("})
}

func (g *gen) limit() []string {
	if g.t.Bool(600) {
		return nil
	}
	off := g.pick([]string{"0", "1", "2"})
	cnt := g.pick([]string{"1", "2", "-1", "0", "5"})
	if !g.plain && g.t.Bool(60) {
		off = g.pick([]string{"-1", "x"})
	}
	return []string{"limit", off, cnt}
}

// several returns 1..3 draws; one time in four repetitions are allowed
// (the same member / field / key twice inside one command).
func (g *gen) several(f func() string) []string {
	n := 1 + g.t.Choose(3)
	rep := g.t.Bool(250)
	var out []string
	for i := 0; i < n; i++ {
		x := f()
		for try := 0; !rep && try < 8 && contains(out, x); try++ {
			x = f()
		}
		if !rep && contains(out, x) {
			break
		}
		out = append(out, x)
	}
	return out
}

func contains(l []string, x string) bool {
	for _, y := range l {
		if y == x {
			return true
		}
	}
	return false
}

type family struct {
	name string
	w    int
	f    func(g *gen) []string
}

func cat(a []string, b ...[]string) []string {
	out := append([]string{}, a...)
	for _, x := range b {
		out = append(out, x...)
	}
	return out
}

var families = []family{
	// ---- kv ----
	{"set", 6, func(g *gen) []string {
		a := []string{"set", g.key(), g.val()}
		if g.t.Bool(250) {
			switch g.t.Choose(5) {
			case 0:
				a = append(a, "nx")
			case 1:
				a = append(a, "xx")
			case 2:
				a = append(a, "ex", "1000000")
			case 3:
				a = append(a, "NX", "EX", "1000000")
			default:
				if g.plain {
					a = append(a, "xx")
				} else {
					a = append(a, g.pick([]string{"nx xx", "ex", "ex 0", "ex x", "px 100", "keepttl"}))
					a = append(a[:3], strings.Split(a[3], " ")...)
				}
			}
		}
		return a
	}},
	{"setex", 2, func(g *gen) []string {
		s := "1000000"
		if !g.plain && g.t.Bool(60) {
			s = g.pick([]string{"0", "-1", "x", ""})
		}
		return []string{"setex", g.key(), s, g.val()}
	}},
	{"get", 3, func(g *gen) []string { return []string{"get", g.key()} }},
	{"getset", 2, func(g *gen) []string { return []string{"getset", g.key(), g.val()} }},
	{"setnx", 2, func(g *gen) []string { return []string{"setnx", g.key(), g.val()} }},
	{"mget", 2, func(g *gen) []string { return cat([]string{"mget"}, g.several(g.key)) }},
	{"incr", 3, func(g *gen) []string { return []string{"incr", g.key()} }},
	{"incrby", 3, func(g *gen) []string { return []string{"incrby", g.key(), g.intArg()} }},
	{"decr", 1, func(g *gen) []string { return []string{"decr", g.key()} }},
	{"decrby", 1, func(g *gen) []string { return []string{"decrby", g.key(), g.intArg()} }},
	{"append", 3, func(g *gen) []string { return []string{"append", g.key(), g.val()} }},
	{"strlen", 1, func(g *gen) []string { return []string{"strlen", g.key()} }},
	{"setrange", 3, func(g *gen) []string {
		off := g.pick([]string{"0", "1", "3", "7"})
		if !g.plain && g.t.Bool(100) {
			// a negative offset is not generated: it panics the apply loop of
			// every replica (recorded finding setrange-negative-offset-panics-apply-loop)
			off = g.pick([]string{"x", "536870912", ""})
		}
		return []string{"setrange", g.key(), off, g.val()}
	}},
	{"getrange", 3, func(g *gen) []string { return []string{"getrange", g.key(), g.idx(), g.idx()} }},
	{"del", 4, func(g *gen) []string { return cat([]string{"del"}, g.several(g.key)) }},
	{"exists", 2, func(g *gen) []string { return cat([]string{"exists"}, g.several(g.key)) }},
	// ---- hash ----
	{"hset", 5, func(g *gen) []string { return []string{"hset", g.key(), g.sub(), g.val()} }},
	{"hsetnx", 2, func(g *gen) []string { return []string{"hsetnx", g.key(), g.sub(), g.val()} }},
	{"hget", 2, func(g *gen) []string { return []string{"hget", g.key(), g.sub()} }},
	{"hmset", 4, func(g *gen) []string {
		a := []string{"hmset", g.key()}
		for _, f := range g.several(g.sub) {
			a = append(a, f, g.val())
		}
		return a
	}},
	{"hmget", 2, func(g *gen) []string { return cat([]string{"hmget", g.key()}, g.several(g.sub)) }},
	{"hdel", 5, func(g *gen) []string { return cat([]string{"hdel", g.key()}, g.several(g.sub)) }},
	{"hincrby", 3, func(g *gen) []string { return []string{"hincrby", g.key(), g.sub(), g.intArg()} }},
	{"hlen", 1, func(g *gen) []string { return []string{"hlen", g.key()} }},
	{"hkeys", 1, func(g *gen) []string { return []string{"hkeys", g.key()} }},
	{"hvals", 1, func(g *gen) []string { return []string{"hvals", g.key()} }},
	{"hgetall", 1, func(g *gen) []string { return []string{"hgetall", g.key()} }},
	{"hexists", 1, func(g *gen) []string { return []string{"hexists", g.key(), g.sub()} }},
	{"hclear", 2, func(g *gen) []string { return []string{"hclear", g.key()} }},
	{"hkeyexist", 1, func(g *gen) []string { return []string{"hkeyexist", g.key()} }},
	// ---- list ----
	{"lpush", 5, func(g *gen) []string { return cat([]string{"lpush", g.key()}, g.several(g.val)) }},
	{"rpush", 5, func(g *gen) []string { return cat([]string{"rpush", g.key()}, g.several(g.val)) }},
	{"lpop", 3, func(g *gen) []string { return []string{"lpop", g.key()} }},
	{"rpop", 3, func(g *gen) []string { return []string{"rpop", g.key()} }},
	{"llen", 1, func(g *gen) []string { return []string{"llen", g.key()} }},
	{"lindex", 2, func(g *gen) []string { return []string{"lindex", g.key(), g.idx()} }},
	{"lrange", 2, func(g *gen) []string { return []string{"lrange", g.key(), g.idx(), g.idx()} }},
	{"lset", 3, func(g *gen) []string { return []string{"lset", g.key(), g.idx(), g.val()} }},
	{"ltrim", 4, func(g *gen) []string { return []string{"ltrim", g.key(), g.idx(), g.idx()} }},
	{"lclear", 2, func(g *gen) []string { return []string{"lclear", g.key()} }},
	{"lkeyexist", 1, func(g *gen) []string { return []string{"lkeyexist", g.key()} }},
	// ---- set ----
	{"sadd", 6, func(g *gen) []string { return cat([]string{"sadd", g.key()}, g.several(g.sub)) }},
	{"srem", 5, func(g *gen) []string { return cat([]string{"srem", g.key()}, g.several(g.sub)) }},
	{"scard", 1, func(g *gen) []string { return []string{"scard", g.key()} }},
	{"sismember", 1, func(g *gen) []string { return []string{"sismember", g.key(), g.sub()} }},
	{"smembers", 1, func(g *gen) []string { return []string{"smembers", g.key()} }},
	{"spop", 3, func(g *gen) []string {
		a := []string{"spop", g.key()}
		if g.t.Bool(400) {
			c := g.pick([]string{"1", "2", "5"})
			if !g.plain && g.t.Bool(100) {
				c = g.pick([]string{"0", "-1", "x"})
			}
			a = append(a, c)
		}
		return a
	}},
	{"srandmember", 2, func(g *gen) []string {
		a := []string{"srandmember", g.key()}
		if g.t.Bool(500) {
			c := g.pick([]string{"1", "2", "5"})
			if !g.plain && g.t.Bool(100) {
				c = g.pick([]string{"0", "x"})
			}
			a = append(a, c)
		}
		return a
	}},
	{"sclear", 2, func(g *gen) []string { return []string{"sclear", g.key()} }},
	{"skeyexist", 1, func(g *gen) []string { return []string{"skeyexist", g.key()} }},
	// ---- zset ----
	{"zadd", 8, func(g *gen) []string {
		a := []string{"zadd", g.key()}
		for _, m := range g.several(g.sub) {
			a = append(a, g.score(), m)
		}
		return a
	}},
	{"zscore", 1, func(g *gen) []string { return []string{"zscore", g.key(), g.sub()} }},
	{"zincrby", 4, func(g *gen) []string { return []string{"zincrby", g.key(), g.score(), g.sub()} }},
	{"zrem", 5, func(g *gen) []string { return cat([]string{"zrem", g.key()}, g.several(g.sub)) }},
	{"zcard", 1, func(g *gen) []string { return []string{"zcard", g.key()} }},
	{"zcount", 2, func(g *gen) []string { return []string{"zcount", g.key(), g.scoreBound(), g.scoreBound()} }},
	{"zrank", 1, func(g *gen) []string { return []string{"zrank", g.key(), g.sub()} }},
	{"zrevrank", 1, func(g *gen) []string { return []string{"zrevrank", g.key(), g.sub()} }},
	{"zrange", 2, func(g *gen) []string {
		a := []string{g.pick([]string{"zrange", "zrevrange"}), g.key(), g.idx(), g.idx()}
		if g.t.Bool(500) {
			a = append(a, "withscores")
		}
		return a
	}},
	{"zrangebyscore", 4, func(g *gen) []string {
		a := []string{g.pick([]string{"zrangebyscore", "zrevrangebyscore"}), g.key(), g.scoreBound(), g.scoreBound()}
		if g.t.Bool(400) {
			a = append(a, "WITHSCORES")
		}
		return cat(a, g.limit())
	}},
	{"zrangebylex", 3, func(g *gen) []string {
		return cat([]string{"zrangebylex", g.key(), g.lexBound(), g.lexBound()}, g.limit())
	}},
	{"zlexcount", 1, func(g *gen) []string { return []string{"zlexcount", g.key(), g.lexBound(), g.lexBound()} }},
	{"zremrangebyrank", 3, func(g *gen) []string { return []string{"zremrangebyrank", g.key(), g.idx(), g.idx()} }},
	{"zremrangebyscore", 3, func(g *gen) []string {
		return []string{"zremrangebyscore", g.key(), g.scoreBound(), g.scoreBound()}
	}},
	{"zremrangebylex", 3, func(g *gen) []string {
		return []string{"zremrangebylex", g.key(), g.lexBound(), g.lexBound()}
	}},
	{"zclear", 2, func(g *gen) []string { return []string{"zclear", g.key()} }},
	{"zkeyexist", 1, func(g *gen) []string { return []string{"zkeyexist", g.key()} }},
}

var famWeights = func() []int {
	w := make([]int, len(families))
	for i, f := range families {
		w[i] = f.w
	}
	return w
}()

// cmd generates one command (model form: name, table:key, args...). With a
// small probability the arity is broken (one argument dropped or a junk
// argument appended): a failed command must change nothing.
func (g *gen) cmd() []string {
	a := families[g.t.Weighted(famWeights)].f(g)
	for try := 0; try < 20 && len(a) > 1 && strings.HasSuffix(a[1], ":") && !kvCmd(a[0]); try++ {
		// collections refuse an empty key name; only strings are tried with it
		a = families[g.t.Weighted(famWeights)].f(g)
	}
	if !g.plain && g.t.Bool(30) {
		if g.t.Bool(500) && len(a) > 2 {
			a = a[:len(a)-1]
		} else {
			a = append(a, "junk")
		}
	} else if !g.plain && g.t.Bool(25) {
		// a command that fails late: its LAST field/member name is longer than
		// the limit, after valid ones were already looked at
		switch a[0] {
		case "hdel":
			if len(a) > 2 {
				a = append(append([]string{}, a...), strings.Repeat("F", 10241))
			}
		case "hmset":
			if len(a) >= 4 && len(a)%2 == 0 {
				a = append(append([]string{}, a...), strings.Repeat("F", 10241), "v")
			}
		case "zadd":
			if len(a) >= 4 && len(a)%2 == 0 {
				a = append(append([]string{}, a...), "1", strings.Repeat("F", 10241))
			}
		}
	}
	return a
}

// write generates a command that is not a pure read.
func (g *gen) write() []string {
	for {
		a := g.cmd()
		if !isRead(a[0]) {
			return a
		}
	}
}

func kvCmd(name string) bool {
	switch name {
	case "set", "setex", "get", "getset", "setnx", "append", "strlen", "setrange", "getrange", "incr", "incrby", "decr", "decrby", "del", "exists", "mget":
		return true
	}
	return false
}

func isRead(name string) bool {
	switch name {
	case "get", "exists", "mget", "strlen", "getrange", "llen", "lrange", "lindex", "lkeyexist",
		"hget", "hmget", "hexists", "hlen", "hgetall", "hkeys", "hvals", "hkeyexist",
		"scard", "sismember", "smembers", "srandmember", "skeyexist",
		"zcard", "zscore", "zrank", "zrevrank", "zrange", "zrevrange", "zrangebyscore", "zrevrangebyscore", "zcount", "zrangebylex", "zlexcount", "zkeyexist":
		return true
	}
	return false
}

func q(a []string) string {
	var sb strings.Builder
	for i, x := range a {
		if i > 0 {
			sb.WriteByte(' ')
		}
		if len(x) > 40 {
			sb.WriteString(strconv.Quote(x[:8]) + "..(" + strconv.Itoa(len(x)) + ")")
			continue
		}
		sb.WriteString(strconv.Quote(x))
	}
	return sb.String()
}
