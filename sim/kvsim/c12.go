package kvsim

import (
	"bytes"
	"fmt"
	"math"
	"sort"
	"strings"

	"github.com/youzan/ZanRedisDB/rockredis"

	"verif/sim/model"
)

// observe: everything a client can see of one (type, key): content and size.
func (s *sim) observe(x tuple) string {
	return model.Canon(s.rd(model.DumpCmd(x.typ, x.key)...)) + " size=" + model.Canon(s.rd(sizeCmd[x.typ], x.key))
}

// check12: every (type, table, key) of the pool that the last command (or
// environment event) did not address must look exactly as it did before.
func (s *sim) check12(addressed map[string]tuple, ctx string) {
	for _, x := range s.tuples {
		d := s.observe(x)
		id := x.id()
		if _, ok := addressed[id]; !ok && d != s.cache[id] {
			key := ""
			if s.envKey != "" && (x.typ == "kv" || x.typ == "hash") {
				key = s.envKey
			}
			s.c.Violate(s.prop("C12"), "other-key-changed", key, "%s: %s %q was not addressed but changed from %s to %s", ctx, x.typ, x.key, s.cache[id], d)
		}
		s.cache[id] = d
	}
}

var advType = map[string]string{"kv": "KV", "list": "LIST", "hash": "HASH", "set": "SET", "zset": "ZSET"}

// scanIsolation: a key scan of (type, table) returns exactly the keys of
// that type in that table that hold data (the empty key name may be skipped:
// scans are specified for non-empty names).
func (s *sim) scanIsolation(ctx string) {
	for _, typ := range types {
		for _, tb := range s.g.p.tables {
			var want []string
			skip := map[string]bool{"": true}
			for _, x := range s.tuples {
				if x.typ != typ || !strings.HasPrefix(x.key, tb+":") {
					continue
				}
				kn := x.key[len(tb)+1:]
				if s.taint[x.id()] != "" {
					// damaged by a recorded deviation: may or may not be listed
					skip[kn] = true
				}
				if !skip[kn] && !strings.HasPrefix(s.cache[x.id()], "(nil)") && !strings.HasPrefix(s.cache[x.id()], "[]") {
					want = append(want, kn)
				}
			}
			sort.Strings(want)
			cmds := []string{"advscan"}
			if typ == "kv" {
				cmds = append(cmds, "scan")
			}
			for _, cmd := range cmds {
				sp := scanSpec{cmd: cmd, typ: typ, table: tb, count: 3}
				if cmd == "scan" && ctx != "after end of run" {
					// chained plain SCAN is a recorded deviation; one page here
					sp.count = 100
				}
				got, pages, err := s.keyScan(sp, nil)
				var g2 []string
				for _, k := range got {
					if !skip[k] {
						g2 = append(g2, k)
					}
				}
				if err != "" || !sameStrs(g2, want) {
					key := known13(sp, "", pages, "", false)
					if key == "" && s.cfg.engine == "mem" && pages >= 2 && (strings.Contains(strings.Join(want, ""), "\x00") || strings.Contains(tb, "\x00")) {
						// mem (radix) engine: seeking to a cursor next to keys that
						// extend another key by 0x00 lands at the wrong place
						key = "memradix-nul-extended-key-seek"
					}
					s.c.Violate(s.prop("C12"), "scan-leaves-table", key, "%s: %s of %s keys in table %q returns %q (%s), the keys that hold data there are %q", ctx, strings.ToUpper(cmd), advType[typ], tb, got, err, want)
				}
			}
		}
	}
}

// ---- generator-only sub-part: the codecs ------------------------------------------
//
// No scheduler, no node: generated tuples are pushed through the exported
// order-preserving codec and the key encoders.

func (s *sim) codecBad(rule, format string, args ...interface{}) {
	s.c.Violate(s.prop("C12"), rule, "", format, args...)
}

var codecBytes = [][]byte{{}, {0}, {0, 0}, {0xff}, {0xff, 0xff}, {0, 1}, {1}, {':'}, {';'}, []byte("a"), []byte("a:b"), []byte("ab"), []byte("a\x00"),
	[]byte("1234567"), []byte("12345678"), []byte("123456789"), []byte("12345678\x00"), []byte("1234567\xff"), bytes.Repeat([]byte{0}, 8), bytes.Repeat([]byte{0xff}, 8),
	bytes.Repeat([]byte{0xff}, 9), []byte("1234567812345678"), []byte("12345678123456781")}
var codecInts = []int64{0, 1, -1, 2, 255, 256, -256, math.MaxInt64, math.MinInt64, math.MaxInt32, math.MinInt32, 1 << 40, -(1 << 40), 58, 59, 57}
var codecFloats = []float64{0, 1, -1, 0.5, -0.5, 1.5, math.MaxFloat64, -math.MaxFloat64, math.SmallestNonzeroFloat64, -math.SmallestNonzeroFloat64,
	math.Inf(1), math.Inf(-1), 1e100, -1e100, 3, 2.9999999999999996}

func (s *sim) genVal(kind int) interface{} {
	t := s.t
	switch kind {
	case 0:
		if t.Bool(700) {
			return append([]byte{}, codecBytes[t.Choose(len(codecBytes))]...)
		}
		n := t.Choose(20)
		b := make([]byte, n)
		for i := range b {
			b[i] = []byte{0, 1, 0xff, 0xfe, ':', 'a', 'b', 8, 9}[t.Choose(9)]
		}
		return b
	case 1:
		if t.Bool(700) {
			return codecInts[t.Choose(len(codecInts))]
		}
		return int64(t.U32())<<32 | int64(t.U32())
	default:
		if t.Bool(700) {
			return codecFloats[t.Choose(len(codecFloats))]
		}
		f := math.Float64frombits(uint64(t.U32())<<32 | uint64(t.U32()))
		if math.IsNaN(f) || f == 0 {
			return 1.25
		}
		return f
	}
}

func cmpVal(a, b interface{}) int {
	switch x := a.(type) {
	case []byte:
		return bytes.Compare(x, b.([]byte))
	case int64:
		y := b.(int64)
		switch {
		case x < y:
			return -1
		case x > y:
			return 1
		}
		return 0
	case float64:
		y := b.(float64)
		switch {
		case x < y:
			return -1
		case x > y:
			return 1
		}
		return 0
	}
	return 0
}

func sign(x int) int {
	switch {
	case x < 0:
		return -1
	case x > 0:
		return 1
	}
	return 0
}

func (s *sim) codecCheck() {
	t, c := s.t, s.c
	rounds := 40
	for r := 0; r < rounds && !s.fatal(); r++ {
		// a signature (types per position), two tuples of that signature
		n := 1 + t.Choose(4)
		sig := make([]int, n)
		for i := range sig {
			sig[i] = t.Choose(3)
		}
		mk := func(from []interface{}) []interface{} {
			v := make([]interface{}, n)
			for i := range v {
				if from != nil && t.Bool(500) {
					v[i] = from[i] // share a prefix / positions with the other tuple
				} else {
					v[i] = s.genVal(sig[i])
				}
			}
			return v
		}
		a := mk(nil)
		b := mk(a)
		ea, err1 := rockredis.EncodeMemCmpKey(nil, a...)
		eb, err2 := rockredis.EncodeMemCmpKey(nil, b...)
		if err1 != nil || err2 != nil {
			s.codecBad("codec-encode-failed", "EncodeMemCmpKey(%v) / (%v): %v %v", a, b, err1, err2)
			continue
		}
		c.Count("codec_tuples", 2)
		for _, p := range [][2]interface{}{{a, ea}, {b, eb}} {
			vals, enc := p[0].([]interface{}), p[1].([]byte)
			dec, err := rockredis.Decode(enc, len(vals))
			ok := err == nil && len(dec) == len(vals)
			for i := 0; ok && i < len(vals); i++ {
				ok = fmt.Sprintf("%T", dec[i]) == fmt.Sprintf("%T", vals[i]) && cmpVal(dec[i], vals[i]) == 0
			}
			if !ok {
				s.codecBad("codec-round-trip", "EncodeMemCmpKey(%#v) = %x decodes to %#v (%v)", vals, enc, dec, err)
			}
		}
		want := 0
		for i := 0; i < n && want == 0; i++ {
			want = cmpVal(a[i], b[i])
		}
		if got := sign(bytes.Compare(ea, eb)); got != want {
			s.codecBad("codec-order", "tuple order of %#v vs %#v is %d but the encodings %x vs %x compare %d", a, b, want, ea, eb, got)
		}
	}
	s.encoderCheck()
}

type encKey struct {
	what       string
	dt         byte
	table, key []byte
	enc        []byte
}

// encoderCheck: injectivity, round trip and range containment of the key
// encoders over the run's adversarial name pool plus generated names.
func (s *sim) encoderCheck() {
	t, c := s.t, s.c
	p := s.g.p
	names := func(pool []string, extra int) [][]byte {
		var out [][]byte
		seen := map[string]bool{}
		add := func(b []byte) {
			if !seen[string(b)] {
				seen[string(b)] = true
				out = append(out, b)
			}
		}
		for _, x := range pool {
			add([]byte(x))
		}
		for i := 0; i < extra; i++ {
			add(s.genVal(0).([]byte))
		}
		return out
	}
	var tables [][]byte
	for _, tb := range names(p.tables, 2) {
		if len(tb) > 0 && !bytes.Contains(tb, []byte(":")) {
			tables = append(tables, tb)
		}
	}
	var keys [][]byte
	for _, k := range names(p.keys, 3) {
		if len(k) > 0 { // collections refuse an empty key name
			keys = append(keys, k)
		}
	}
	subs := names(p.subs, 3)
	scores := []float64{codecFloats[t.Choose(len(codecFloats))], 1, 1.5}
	// list sequence numbers live in (listMinSeq, listMaxSeq) = (1000, 2^62-1000)
	seqs := []int64{1001 + int64(t.U32()), 1001, 1<<62 - 1001, 1 << 61}

	var all []encKey
	type coll struct {
		dt          byte
		table, key  []byte
		start, stop []byte
	}
	var colls []coll
	for _, tb := range tables {
		for _, k := range keys {
			full := append(append(append([]byte{}, tb...), ':'), k...)
			// kv and meta keys
			ek := rockredis.VerifEncodeKVKey(full)
			if d, err := rockredis.VerifDecodeKVKey(ek); err != nil || !bytes.Equal(d, full) {
				s.codecBad("encoder-round-trip", "kv key %q encodes to %x decodes to %q (%v)", full, ek, d, err)
			}
			all = append(all, encKey{fmt.Sprintf("kv %q", full), rockredis.KVType, tb, k, ek})
			for _, dt := range []byte{rockredis.HSizeType, rockredis.LMetaType, rockredis.SSizeType, rockredis.ZSizeType} {
				mk, err := rockredis.VerifEncodeMetaKey(dt, full)
				d, err2 := rockredis.VerifDecodeMetaKey(dt, mk)
				if err != nil || err2 != nil || !bytes.Equal(d, full) {
					s.codecBad("encoder-round-trip", "meta key type %d of %q encodes to %x decodes to %q (%v %v)", dt, full, mk, d, err, err2)
				}
				all = append(all, encKey{fmt.Sprintf("meta%d %q", dt, full), dt, tb, k, mk})
			}
			for _, dt := range []byte{rockredis.HashType, rockredis.SetType, rockredis.ZSetType} {
				st, sp := rockredis.VerifCollRange(dt, tb, k)
				colls = append(colls, coll{dt, tb, k, st, sp})
				for _, sb := range subs {
					e := rockredis.VerifEncodeCollSubKey(dt, tb, k, sb)
					ddt, dtb, dk, dsb, err := rockredis.VerifDecodeCollSubKey(e)
					if err != nil || ddt != dt || !bytes.Equal(dtb, tb) || !bytes.Equal(dk, k) || !bytes.Equal(dsb, sb) {
						s.codecBad("encoder-round-trip", "element key type %d (%q,%q,%q) encodes to %x decodes to (%d,%q,%q,%q) %v", dt, tb, k, sb, e, ddt, dtb, dk, dsb, err)
					}
					all = append(all, encKey{fmt.Sprintf("elem%d (%q,%q,%q)", dt, tb, k, sb), dt, tb, k, e})
				}
			}
			zst, zsp := rockredis.VerifCollRange(rockredis.ZScoreType, tb, k)
			colls = append(colls, coll{rockredis.ZScoreType, tb, k, zst, zsp})
			for _, sb := range subs {
				for _, sc := range scores {
					e := rockredis.VerifEncodeZScoreKey(tb, k, sb, sc)
					dtb, dk, dm, dsc, err := rockredis.VerifDecodeZScoreKey(e)
					if err != nil || !bytes.Equal(dtb, tb) || !bytes.Equal(dk, k) || !bytes.Equal(dm, sb) || dsc != sc {
						s.codecBad("encoder-round-trip", "zscore key (%q,%q,%q,%v) encodes to %x decodes to (%q,%q,%q,%v) %v", tb, k, sb, sc, e, dtb, dk, dm, dsc, err)
					}
					all = append(all, encKey{fmt.Sprintf("elem%d (%q,%q,%q,%v)", rockredis.ZScoreType, tb, k, sb, sc), rockredis.ZScoreType, tb, k, e})
				}
			}
			for _, sq := range seqs {
				e := rockredis.VerifEncodeListKey(tb, k, sq)
				dtb, dk, dsq, err := rockredis.VerifDecodeListKey(e)
				if err != nil || !bytes.Equal(dtb, tb) || !bytes.Equal(dk, k) || dsq != sq {
					s.codecBad("encoder-round-trip", "list key (%q,%q,%d) encodes to %x decodes to (%q,%q,%d) %v", tb, k, sq, e, dtb, dk, dsq, err)
				}
				all = append(all, encKey{fmt.Sprintf("elem%d (%q,%q,%d)", rockredis.ListType, tb, k, sq), rockredis.ListType, tb, k, e})
			}
		}
	}
	c.Count("encoder_keys", int64(len(all)))
	// injectivity
	sort.SliceStable(all, func(i, j int) bool { return bytes.Compare(all[i].enc, all[j].enc) < 0 })
	for i := 1; i < len(all); i++ {
		if bytes.Equal(all[i].enc, all[i-1].enc) && all[i].what != all[i-1].what {
			s.codecBad("encoder-not-injective", "%s and %s both encode to %x", all[i-1].what, all[i].what, all[i].enc)
			break
		}
	}
	// a collection's range holds exactly its own element keys
	for _, cl := range colls {
		for _, e := range all {
			in := bytes.Compare(e.enc, cl.start) >= 0 && bytes.Compare(e.enc, cl.stop) <= 0
			own := e.dt == cl.dt && bytes.Equal(e.table, cl.table) && bytes.Equal(e.key, cl.key)
			if in != own {
				s.codecBad("encoder-range", "range [%x,%x] of collection type %d (%q,%q): contains=%v for %s = %x", cl.start, cl.stop, cl.dt, cl.table, cl.key, in, e.what, e.enc)
				break
			}
		}
	}
	// a table's delete ranges hold exactly the keys of that table
	dts := []byte{rockredis.KVType, rockredis.HashType, rockredis.ListType, rockredis.SetType, rockredis.ZSetType}
	mts := []byte{rockredis.KVType, rockredis.HSizeType, rockredis.LMetaType, rockredis.SSizeType, rockredis.ZSizeType}
	for _, tb := range tables {
		var rgs [][2][]byte
		for i, dt := range dts {
			r, err := rockredis.VerifTableDataRange(dt, tb)
			if err != nil {
				s.codecBad("encoder-range", "table data range of %q type %d: %v", tb, dt, err)
				continue
			}
			rgs = append(rgs, r...)
			a, b, err := rockredis.VerifTableMetaRange(mts[i], tb)
			if err != nil {
				s.codecBad("encoder-range", "table meta range of %q type %d: %v", tb, dt, err)
				continue
			}
			rgs = append(rgs, [2][]byte{a, b})
		}
		for _, e := range all {
			in := false
			for _, r := range rgs {
				if bytes.Compare(e.enc, r[0]) >= 0 && bytes.Compare(e.enc, r[1]) < 0 {
					in = true
				}
			}
			own := bytes.Equal(e.table, tb)
			if in != own {
				s.codecBad("encoder-range", "whole-table delete ranges of %q: contains=%v for %s = %x", tb, in, e.what, e.enc)
				break
			}
		}
	}
}
