package kvsim

import (
	"math"
	"strconv"
	"strings"
	"unicode/utf8"

	"verif/sim/model"
)

// Recorded deviations of the implementation from the documented / Redis
// behaviour (candidate genuine defects; none of them is documented in
// doc/user-guide.md). Each is recognised by the shape of the command and by
// what the reference model expects — never by what the implementation
// answered — and a violation observed on exactly that command carries the
// deviation's known-finding key. Keys that a damaging shape was executed on
// are excluded from further judgement for the rest of the run.

func dupIn(a []string) bool {
	seen := map[string]bool{}
	for _, x := range a {
		if seen[x] {
			return true
		}
		seen[x] = true
	}
	return false
}

func isErr(v interface{}, containing string) bool {
	e, ok := v.(model.Err)
	return ok && strings.Contains(string(e), containing)
}

// lenientInt: accepted by Go's strconv.ParseInt but not by Redis' string2ll
// ("+5", "007", "-0").
func lenientInt(s string) bool {
	_, err := strconv.ParseInt(s, 10, 64)
	return err == nil
}

func scoreInf(s string) int {
	s = strings.TrimPrefix(s, "(")
	f, err := strconv.ParseFloat(s, 64)
	if err != nil {
		return 0
	}
	if math.IsInf(f, 1) {
		return 1
	}
	if math.IsInf(f, -1) {
		return -1
	}
	return 0
}

// knownShape returns the known-finding key of a command shape ("" if none).
// want is the model's reply (nil when no model runs), st the model state
// after the command, preLen the length the addressed list had before the
// command as the harness read it (-1: not known, e.g. inside a batch).
func knownShape(args []string, want interface{}, st *model.Store, pre preState, engine string) string {
	_ = pre.listLen
	name := args[0]
	a := args[1:]
	if model.MultiKey(name) {
		for _, k := range a {
			if strings.IndexByte(k, ':') <= 0 {
				return "malformed-key-in-multi-key-command-not-rejected"
			}
		}
	}
	// score arguments
	switch name {
	// (ZADD/ZINCRBY with NaN and ZINCRBY leaving the score unchanged were
	// recorded deviations; repaired in /repo (dce9135, f3f6abd), so their shapes
	// are judged like everything else)
	case "zrangebyscore", "zrevrangebyscore", "zcount", "zremrangebyscore":
		if len(a) >= 3 {
			for _, b := range a[1:3] {
				if scoreInf(b) != 0 && !strings.EqualFold(b, "-inf") && !strings.EqualFold(b, "+inf") {
					return "score-range-inf-accepted-only-as-minus-inf-or-plus-inf"
				}
			}
		}
	}
	// (repeated members/fields inside one command and LTRIM before the head
	// were recorded deviations; repaired in /repo (831f444, 4198947))
	switch name {
	case "spop", "srandmember":
		if len(a) == 2 && a[1] == "0" {
			return "spop-srandmember-count-zero-is-an-error"
		}
	}
	switch name {
	case "decr", "decrby":
		return "decr-documented-but-not-registered"
	case "srandmember":
		if len(a) == 1 {
			return "srandmember-without-count-returns-array"
		}
	case "append":
		if len(a) == 2 && a[1] == "" {
			return "append-empty-value-returns-0"
		}
	case "setrange":
		if len(a) == 3 && a[2] == "" {
			return "setrange-empty-value-returns-0"
		}
		if len(a) > 3 {
			return "setrange-extra-arguments-ignored"
		}
	case "incr", "incrby", "hincrby":
		if isErr(want, "not int") && st != nil {
			// the stored value and the increment are integers for Go's ParseInt
			cur, inc := "0", "1"
			switch name {
			case "incr":
				if v, ok := st.KV[a[0]]; ok {
					cur = v
				}
			case "incrby":
				if v, ok := st.KV[a[0]]; ok {
					cur = v
				}
				if len(a) == 2 {
					inc = a[1]
				}
			case "hincrby":
				if len(a) == 3 {
					if v, ok := st.Hash[a[0]][a[1]]; ok {
						cur = v
					}
					inc = a[2]
				}
			}
			if lenientInt(cur) && lenientInt(inc) {
				return "integer-parse-accepts-plus-sign-and-leading-zeros"
			}
		}
	case "zrangebyscore", "zrevrangebyscore", "zcount", "zremrangebyscore":
		if len(a) >= 3 {
			lo, hi := a[1], a[2]
			if name == "zrevrangebyscore" {
				lo, hi = a[2], a[1]
			}
			if _, bad := want.(model.Err); !bad && (scoreInf(lo) > 0 || scoreInf(hi) < 0) {
				return "score-range-with-inf-on-the-far-side-is-an-error"
			}
		}
	case "zrangebylex", "zlexcount", "zremrangebylex":
		if len(a) >= 3 {
			if _, bad := want.(model.Err); !bad && (a[1] == "+" || a[2] == "-") {
				return "lex-range-with-plus-as-min-or-minus-as-max-is-an-error"
			}
			// mem (radix) engine only (engsim's C20 finding): a seek goes wrong
			// when a stored key P followed by 0x00 is a prefix of another stored
			// key or of the seek target; here P is a member of the sorted set
			// (possibly the empty one) and the other key a member or a bound
			if engine == "mem" && nulExtended(pre.zmembers, a[1], a[2]) {
				return "memradix-nul-extended-key-seek"
			}
		}
	}
	return ""
}

// known13: recorded deviations of the scan commands, recognised by the shape
// of the iteration (nul: some element name in scope or the start cursor
// contains a 0x00 byte).
func known13(sp scanSpec, rule string, pages int, engine string, nul bool) string {
	switch {
	// (the doubled table in the cursor of plain SCAN and the merged reverse scan
	// without COUNT were recorded deviations; repaired in /repo (f29eaef, dab5341))
	case strings.Contains(sp.match, "\x00") || (sp.match != "" && sp.qualified && strings.Contains(sp.table, "\x00")):
		// the glob library ends the pattern at a 0x00 byte
		return "glob-pattern-cut-at-nul-byte"
	case sp.keyScan() && sp.match != "" && !sp.qualified:
		// the pattern is matched against table:key, not against the key name
		return "key-scan-match-applied-to-table-prefixed-key"
	case engine == "mem" && nul:
		return "memradix-nul-extended-key-seek"
	}
	return ""
}

// damaging: deviations after which the stored representation of the key is
// inconsistent (size counter, index entries), so that nothing read from the
// key later can be judged.
func damaging(key string) bool {
	switch key {
	case "sadd-duplicate-member-counted-twice", "srem-duplicate-member-counted-twice", "zrem-duplicate-member-counted-twice",
		"zadd-duplicate-member-in-one-command", "hmset-duplicate-field-counted-twice", "hdel-duplicate-field-counted-twice",
		"nan-score-accepted", "zincrby-unchanged-score-drops-member-from-score-index", "ltrim-range-before-head-errors-and-corrupts-the-list":
		return true
	}
	return false
}

// preState: ground truth read by the harness before a single command, used
// only to recognise the shapes of recorded deviations.
type preState struct {
	zmembers []string // members of the addressed sorted set before a lexicographic range command (from the model)
	known    bool
	listLen  int // -1: not known
	zhad     bool
	zscore   float64
}

// batchable: the write commands the state machine collects into one shared
// write batch (rockredis batchableCmds; DEL only with a single key).
func batchable(args []string) bool {
	switch args[0] {
	case "set", "setex", "hmset":
		return true
	case "del":
		return len(args) == 2
	}
	return false
}

// laterFailingSetex: a SETEX whose expire time is only rejected when it is
// applied (it is not validated before it is proposed).
func laterFailingSetex(cmds [][]string) bool {
	// repaired in /repo (redo of the aborted batch): a failing SETEX no longer
	// takes its neighbours down, neither live nor on replay
	if true {
		return false
	}
	for _, a := range cmds {
		if a[0] == "setex" && len(a) == 4 {
			if n, err := strconv.ParseInt(a[2], 10, 64); err != nil || n <= 0 {
				return true
			}
		}
	}
	return false
}

// panicShape: the write commands the slow-write limiter watches (node
// maybeSlowCmd) use the table name as a metrics label; a table name that is
// not valid UTF-8 panics there. The server recovers, closes the connection
// and the command is not executed.
func slowCmd(name string) bool {
	switch name {
	case "spop", "zremrangebyrank", "zremrangebyscore", "zremrangebylex", "ltrim", "sclear", "zclear", "lclear", "hclear":
		return true
	}
	return false
}

func panicShape(args []string) string {
	// repaired in /repo (f493c67: the label is made valid UTF-8)
	if false && slowCmd(args[0]) {
		if len(args) > 1 {
			if i := strings.IndexByte(args[1], ':'); i > 0 && !utf8.ValidString(args[1][:i]) {
				return "non-utf8-table-name-panics-in-slow-write-metrics"
			}
		}
	}
	return ""
}

// nulExtended: some member P of ms, followed by 0x00, is a prefix of another
// member or of one of the range bounds.
func nulExtended(ms []string, bounds ...string) bool {
	var others []string
	others = append(others, ms...)
	for _, b := range bounds {
		if len(b) > 0 && (b[0] == '[' || b[0] == '(') {
			others = append(others, b[1:])
		}
	}
	for _, p := range ms {
		for _, o := range others {
			if o != p && strings.HasPrefix(o, p+"\x00") {
				return true
			}
		}
	}
	return false
}
