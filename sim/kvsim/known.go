package kvsim

// Recorded deviations of the implementation from the documented / Redis
// behaviour. Each is recognised by the shape of the command alone (never by
// looking at what the implementation answered), reported under its own
// known-finding key, and the model is resynchronised for the addressed key so
// that checking continues.

// knownReply: known-finding key for a reply mismatch on this command shape.
func knownReply(args []string, got, want interface{}) string { return "" }

// knownData: known-finding key for a content mismatch of x after this command.
func knownData(args []string, x tuple) string { return "" }

func known09(rule string) string { return "" }

func known13(sp scanSpec, rule string) string { return "" }
