// Package syncsim decides C19: a destination cluster of real KVNode replicas
// (nodeh) in syncer-only mode receives the raft log of a source cluster
// through the real server.ApplyRaftReqs / GetSyncedRaft entry points from a
// simulated syncer that re-sends, overlaps, duplicates and retries batches
// while the destination suffers message loss, kills, restarts and leader
// transfers. Every source entry appends its own index to a list, so the final
// data shows exactly which entries were applied, how often and in what order.
package syncsim

import (
	"context"
	"fmt"
	"strconv"
	"strings"
	"testing"
	"testing/synctest"
	"time"

	"github.com/youzan/ZanRedisDB/common"
	"github.com/youzan/ZanRedisDB/node"
	"github.com/youzan/ZanRedisDB/raft"
	"github.com/youzan/ZanRedisDB/raft/raftpb"
	"github.com/youzan/ZanRedisDB/syncerpb"

	"verif/sim/core"
	"verif/sim/nodeh"
)

var Engine = core.Engine{Name: "syncsim", Run: Run}

const srcCluster = "src"
const grpName = "default-0"

type srcEntry struct {
	term, index uint64
	ts          int64
	data        []byte // marshalled BatchInternalRaftRequest
}

type cfg struct {
	machines                                            int
	engine                                              string
	snapCount, catchup                                  int
	nsrc                                                int
	maxBatch                                            int
	adversarial                                         bool
	wrongLeaderPm                                       int
	dropPm, reorderPm                                   int
	events                                              int
	wSync, wTick, wDeliver, wKill, wRestart, wTransfer  int
	wSyncerRestart, wStale, wOverlap, wDupCall, wSleep  int
	gapPm                                               int
}

type call struct {
	from, to int // offsets into src (half-open)
	machine  int
	incarn   int
	done     chan struct{}
	errCode  int32
	errMsg   string
	err      error
	dead     bool
	primary  bool // the syncer's own in-order call (others are adversarial extras)
}

type sim struct {
	c   *core.RunCtx
	t   *core.Tape
	cfg cfg
	cl  *nodeh.Cluster
	src []srcEntry
	pos int // next offset the syncer will send
	calls []*call
	// ground truth for known finding "syncer-partial-batch-skip": pairs (i<j)
	// that were sent in one ApplyRaftReqs call
	coBatched map[[2]uint64]bool
	maxSeen   uint64 // highest synced index ever observed on any replica
	lastSeen  map[string]uint64
	ncalls    int
	okcalls   int
}

func pick(t *core.Tape, vals ...int) int { return vals[t.Choose(len(vals))] }

func drawCfg(c *core.RunCtx) cfg {
	t := c.Tape
	var g cfg
	g.machines = pick(t, 3, 3, 1, 3)
	g.engine = []string{"mem", "pebble"}[pick(t, 0, 0, 0, 1)]
	g.snapCount = pick(t, 10, 5, 20)
	g.catchup = pick(t, 3, 2, 5)
	g.nsrc = pick(t, 40, 80, 150)
	g.maxBatch = pick(t, 3, 1, 5, 8)
	g.adversarial = t.Choose(2) == 1
	g.wrongLeaderPm = pick(t, 0, 200, 500)
	g.dropPm = pick(t, 0, 0, 30, 100)
	g.reorderPm = pick(t, 0, 100, 300)
	g.events = pick(t, 600, 1000, 1500)
	if c.Tier == "thorough" {
		g.events = pick(t, 1000, 2000, 4000)
		g.nsrc = pick(t, 80, 150, 300)
	}
	g.wSync = pick(t, 150, 250)
	g.wTick = pick(t, 200, 300)
	g.wDeliver = pick(t, 400, 500)
	g.wKill = pick(t, 0, 1, 3)
	g.wRestart = pick(t, 10, 30)
	g.wTransfer = pick(t, 0, 0, 3)
	g.wSyncerRestart = pick(t, 0, 2, 5)
	g.wSleep = pick(t, 5, 20)
	g.gapPm = pick(t, 0, 50, 150)
	if g.adversarial {
		g.wStale = pick(t, 5, 15)
		g.wOverlap = pick(t, 5, 15)
		g.wDupCall = pick(t, 0, 5, 10)
	}
	if g.machines == 1 {
		g.dropPm, g.wTransfer, g.wrongLeaderPm = 0, 0, 0
	}
	return g
}

func rawCmd(args ...string) []byte {
	bs := make([][]byte, len(args))
	for i, a := range args {
		bs[i] = []byte(a)
	}
	return common.BuildCommand(bs).Raw
}

// genSource builds the source log: strictly increasing indexes (with gaps
// where the source had conf-change entries), non-decreasing terms.
func (s *sim) genSource() {
	t := s.t
	term, index := uint64(2), uint64(0)
	ts := time.Now().UnixNano()
	for i := 0; i < s.cfg.nsrc; i++ {
		index++
		if t.Bool(s.cfg.gapPm) {
			index += uint64(1 + t.Choose(2))
		}
		if t.Bool(40) {
			term++
		}
		ts += int64(1+t.Choose(5)) * int64(time.Millisecond)
		var b node.BatchInternalRaftRequest
		b.Timestamp = ts
		b.OrigCluster = srcCluster
		b.Type = node.FromClusterSyncer
		add := func(raw []byte) {
			b.Reqs = append(b.Reqs, node.InternalRaftRequest{Header: node.RequestHeader{ID: uint64(1000 + len(b.Reqs)), DataType: int32(node.RedisReq), Timestamp: ts}, Data: raw})
		}
		// every entry records itself; non-idempotent companions
		add(rawCmd("rpush", "t:log", "e"+strconv.FormatUint(index, 10)))
		if t.Bool(600) {
			add(rawCmd("incrby", "t:sum", strconv.FormatUint(index, 10)))
		}
		if t.Bool(300) {
			add(rawCmd("append", "t:str", "x"))
		}
		b.ReqNum = int32(len(b.Reqs))
		d, _ := b.Marshal()
		s.src = append(s.src, srcEntry{term: term, index: index, ts: ts, data: d})
	}
}

func Run(c *core.RunCtx) {
	s := &sim{c: c, t: c.Tape, coBatched: map[[2]uint64]bool{}, lastSeen: map[string]uint64{}}
	s.cfg = drawCfg(c)
	raft.VerifSeedGlobalRand(int64(c.Tape.U32()))
	c.Log("cfg", "%+v", s.cfg)
	func() {
		defer func() {
			if e := recover(); e != nil {
				if strings.Contains(fmt.Sprint(e), "deadlock: main bubble goroutine has exited") {
					c.Count("infra.bubble_leftover_goroutines", 1)
					return
				}
				panic(e)
			}
		}()
		synctest.Test(c.T, func(t *testing.T) {
			node.SetSyncerOnly(true)
			defer node.SetSyncerOnly(false)
			s.bubble()
		})
	}()
	nf := c.Stats["fault.kill"] + c.Stats["fault.drop"] + c.Stats["fault.leader_transfer"] + c.Stats["fault.syncer_restart"] + c.Stats["fault.stale_resend"] + c.Stats["fault.overlap_batch"] + c.Stats["fault.wrong_leader"]
	c.NonTrivial = s.okcalls >= 5 && nf > 0
	c.Count("apply_calls", int64(s.ncalls))
	c.Count("apply_calls_ok", int64(s.okcalls))
	c.Sample = map[string]interface{}{"config": fmt.Sprintf("%+v", s.cfg), "source_entries": len(s.src), "calls": s.ncalls, "calls_ok": s.okcalls,
		"max_synced_index": s.maxSeen}
}

func (s *sim) ups() []*nodeh.Machine {
	var out []*nodeh.Machine
	for _, m := range s.cl.M {
		if m.Up {
			out = append(out, m)
		}
	}
	return out
}

func (s *sim) bubble() {
	c, t, g := s.c, s.t, s.cfg
	cl := nodeh.New(c, nodeh.Options{Machines: g.machines, Partitions: 1, Replicas: g.machines, Engine: g.engine,
		SnapCount: g.snapCount, SnapCatchup: g.catchup, KeepBackup: 3})
	s.cl = cl
	defer cl.Close()
	s.genSource()
	cl.PumpFair(80, func() bool { return cl.Leader(0) >= 0 })
	if cl.Leader(0) < 0 {
		c.Violate("C19", "no-initial-leader", "", "no leader after 80 fair rounds")
		return
	}
	w := []int{g.wSync, g.wTick, g.wDeliver, g.wKill, g.wRestart, g.wTransfer, g.wSyncerRestart, g.wStale, g.wOverlap, g.wDupCall, g.wSleep}
	ev := 0
	for ; ev < g.events && len(c.Viol) == 0; ev++ {
		cl.Clock = int64(ev)
		s.event(t.Weighted(w))
		s.poll()
		s.observe(false)
	}
	c.Events = int64(ev)
	// ---- settle ----
	c.Log("settle", "")
	for _, m := range cl.M {
		if !m.Up {
			if err := cl.Restart(m); err != nil {
				c.Violate("C19", "restart-failed", "", "machine %d: %v", m.Idx, err)
				return
			}
		}
	}
	// the syncer finishes its work in order, one batch at a time, to the real leader
	idle := func() bool {
		for _, x := range s.calls {
			if !x.dead && !isDone(x) {
				return false
			}
		}
		return true
	}
	for round := 0; round < 3000 && len(c.Viol) == 0; round++ {
		for _, m := range cl.M {
			if len(cl.SelfStopped(m)) > 0 {
				cl.ReviveSelfStopped(m)
			}
		}
		cl.PumpFair(1, nil)
		s.poll()
		if !idle() {
			continue
		}
		// the syncer does not outrun a replica that is catching up (with
		// snapshots every few entries a laggard would chase purged checkpoints)
		lag := false
		if l := cl.Leader(0); l >= 0 {
			la := cl.M[l].Parts[0].Node.GetAppliedIndex()
			for _, m := range cl.M {
				if m.Up && m.Parts[0].Node.GetAppliedIndex()+3 < la && !cl.BackpressureStuck(m, 0) {
					lag = true
				}
			}
		}
		if lag {
			continue
		}
		if l := cl.Leader(0); l >= 0 {
			// resume like a restarted syncer: from the leader's synced position
			_, idx, _ := cl.M[l].Parts[0].Node.GetRemoteClusterSyncedRaft(srcCluster)
			p := len(s.src)
			for i, e := range s.src {
				if e.index > idx {
					p = i
					break
				}
			}
			if p >= len(s.src) {
				break
			}
			to := min(len(s.src), p+1+s.t.Choose(s.cfg.maxBatch))
			s.send(cl.M[l], p, to, true)
		}
	}
	for k := 0; k < 5; k++ {
		for _, m := range cl.M {
			if len(cl.SelfStopped(m)) > 0 {
				cl.ReviveSelfStopped(m)
			}
		}
		cl.PumpFair(60, nil)
	}
	cl.PumpFair(100, func() bool {
		var a uint64
		for i, m := range cl.M {
			x := m.Parts[0].Node.GetAppliedIndex()
			if i == 0 {
				a = x
			} else if x != a {
				return false
			}
		}
		return cl.Leader(0) >= 0
	})
	s.poll()
	c.SimMs = int64(time.Since(time.Date(2000, 1, 1, 0, 0, 0, 0, time.UTC)) / time.Millisecond)
	s.observe(true)
	if len(c.Viol) > 0 {
		return
	}
	s.finalCheck()
}

func isDone(x *call) bool {
	select {
	case <-x.done:
		return true
	default:
		return false
	}
}

// send starts one ApplyRaftReqs call carrying src[from:to] on machine m.
func (s *sim) send(m *nodeh.Machine, from, to int, primary bool) {
	if from >= to || !m.Up {
		return
	}
	reqs := &syncerpb.RaftReqs{}
	for i := from; i < to; i++ {
		e := s.src[i]
		reqs.RaftLog = append(reqs.RaftLog, syncerpb.RaftLogData{Type: syncerpb.EntryNormalRaw, ClusterName: srcCluster, RaftGroupName: grpName,
			Term: e.term, Index: e.index, RaftTimestamp: e.ts, Data: append([]byte(nil), e.data...)})
		for j := i + 1; j < to; j++ {
			s.coBatched[[2]uint64{e.index, s.src[j].index}] = true
		}
	}
	x := &call{from: from, to: to, machine: m.Idx, incarn: m.Incarn, done: make(chan struct{}), primary: primary}
	s.calls = append(s.calls, x)
	s.ncalls++
	srv := m.Srv
	s.c.Log("call", "m%d src[%d:%d) idx %d..%d primary=%v", m.Idx, from, to, s.src[from].index, s.src[to-1].index, primary)
	go func() {
		defer close(x.done)
		rsp, err := srv.ApplyRaftReqs(context.Background(), reqs)
		x.err = err
		if rsp != nil {
			x.errCode, x.errMsg = rsp.ErrCode, rsp.ErrMsg
		}
	}()
	synctest.Wait()
}

func (s *sim) primaryBusy() bool {
	for _, x := range s.calls {
		if x.primary && !x.dead && !isDone(x) {
			return true
		}
	}
	return false
}

func (s *sim) pickTarget() *nodeh.Machine {
	ups := s.ups()
	if len(ups) == 0 {
		return nil
	}
	if l := s.cl.Leader(0); l >= 0 && !s.t.Bool(s.cfg.wrongLeaderPm) {
		return s.cl.M[l]
	}
	s.c.Fault("wrong_leader")
	return ups[s.t.Choose(len(ups))]
}

func (s *sim) event(kind int) {
	c, t, cl := s.c, s.t, s.cl
	switch kind {
	case 0: // the syncer sends its next batch (one at a time, retried until it succeeds)
		if s.primaryBusy() || s.pos >= len(s.src) {
			return
		}
		m := s.pickTarget()
		if m == nil {
			return
		}
		to := min(len(s.src), s.pos+1+t.Choose(s.cfg.maxBatch))
		s.send(m, s.pos, to, true)
	case 1:
		ups := s.ups()
		if len(ups) == 0 {
			return
		}
		m := ups[t.Choose(len(ups))]
		c.Log("tick", "m%d", m.Idx)
		cl.Tick(m)
		cl.Sleep(time.Duration(100/len(cl.M)) * time.Millisecond)
	case 2:
		s.deliverOne()
	case 3: // kill -9 (a majority stays)
		ups := s.ups()
		if len(ups) == 0 || (s.cfg.machines > 1 && len(ups)-1 < s.cfg.machines/2+1) {
			return
		}
		m := ups[t.Choose(len(ups))]
		if l := cl.Leader(0); l >= 0 && t.Bool(500) {
			m = cl.M[l]
		}
		c.Fault("kill")
		c.Log("kill", "m%d", m.Idx)
		cl.Kill(m)
		for _, x := range s.calls {
			if x.machine == m.Idx && x.incarn == m.Incarn && !isDone(x) {
				x.dead = true
			}
		}
	case 4:
		for _, m := range cl.M {
			if !m.Up {
				c.Log("restart", "m%d", m.Idx)
				if err := cl.Restart(m); err != nil {
					c.Violate("C19", "restart-failed", "", "machine %d: %v", m.Idx, err)
				}
				return
			}
		}
	case 5:
		l := cl.Leader(0)
		ups := s.ups()
		if l < 0 || len(ups) < 2 {
			return
		}
		to := ups[t.Choose(len(ups))]
		if to.Idx == l {
			return
		}
		c.Fault("leader_transfer")
		c.Log("transfer", "m%d -> m%d", l, to.Idx)
		cl.M[l].Parts[0].TransferMyLeader(cl.NodeID(to.Idx), nodeh.ReplicaID(0, to.Idx))
		synctest.Wait()
	case 6: // syncer restart: forget the call in flight, resume from GetSyncedRaft of some replica
		ups := s.ups()
		if len(ups) == 0 {
			return
		}
		for _, x := range s.calls {
			if x.primary && !isDone(x) {
				x.primary = false // abandoned: its result is never looked at
			}
		}
		m := ups[t.Choose(len(ups))]
		rsp, err := m.Srv.GetSyncedRaft(context.Background(), &syncerpb.SyncedRaftReq{ClusterName: srcCluster, RaftGroupName: grpName})
		if err != nil {
			return
		}
		p := len(s.src)
		for i, e := range s.src {
			if e.index > rsp.Index {
				p = i
				break
			}
		}
		s.pos = p
		c.Fault("syncer_restart")
		c.Log("syncer-restart", "asked m%d -> synced %d-%d, resume at src[%d]", m.Idx, rsp.Term, rsp.Index, p)
	case 7: // adversarial: stale re-send of an old batch
		if s.pos == 0 {
			return
		}
		m := s.pickTarget()
		if m == nil {
			return
		}
		from := t.Choose(s.pos)
		to := min(s.pos, from+1+t.Choose(s.cfg.maxBatch))
		c.Fault("stale_resend")
		s.send(m, from, to, false)
	case 8: // adversarial: batch overlapping the synced position
		if s.pos == 0 || s.pos >= len(s.src) {
			return
		}
		m := s.pickTarget()
		if m == nil {
			return
		}
		from := s.pos - 1 - t.Choose(min(s.pos, 3))
		if from < 0 {
			from = 0
		}
		to := min(len(s.src), s.pos+1+t.Choose(s.cfg.maxBatch))
		c.Fault("overlap_batch")
		s.send(m, from, to, false)
	case 9: // adversarial: a second concurrent call with the same entries as the one in flight
		for _, x := range s.calls {
			if x.primary && !x.dead && !isDone(x) {
				m := s.pickTarget()
				if m == nil {
					return
				}
				c.Fault("concurrent_duplicate_call")
				s.send(m, x.from, x.to, false)
				return
			}
		}
	case 10:
		d := time.Duration(1+t.Choose(20)) * 100 * time.Millisecond
		c.Log("sleep", "%v", d)
		cl.Sleep(d)
	}
}

func (s *sim) deliverOne() {
	c, t, cl := s.c, s.t, s.cl
	ms := cl.TakeOut()
	if len(ms) == 0 {
		return
	}
	nodeh.Canon(ms)
	k := 0
	if t.Bool(s.cfg.reorderPm) {
		k = t.Choose(len(ms))
	}
	m := ms[k]
	rest := append(append([]nodeh.Msg{}, ms[:k]...), ms[k+1:]...)
	cl.PutBack(rest)
	to, _ := cl.TargetOf(&m)
	if m.Snap && cl.Clock-m.Born > 60 {
		cl.ReportSnap(m, false)
		return
	}
	if t.Bool(s.cfg.dropPm) {
		c.Fault("drop")
		if m.M.Type == raftpb.MsgProp {
			c.Probe("forwarded_proposal_dropped")
		}
		c.Log("drop", "m%d->m%d %v", m.From, to, m.M.Type)
		if m.Snap {
			cl.ReportSnap(m, false)
		}
		return
	}
	ok := cl.Deliver(m)
	c.Log("deliver", "m%d->m%d %v t=%d i=%d n=%d ok=%v", m.From, to, m.M.Type, m.M.Term, m.M.Index, len(m.M.Entries), ok)
}

// poll looks at finished calls: the syncer advances after a success and
// retries the same batch after a failure.
func (s *sim) poll() {
	var keep []*call
	for _, x := range s.calls {
		if x.dead {
			s.c.Log("call-lost", "src[%d:%d)", x.from, x.to)
			continue
		}
		if !isDone(x) {
			keep = append(keep, x)
			continue
		}
		ok := x.err == nil && x.errCode == 0 && x.errMsg == ""
		s.c.Log("call-done", "src[%d:%d) primary=%v ok=%v %d %s %v", x.from, x.to, x.primary, ok, x.errCode, x.errMsg, x.err)
		if ok {
			s.okcalls++
			if x.primary && x.to > s.pos {
				s.pos = x.to
			}
		}
	}
	s.calls = keep
}

// observe checks the synced position of every live replica.
func (s *sim) observe(settled bool) {
	for _, m := range s.cl.M {
		if !m.Up || m.Parts[0] == nil {
			continue
		}
		_, idx, _ := m.Parts[0].Node.GetRemoteClusterSyncedRaft(srcCluster)
		k := fmt.Sprintf("m%d.%d", m.Idx, m.Incarn)
		if prev, ok := s.lastSeen[k]; ok && idx < prev {
			s.c.Violate("C19", "position-backwards", "", "replica %s reported synced index %d after %d", k, idx, prev)
		}
		s.lastSeen[k] = idx
		if idx > s.maxSeen {
			s.maxSeen = idx
		}
	}
}

func (s *sim) finalCheck() {
	c, cl := s.c, s.cl
	l := cl.Leader(0)
	if l < 0 {
		c.Violate("C19", "no-settle", "", "no leader after settling")
		return
	}
	// replicas that converged agree on the position; a replica that did not
	// converge is not C19's business unless nobody knows why
	la := cl.M[l].Parts[0].Node.GetAppliedIndex()
	_, S, _ := cl.M[l].Parts[0].Node.GetRemoteClusterSyncedRaft(srcCluster)
	var conv []*nodeh.Machine
	for _, m := range cl.M {
		if m.Parts[0].Node.GetAppliedIndex() != la {
			if cl.BackpressureStuck(m, 0) {
				c.Probe("replica_stuck_by_backpressure_excluded")
				continue
			}
			c.Violate("C19", "no-settle", "", "machine %d did not converge (applied %d, leader %d)", m.Idx, m.Parts[0].Node.GetAppliedIndex(), la)
			return
		}
		conv = append(conv, m)
		_, idx, _ := m.Parts[0].Node.GetRemoteClusterSyncedRaft(srcCluster)
		if idx != S {
			c.Violate("C19", "position-differs", "", "after settling machine %d reports synced index %d, the leader (machine %d) reports %d at equal applied index %d", m.Idx, idx, l, S, la)
			return
		}
	}
	if S < s.maxSeen {
		// the same exclusion for the leader itself: when so many followers are
		// stuck behind the back-pressure threshold (known finding of C04/C06:
		// they drop every MsgApp, including the commit index) that the leader
		// has no majority left, it cannot commit - and so not apply - what an
		// earlier leader had already applied
		nonStuck := 0
		for _, m := range cl.M {
			if !cl.BackpressureStuck(m, 0) {
				nonStuck++
			}
		}
		if nonStuck*2 <= len(cl.M) {
			c.Probe("cluster_stuck_by_backpressure_excluded")
			return
		}
		c.Violate("C19", "position-lost", "", "synced index %d after settling is below %d observed earlier (restart/snapshot lost the position)", S, s.maxSeen)
		return
	}
	// what was applied, read from every replica
	var want []string
	var wantSum uint64
	for _, e := range s.src {
		if e.index <= S {
			want = append(want, "e"+strconv.FormatUint(e.index, 10))
		}
	}
	_ = wantSum
	for _, m := range conv {
		h, _ := m.Parts[0].Node.GetHandler("lrange")
		conn := &nodeh.CapConn{}
		h(conn, nodeh.Cmd("lrange", "default:t:log", "0", "-1"))
		r, _ := conn.Result()
		arr, _ := r.([]interface{})
		var got []string
		for _, x := range arr {
			if b, ok := x.([]byte); ok {
				got = append(got, string(b))
			}
		}
		c.Log("final", "m%d synced=%d applied=%d entries", m.Idx, S, len(got))
		count := map[string]int{}
		for _, g := range got {
			count[g]++
		}
		var missing, repeated, beyond []string
		wantSet := map[string]bool{}
		for _, w := range want {
			wantSet[w] = true
			if count[w] == 0 {
				missing = append(missing, w)
			} else if count[w] > 1 {
				repeated = append(repeated, fmt.Sprintf("%s x%d", w, count[w]))
			}
		}
		for _, g := range got {
			if !wantSet[g] {
				beyond = append(beyond, g)
			}
		}
		if len(repeated) > 0 {
			c.Violate("C19", "entry-repeated", "", "machine %d applied source entries more than once: %v (synced index %d)", m.Idx, repeated, S)
			return
		}
		if len(beyond) > 0 {
			c.Violate("C19", "applied-beyond-position", "", "machine %d holds the effect of %v although the synced index is only %d", m.Idx, beyond, S)
			return
		}
		if len(missing) > 0 {
			// ground truth for known finding "syncer-partial-batch-skip": every
			// skipped entry shared an ApplyRaftReqs call with a later entry
			// that was applied
			key := "syncer-partial-batch-skip"
			for _, ms := range missing {
				mi, _ := strconv.ParseUint(ms[1:], 10, 64)
				found := false
				for _, g := range got {
					gi, _ := strconv.ParseUint(g[1:], 10, 64)
					if gi > mi && s.coBatched[[2]uint64{mi, gi}] {
						found = true
						break
					}
				}
				if !found {
					key = ""
				}
			}
			c.Violate("C19", "entry-skipped", key, "machine %d never applied source entries %v although the synced index is %d (applied %d of %d)", m.Idx, missing, S, len(got), len(want))
			return
		}
		// order
		for i := range want {
			if got[i] != want[i] {
				c.Violate("C19", "order", "", "machine %d applied source entries out of order at position %d: %s, want %s", m.Idx, i, got[i], want[i])
				return
			}
		}
	}
}
