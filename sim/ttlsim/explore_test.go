package ttlsim

import (
	"fmt"
	"os"
	"testing"
	"testing/synctest"
	"time"

	"verif/sim/core"
	"verif/sim/nodeh"
)

// TestScenario replays, through the full node path, the minimal command/time
// sequence of each finding of this engine and prints the replies.
//
//	TTL_SCENARIO=<name> VERIF_SCRATCH=/dev/shm/x ttlsim.test -test.run TestScenario -test.cpu 1
//
// names: append setrange del hdel hclear-replay hclear-replay-persist same-ns formats ld-stale ld-shorter ld-mem-deadlock ld-replay
func TestScenario(t *testing.T) {
	name := os.Getenv("TTL_SCENARIO")
	if name == "" {
		t.Skip()
	}
	ld := len(name) > 2 && name[:3] == "ld-"
	eng := os.Getenv("TTL_ENGINE")
	if eng == "" {
		eng = "mem"
	}
	synctest.Test(t, func(t *testing.T) {
		c := core.NewRunCtx(t, "C10", "quick", core.NewTape(1))
		opt := nodeh.Options{Machines: 1, Partitions: 1, Replicas: 1, Engine: eng, SnapCount: 1000, SnapCatchup: 3, KeepBackup: 1}
		if ld {
			opt.ExpPolicy = "local_deletion"
		} else {
			opt.ExpPolicy = "wait_compact"
			opt.DataVersion = "value_header_v1"
		}
		cl := nodeh.New(c, opt)
		defer cl.Close()
		cl.PumpFair(80, func() bool { return cl.Leader(0) >= 0 })
		t0 := time.Now()
		frozen := false
		do := func(args ...interface{}) {
			call := cl.Invoke(cl.M[0], nodeh.Cmd(args...))
			for r := 0; !call.Done() && r < 100; r++ {
				cl.PumpFair(1, nil)
			}
			r, _ := call.Reply()
			fmt.Fprintf(core.Stdout, "[T+%7.3fs] %v -> %s\n", time.Since(t0).Seconds(), args, nodeh.Fmt(r))
			if !frozen {
				cl.Sleep(time.Millisecond)
			}
		}
		sleep := func(d time.Duration) {
			cl.Sleep(d)
			fmt.Fprintf(core.Stdout, "            ... %v pass ...\n", d)
		}
		restart := func(down time.Duration) {
			cl.Kill(cl.M[0])
			cl.Sleep(down)
			if err := cl.Restart(cl.M[0]); err != nil {
				t.Fatal(err)
			}
			cl.PumpFair(100, func() bool { return cl.Leader(0) >= 0 })
			fmt.Fprintf(core.Stdout, "            ... kill -9, restarted, leader at T+%.3fs ...\n", time.Since(t0).Seconds())
		}
		K, H := "default:t:k", "default:t:h"
		switch name {
		case "append":
			do("setex", K, "2", "old")
			sleep(2 * time.Second)
			do("get", K)
			do("append", K, "new")
			do("get", K)
			do("ttl", K)
		case "setrange":
			do("setex", K, "2", "old")
			sleep(2 * time.Second)
			do("get", K)
			do("setrange", K, "1", "Q")
			do("get", K)
		case "del":
			do("setex", K, "2", "old")
			sleep(2 * time.Second)
			do("exists", K)
			do("del", K)
		case "hdel":
			do("hset", H, "f", "v")
			do("hexpire", H, "2")
			sleep(2 * time.Second)
			do("hkeyexist", H)
			do("hgetall", H)
			do("hdel", H, "f")
		case "hclear-replay":
			do("hset", H, "f", "old")
			do("hexpire", H, "5")
			sleep(time.Second)
			do("hclear", H)
			do("hset", H, "g", "new")
			do("hgetall", H)
			do("httl", H)
			restart(5 * time.Second)
			do("hgetall", H)
			do("hkeyexist", H)
		case "hclear-replay-persist":
			do("hset", H, "f", "old")
			do("hexpire", H, "5")
			sleep(time.Second)
			do("hclear", H)
			do("hpersist", H)
			do("hset", H, "g", "new")
			do("hgetall", H)
			restart(5 * time.Second)
			do("hgetall", H)
			do("httl", H)
		case "ld-stale":
			do("setex", K, "100", "v")
			do("del", K)
			do("set", K, "w")
			do("get", K)
			sleep(299 * time.Second)
			do("get", K)
			sleep(2 * time.Second)
			do("get", K)
		case "ld-shorter":
			do("setex", K, "600", "v")
			do("expire", K, "100")
			sleep(299 * time.Second)
			do("get", K)
			sleep(2 * time.Second)
			do("get", K)
		case "ld-mem-deadlock":
			do("setex", K, "100", "v")
			do("hset", H, "f", "v")
			do("hexpire", H, "100")
			sleep(299 * time.Second)
			do("get", K)
			fmt.Fprintf(core.Stdout, "            ... sleeping across the background pass (hangs on the mem engine) ...\n")
			sleep(2 * time.Second)
			do("get", K)
			do("set", K, "again")
		case "formats":
			S, Z, L := "default:t:s", "default:t:z", "default:t:l"
			do("hmset", H, "f1", "a", "f2", "b")
			do("sadd", S, "a", "b")
			do("zadd", Z, "1", "a", "2", "b")
			do("rpush", L, "a", "b")
			do("set", K, "hello")
			do("hexpire", H, "2")
			do("sexpire", S, "2")
			do("zexpire", Z, "2")
			do("lexpire", L, "2")
			do("expire", K, "2")
			for i := 0; i < 2; i++ {
				do("hscan", H, "", "count", "100")
				do("sscan", S, "", "count", "100")
				do("zscan", Z, "", "count", "100")
				do("srandmember", S, "5")
				do("zrangebyscore", Z, "-inf", "+inf")
				do("zrevrange", Z, "0", "-1")
				do("zcount", Z, "-inf", "+inf")
				do("zrank", Z, "b")
				do("getrange", K, "1", "3")
				do("scan", "default:t:", "count", "100")
				do("advscan", "default:t:", "kv", "count", "100")
				do("advscan", "default:t:", "hash", "count", "100")
				do("advscan", "default:t:", "list", "count", "100")
				do("advscan", "default:t:", "set", "count", "100")
				do("advscan", "default:t:", "zset", "count", "100")
				sleep(2 * time.Second)
			}
		case "same-ns":
			// three commands carrying one and the same nanosecond log timestamp
			frozen = true
			do("hset", H, "f", "old")
			do("hclear", H)
			do("hset", H, "g", "new")
			frozen = false
			do("hgetall", H)
			do("hlen", H)
		case "ld-replay":
			do("setex", K, "100", "v1")
			sleep(301 * time.Second)
			do("get", K)
			do("setnx", K, "v2")
			do("get", K)
			restart(time.Second)
			do("get", K)
		}
	})
}
