package ttlsim

import (
	"fmt"
	"os"
	"testing"
	"testing/synctest"
	"time"

	"verif/sim/core"
	"verif/sim/nodeh"
)

func TestExplore(t *testing.T) {
	if os.Getenv("TTL_EXPLORE") == "" {
		t.Skip()
	}
	pol := os.Getenv("TTL_EXPLORE")
	synctest.Test(t, func(t *testing.T) {
		c := core.NewRunCtx(t, "C10", "quick", core.NewTape(1))
		opt := nodeh.Options{Machines: 1, Partitions: 1, Replicas: 1, Engine: "mem", SnapCount: 20, SnapCatchup: 3, KeepBackup: 1}
		if pol == "wc" {
			opt.ExpPolicy = "wait_compact"
			opt.DataVersion = "value_header_v1"
		} else {
			opt.ExpPolicy = "local_deletion"
		}
		cl := nodeh.New(c, opt)
		defer cl.Close()
		cl.PumpFair(80, func() bool { return cl.Leader(0) >= 0 })
		m := cl.M[0]
		now := func() string { n := time.Now(); return fmt.Sprintf("%d.%03d", n.Unix(), n.Nanosecond()/1e6) }
		do := func(args ...interface{}) {
			t0 := time.Now()
			call := cl.Invoke(m, nodeh.Cmd(args...))
			imm := call.Done()
			rounds := 0
			for !call.Done() && rounds < 100 {
				cl.PumpFair(1, nil)
				rounds++
			}
			r, _ := call.Reply()
			fmt.Fprintf(core.Stdout, "[%s] %v -> %s  (imm=%v rounds=%d dt=%v)\n", now(), args, nodeh.Fmt(r), imm, rounds, time.Since(t0))
		}
		K := "default:t:k"
		do("set", K, "v0")
		do("setex", K, "5", "abc")
		do("ttl", K)
		do("get", K)
		do("mset", K, "x", "default:t:k2", "y")
		do("plset", K, "x", "default:t:k2", "y")
		do("get", K)
		do("ttl", K)
		do("ttl", "default:t:none")
		do("persist", K)
		do("expire", K, "3")
		do("exists", K)
		do("exists", K, "default:t:k2")
		cl.Sleep(3 * time.Second)
		do("get", K)
		do("exists", K)
		do("append", K, "zz")
		do("get", K)
		do("ttl", K)
		do("del", K)
		do("setex", K, "2", "old")
		cl.Sleep(2 * time.Second)
		do("del", K)
		do("setex", K, "2", "old")
		cl.Sleep(2 * time.Second)
		do("setrange", K, "1", "Q")
		do("get", K)
		do("setex", K, "2", "7")
		cl.Sleep(2 * time.Second)
		do("incr", K)
		do("ttl", K)
		do("setex", K, "2", "7")
		cl.Sleep(2 * time.Second)
		do("getset", K, "n")
		do("setex", K, "2", "7")
		cl.Sleep(2 * time.Second)
		do("setnx", K, "n2")
		do("get", K)
		do("setbit", "default:t:b", "5", "1")
		do("bexpire", "default:t:b", "2")
		do("bttl", "default:t:b")
		do("getbit", "default:t:b", "5")
		do("bkeyexist", "default:t:b")
		cl.Sleep(2 * time.Second)
		do("getbit", "default:t:b", "5")
		do("setbit", "default:t:b", "6", "1")
		do("bitcount", "default:t:b")
		// hash
		H := "default:t:h"
		do("hset", H, "f1", "a")
		do("hmset", H, "f2", "b", "f3", "c")
		do("hexpire", H, "3")
		do("httl", H)
		do("hgetall", H)
		do("hlen", H)
		do("hkeyexist", H)
		cl.Sleep(3 * time.Second)
		do("hgetall", H)
		do("hlen", H)
		do("hkeyexist", H)
		do("httl", H)
		do("hset", H, "f9", "z")
		do("hgetall", H)
		do("hlen", H)
		do("httl", H)
		do("hincrby", H, "cnt", "5")
		do("hdel", H, "f9", "cnt")
		do("hkeyexist", H)
		do("hclear", H)
		do("hpersist", H)
		// list
		L := "default:t:l"
		do("rpush", L, "a", "b", "c")
		do("lexpire", L, "3")
		do("lttl", L)
		do("lrange", L, "0", "-1")
		cl.Sleep(3 * time.Second)
		do("lrange", L, "0", "-1")
		do("llen", L)
		do("lkeyexist", L)
		do("lpop", L)
		do("lset", L, "0", "x")
		do("ltrim", L, "0", "1")
		do("lpush", L, "n")
		do("lrange", L, "0", "-1")
		do("lttl", L)
		do("lclear", L)
		// set
		S := "default:t:s"
		do("sadd", S, "a", "b", "c")
		do("sexpire", S, "3")
		do("sttl", S)
		do("smembers", S)
		cl.Sleep(3 * time.Second)
		do("smembers", S)
		do("scard", S)
		do("skeyexist", S)
		do("srem", S, "a")
		do("spop", S)
		do("sadd", S, "n")
		do("smembers", S)
		do("spop", S, "2")
		do("sclear", S)
		// zset
		Z := "default:t:z"
		do("zadd", Z, "1", "a", "2", "b")
		do("zexpire", Z, "3")
		do("zttl", Z)
		do("zrange", Z, "0", "-1", "withscores")
		cl.Sleep(3 * time.Second)
		do("zrange", Z, "0", "-1", "withscores")
		do("zcard", Z)
		do("zkeyexist", Z)
		do("zrem", Z, "a")
		do("zincrby", Z, "2.5", "a")
		do("zadd", Z, "7", "n")
		do("zrange", Z, "0", "-1", "withscores")
		do("zscore", Z, "a")
		do("zttl", Z)
		do("zclear", Z)
		do("zpersist", Z)
		do("set", K, "v", "ex", "5")
		do("ttl", K)
		do("set", K, "v2", "nx")
		do("set", K, "v3", "xx")
		do("ttl", K)
		do("strlen", K)
		do("mget", K, "default:t:k2")
		do("decr", "default:t:cnt")
		do("decrby", "default:t:cnt", "4")
		do("incrby", "default:t:cnt", "10")
	})
}
