package ttlsim

// Reference model of key expiry for property C10. It is written from
// doc/user-guide.md, doc/design.md, doc/operation-guide.md and Redis semantics
// of the commands, not from constants of the implementation.
//
// Expiry semantics checked (wait_compact, "value header" policy)
//
//   A command that gives a key an expiry of n seconds with log timestamp ts
//   (nanoseconds) makes the key expire at an instant X that the documents do
//   not pin down below the second ("ZanKV只支持秒级的数据过期"): the two
//   readings are X = (floor(ts/1s)+n) * 1s (whole-second bookkeeping: the key
//   dies when the wall clock shows second E = floor(ts)+n) and X = ts + n*1s
//   (Redis: the key lives exactly n seconds). The model therefore keeps, per
//   key, an interval [xlo, xhi] = [E*1s, ts+n*1s] for the unknown instant X
//   (xhi-xlo < 1 s, both inside second E) and requires
//     - a command evaluated at time t <  xlo sees the key alive (strict),
//     - a command evaluated at time t >= xhi sees it dead (strict),
//     - in between either answer is accepted, but the answers must be
//       consistent with ONE instant X: every observation narrows the interval
//       (alive at t => X > t, dead at t => X <= t); a key seen dead never
//       comes back, two commands at one instant cannot disagree.
//   t is the log timestamp for writes and the node's clock for reads (the
//   documented evaluation rule). TTL of a live key with an expiry must be a
//   whole number between floor(xlo-t) and ceil(xhi-t) seconds (rounding
//   unspecified: floor, ceil and Redis' round-to-nearest are all inside);
//   TTL of a key without expiry is -1; of an absent key -1 or -2 (Redis says
//   -2, the guide is silent).
//   A dead key is absent for every command: reads return the empty answer, a
//   read-modify-write starts from empty and the key it creates has no expiry,
//   a collection created over a dead/cleared one holds only the new members.
//   SET/SETEX/GETSET/PLSET(the registered form of MSET) replace value and
//   expiry; PERSIST removes the expiry; every other modifying command keeps it.
//
// local_deletion policy (the documented default): no command evaluates
//   expiry; a background pass may delete a key at any time t >= E*1s where E
//   is the FIRST expiry second given to the key since it was created
//   (user-guide: the expiry is fixed at the first set and later SET/SETEX do
//   not change it); before that instant the key must be intact ("保证数据一定
//   不会被提前删除"); after it the key may linger. TTL and PERSIST are documented
//   as unsupported: their replies are not checked and they change nothing.
//
// Non-determinism (boundary interval, lingering) is handled with a small set
// of candidate states per key; a reply must match at least one candidate and
// prunes the others.

import (
	"fmt"
	"sort"
	"strconv"
	"strings"
)

const sec = int64(1000000000)

type Op struct {
	Name string
	Typ  byte     // k h l s z b
	Keys []string // table:key
	Args []string // arguments after the key (plset: one value per key)
}

func (o Op) String() string {
	if o.Name == "plset" {
		var p []string
		for i, k := range o.Keys {
			p = append(p, k, o.Args[i])
		}
		return "plset " + strings.Join(p, " ")
	}
	return strings.TrimSpace(o.Name + " " + strings.Join(o.Keys, " ") + " " + strings.Join(o.Args, " "))
}

// cand is one candidate state of one key.
type cand struct {
	present bool
	s       string            // kv value
	l       []string          // list
	m       map[string]string // hash fields; set members; zset member->score; bitmap offset->"1"
	// wait_compact
	expSec   int64 // 0 = no expiry
	xlo, xhi int64
	// local_deletion
	deadline int64 // first expiry second given in this incarnation (0 = none)
	later    int64 // earliest expiry second given later in this incarnation (0 = none)
	stale    int64 // earliest expiry second given to earlier incarnations of the key name (0 = none)
	// evidence flags (do not take part in comparisons)
	recreatedOver bool // created over a dead or cleared predecessor that had content
	pred          bool // (absent key) a predecessor with content was cleared/emptied
	clearedExp    int64
	// born: log timestamp that created this incarnation; predBorn: the same of
	// the cleared/emptied predecessor (collections, wait_compact)
	born, predBorn int64
	// taint: this candidate is reachable only if the implementation behaved as
	// the named known finding describes at some earlier command
	taint string
}

func (c *cand) clone() *cand {
	n := *c
	n.l = append([]string(nil), c.l...)
	if c.m != nil {
		n.m = make(map[string]string, len(c.m))
		for k, v := range c.m {
			n.m[k] = v
		}
	}
	return &n
}

func (c *cand) key() string {
	var sb strings.Builder
	fmt.Fprintf(&sb, "%v|%q|%q|", c.present, c.s, c.l)
	for _, k := range sortedMapKeys(c.m) {
		fmt.Fprintf(&sb, "%q=%q,", k, c.m[k])
	}
	fmt.Fprintf(&sb, "|%d|%d|%d|%d|%v|%v|%d|%d", c.expSec, c.xlo, c.xhi, c.deadline, c.later, c.stale, c.born, c.predBorn)
	return sb.String()
}

func sortedMapKeys(m map[string]string) []string {
	ks := make([]string, 0, len(m))
	for k := range m {
		ks = append(ks, k)
	}
	sort.Strings(ks)
	return ks
}

// minNZ: the smaller of two seconds where 0 means "none".
func minNZ(a, b int64) int64 {
	if a == 0 || (b != 0 && b < a) {
		return b
	}
	return a
}

func (c *cand) hasContent() bool { return c.s != "" || len(c.l) > 0 || len(c.m) > 0 }

// wipe makes the key absent. Under local_deletion the expiry times given so
// far are remembered as stale (used only to recognise a known finding).
func (c *cand) wipe(ld bool) {
	st := c.stale
	if ld {
		st = minNZ(st, minNZ(c.deadline, c.later))
	}
	*c = cand{stale: st, pred: c.pred || c.hasContent(), taint: c.taint, predBorn: c.born}
}

// create starts a new incarnation with empty content (the caller fills it).
func (c *cand) create() {
	had := (c.present && c.hasContent()) || c.pred
	st := c.stale
	pb := c.predBorn
	if c.present {
		pb = c.born
	}
	*c = cand{present: true, stale: st, recreatedOver: had, taint: c.taint, predBorn: pb}
}

// ---- expected replies ----------------------------------------------------------

type want struct {
	alts   []string
	rng    bool
	lo, hi int64
	any    bool
}

func (w want) String() string {
	switch {
	case w.any:
		return "<anything>"
	case w.rng:
		s := fmt.Sprintf("(int)%d..%d", w.lo, w.hi)
		if len(w.alts) > 0 {
			s += " or " + strings.Join(w.alts, " or ")
		}
		return s
	}
	return strings.Join(w.alts, " or ")
}

func (w want) match(actual string) bool {
	if w.any {
		return true
	}
	for _, a := range w.alts {
		if a == actual {
			return true
		}
	}
	if w.rng && strings.HasPrefix(actual, "(int)") {
		v, err := strconv.ParseInt(actual[5:], 10, 64)
		return err == nil && v >= w.lo && v <= w.hi
	}
	return false
}

func rInt(n int64) string   { return "(int)" + strconv.FormatInt(n, 10) }
func rBulk(s string) string { return strconv.Quote(s) }

const rNil = "(nil)"
const rOK = "+OK"
const rErr = "-ERR"

func rArr(items []string) string { return "[" + strings.Join(items, " ") + "]" }
func rBulks(items []string) string {
	q := make([]string, len(items))
	for i, s := range items {
		q[i] = rBulk(s)
	}
	return rArr(q)
}
func wS(alts ...string) want { return want{alts: alts} }
func wI(n int64) want        { return want{alts: []string{rInt(n)}} }
func w01(b bool) want {
	if b {
		return wI(1)
	}
	return wI(0)
}

type out struct {
	c    *cand
	w    want
	via  string // known-finding key this outcome relies on ("" = as specified)
	note string // evidence tag
}

// ---- the model ---------------------------------------------------------------------

type kstate struct {
	cands []*cand
	// hclearRisk: expiry seconds a live hash had when HCLEAR removed it (known
	// finding "hclear-local-clock-replay-diverges": HCLEAR decides by the
	// node's clock instead of the log timestamp whether there is anything to
	// clear; replayed after that second it does nothing and the rest of the
	// log then works on the uncleared hash)
	hclearRisk []int64
	suspect    string
	// evidence
	aliveBefore map[int64]bool // expiry second -> observed alive strictly before
	deadAfter   map[int64]bool // expiry second -> observed dead strictly after
}

type Model struct {
	LD    bool
	keys  map[string]*kstate
	Notes map[string]int // evidence counters (probes) collected while applying
	// LDTouched: keys whose state depended at some point on whether the
	// node-local background deletion had already run (local_deletion only)
	LDTouched map[string]bool
	cur       string
	// Overflow counts keys whose candidate set exceeded the cap (checking of
	// that key restarts from the most recent candidates).
	Overflow int
}

func NewModel(ld bool) *Model {
	return &Model{LD: ld, keys: map[string]*kstate{}, Notes: map[string]int{}, LDTouched: map[string]bool{}}
}

func (m *Model) ks(typ byte, key string) *kstate {
	id := string(typ) + "|" + key
	k := m.keys[id]
	if k == nil {
		k = &kstate{cands: []*cand{{}}, aliveBefore: map[int64]bool{}, deadAfter: map[int64]bool{}}
		m.keys[id] = k
	}
	return k
}

// Result of checking one command.
type Result struct {
	OK       bool
	Via      string // known finding that explains the reply ("" if as specified)
	Expected string
	Retire   bool // the key's state is no longer known: stop using the name
}

const maxCands = 96

// Apply checks the actual reply of op evaluated at time t (ns) and advances
// the model.
func (m *Model) Apply(op Op, t int64, actual string) Result {
	if len(op.Keys) > 1 || op.Name == "del" || op.Name == "exists" || op.Name == "mget" || op.Name == "plset" {
		return m.applyMulti(op, t, actual)
	}
	k := m.ks(op.Typ, op.Keys[0])
	m.cur = string(op.Typ) + "|" + op.Keys[0]
	var outs []out
	for _, c := range k.cands {
		// (the finding "hclear-local-clock-replay-diverges" is repaired in the
		// repository - fix: commit 0a165e4 - so HCLEAR gets no special treatment
		// any more: a replay that diverges is an ordinary violation again)
		outs = append(outs, m.step(c, op, t, true)...)
	}
	var keep []out
	for _, o := range outs {
		if o.w.match(actual) {
			keep = append(keep, o)
		}
	}
	if len(keep) == 0 {
		if k.suspect != "" {
			return Result{OK: true, Via: k.suspect, Retire: true}
		}
		return Result{OK: false, Expected: expectedOf(outs)}
	}
	return Result{OK: true, Via: m.commit(k, op, t, keep)}
}

func expectedOf(outs []out) string {
	var exp []string
	seen := map[string]bool{}
	for _, o := range outs {
		if o.c.taint == "" && !seen[o.w.String()] {
			seen[o.w.String()] = true
			exp = append(exp, o.w.String())
		}
	}
	if len(exp) == 0 {
		for _, o := range outs {
			if !seen[o.w.String()] {
				seen[o.w.String()] = true
				exp = append(exp, o.w.String()+" (only via "+o.c.taint+")")
			}
		}
	}
	return strings.Join(exp, " | ")
}

func (m *Model) commit(k *kstate, op Op, t int64, keep []out) (via string) {
	seen := map[string]bool{}
	var cs []*cand
	notes := map[string]int{}
	// untainted outcomes first: of two equal states the untainted one stays
	sort.SliceStable(keep, func(i, j int) bool { return keep[i].c.taint == "" && keep[j].c.taint != "" })
	if keep[0].c.taint != "" {
		// every surviving candidate went through a known finding: it is now
		// established, report it once and go on from the states it leads to
		via = keep[0].c.taint
		for _, o := range keep {
			if o.c.taint < via {
				via = o.c.taint
			}
		}
		for _, o := range keep {
			o.c.taint = ""
		}
	}
	for _, o := range keep {
		id := o.c.key()
		if seen[id] {
			continue
		}
		seen[id] = true
		cs = append(cs, o.c)
		for _, n := range strings.Split(o.note, ";") {
			if n != "" {
				notes[n]++
			}
		}
	}
	rev := reveals(op)
	// a note counts only if every surviving candidate agrees on it
	for n, cnt := range notes {
		if cnt == len(cs) {
			if strings.HasPrefix(n, "alive_before:") || strings.HasPrefix(n, "dead_after:") {
				if !rev {
					continue
				}
				m.Notes[n[:strings.Index(n, ":")]]++
			} else {
				m.Notes[n]++
			}
			if strings.HasPrefix(n, "alive_before:") {
				e, _ := strconv.ParseInt(n[len("alive_before:"):], 10, 64)
				k.aliveBefore[e] = true
			}
			if strings.HasPrefix(n, "dead_after:") {
				e, _ := strconv.ParseInt(n[len("dead_after:"):], 10, 64)
				k.deadAfter[e] = true
			}
		}
	}
	if len(cs) > maxCands {
		m.Overflow++
		cs = cs[:maxCands]
	}
	k.cands = cs
	return via
}

// reveals: does the reply of op depend on whether the key is alive?
func reveals(op Op) bool {
	switch op.Name {
	case "setex", "plset", "hmset", "ltrim":
		return false
	case "set":
		return len(op.Args) >= 2 && strings.ToLower(op.Args[1]) != "ex"
	}
	return true
}

// BeforeAndAfter counts key incarnations observed alive strictly before and
// dead strictly after the same expiry second.
func (m *Model) BeforeAndAfter() int {
	n := 0
	for _, id := range sortedKS(m.keys) {
		k := m.keys[id]
		for e := range k.aliveBefore {
			if k.deadAfter[e] {
				n++
			}
		}
	}
	return n
}

func sortedKS(m map[string]*kstate) []string {
	ks := make([]string, 0, len(m))
	for k := range m {
		ks = append(ks, k)
	}
	sort.Strings(ks)
	return ks
}

// OnRestart is told that the node replayed its log with the clock at t.
func (m *Model) OnRestart(t int64) (suspects int) {
	for _, id := range sortedKS(m.keys) {
		k := m.keys[id]
		for _, e := range k.hclearRisk {
			if t >= e*sec {
				k.suspect = "hclear-local-clock-replay-diverges"
			}
		}
		if k.suspect != "" {
			suspects++
		}
	}
	return
}

// CheckScan checks the key listing of one type (SCAN / ADVSCAN over the
// table, wait_compact only): every key that is certainly alive at t must be
// listed, a key that is certainly dead or absent must not be (a dead key that
// is still listed is the known finding "scan-lists-expired-keys"). ignore
// holds retired names.
func (m *Model) CheckScan(typ byte, t int64, listed []string, ignore map[string]bool) Result {
	in := map[string]bool{}
	for _, n := range listed {
		in[n] = true
	}
	via := ""
	var bad []string
	seen := map[string]bool{}
	for _, id := range sortedKS(m.keys) {
		if id[0] != typ {
			continue
		}
		name := id[2+2:] // strip "x|" and the table prefix "t:"
		seen[name] = true
		if m.keys[id].suspect != "" {
			continue
		}
		must, may, ghost := true, false, false
		for _, c := range m.keys[id].cands {
			switch {
			case !c.present:
				must = false
			case c.expSec == 0 || t < c.xlo:
				may = true
			case t >= c.xhi:
				must = false
				ghost = true
			default:
				must = false
				may = true
			}
		}
		switch {
		case must && !in[name]:
			bad = append(bad, "live key "+name+" is not listed")
		case in[name] && !may && ghost:
			via = "scan-lists-expired-keys"
		case in[name] && !may:
			bad = append(bad, "deleted key "+name+" is listed")
		}
	}
	for _, n := range listed {
		if !seen[n] && !ignore["t:"+n] {
			bad = append(bad, "unknown key "+n+" is listed")
		}
	}
	if len(bad) > 0 {
		return Result{OK: false, Expected: strings.Join(bad, "; ")}
	}
	return Result{OK: true, Via: via}
}

// Retire forgets a key (the schedule stops using its name).
func (m *Model) Retire(id string) { delete(m.keys, id); delete(m.LDTouched, id) }

// Expiry describes an outstanding expiry instant of some candidate.
type Expiry struct {
	ID       string
	Sec      int64 // expiry second E
	Xlo, Xhi int64
}

// Outstanding lists expiry instants the schedule may aim at (sorted, unique).
func (m *Model) Outstanding() []Expiry {
	var out []Expiry
	seen := map[string]bool{}
	for _, id := range sortedKS(m.keys) {
		for _, c := range m.keys[id].cands {
			if !c.present {
				continue
			}
			var es []Expiry
			if m.LD {
				if c.deadline != 0 {
					es = append(es, Expiry{ID: id, Sec: c.deadline, Xlo: c.deadline * sec, Xhi: c.deadline * sec})
				}
				if l := c.later; l != 0 {
					es = append(es, Expiry{ID: id, Sec: l, Xlo: l * sec, Xhi: l * sec})
				}
			} else if c.expSec != 0 {
				es = append(es, Expiry{ID: id, Sec: c.expSec, Xlo: c.expSec * sec, Xhi: c.xhi})
			}
			for _, e := range es {
				s := fmt.Sprintf("%s|%d|%d", e.ID, e.Sec, e.Xhi)
				if !seen[s] {
					seen[s] = true
					out = append(out, e)
				}
			}
		}
	}
	return out
}

// Ghosts counts keys that (in every candidate) still hold content that is
// dead at time t: what a compaction or a restart must not bring back.
func (m *Model) Ghosts(t int64) int {
	n := 0
	for _, id := range sortedKS(m.keys) {
		all := true
		for _, c := range m.keys[id].cands {
			if !(c.present && c.hasContent() && !m.LD && c.expSec != 0 && t >= c.xhi) {
				all = false
			}
		}
		if all {
			n++
		}
	}
	return n
}

// LiveExpiries counts keys that are alive at t with an expiry in the future.
func (m *Model) LiveExpiries(t int64) int {
	n := 0
	for _, id := range sortedKS(m.keys) {
		all := true
		for _, c := range m.keys[id].cands {
			if m.LD {
				if !(c.present && c.deadline != 0 && t < c.deadline*sec) {
					all = false
				}
			} else if !(c.present && c.expSec != 0 && t < c.xlo) {
				all = false
			}
		}
		if all {
			n++
		}
	}
	return n
}

// DueLD counts keys that local deletion may remove at t.
func (m *Model) DueLD(t int64) int {
	n := 0
	for _, id := range sortedKS(m.keys) {
		for _, c := range m.keys[id].cands {
			if c.present && c.deadline != 0 && t >= c.deadline*sec {
				n++
				break
			}
		}
	}
	return n
}

// views: a candidate as a command at time t sees it.
type view struct {
	c     *cand
	alive bool
	via   string
	note  string
}

// views forks a candidate by what the expiry rules allow at time t.
func (m *Model) views(c0 *cand, t int64, findings bool) []view {
	if !c0.present {
		return []view{{c: c0.clone(), alive: false}}
	}
	if m.LD {
		vs := []view{{c: c0.clone(), alive: true}}
		if c0.deadline != 0 {
			if t >= c0.deadline*sec {
				m.LDTouched[m.cur] = true
				d := c0.clone()
				// the index entry that justified the deletion is consumed
				d.deadline = 0
				d.wipe(true)
				vs = append(vs, view{c: d, alive: false, note: fmt.Sprintf("ld_deleted_after_deadline;dead_after:%d", c0.deadline)})
				vs[0].note = "ld_lingering_after_deadline"
			} else {
				vs[0].note = fmt.Sprintf("alive_before:%d", c0.deadline)
			}
		}
		if findings && !(c0.deadline != 0 && t >= c0.deadline*sec) {
			due := func(e int64) bool { return e != 0 && t >= e*sec }
			if due(c0.later) || due(c0.stale) {
				m.LDTouched[m.cur] = true
			}
			if due(c0.later) {
				d := c0.clone()
				d.wipe(true)
				vs = append(vs, view{c: d, alive: false, via: "ld-later-shorter-expire-deletes-early"})
			}
			if due(c0.stale) {
				d := c0.clone()
				d.wipe(true)
				vs = append(vs, view{c: d, alive: false, via: "ld-stale-expire-index-deletes-recreated-key"})
			}
		}
		return vs
	}
	if c0.expSec == 0 {
		return []view{{c: c0.clone(), alive: true}}
	}
	switch {
	case t < c0.xlo:
		return []view{{c: c0.clone(), alive: true, note: fmt.Sprintf("alive_before:%d", c0.expSec)}}
	case t >= c0.xhi:
		n := ""
		if t >= (c0.expSec+1)*sec {
			n = fmt.Sprintf("dead_after:%d", c0.expSec)
		} else {
			n = "dead_in_boundary_second"
		}
		return []view{{c: c0.clone(), alive: false, note: n}}
	}
	a, d := c0.clone(), c0.clone()
	a.xlo = t + 1
	d.xhi = t
	return []view{{c: a, alive: true, note: "ambiguous_zone"}, {c: d, alive: false, note: "ambiguous_zone"}}
}

func atoi(s string) (int64, bool) {
	v, err := strconv.ParseInt(s, 10, 64)
	return v, err == nil
}

// give records an expiry of n seconds given at log time t.
func (m *Model) give(c *cand, t int64, n int64) {
	e := t/sec + n
	if m.LD {
		if c.deadline == 0 {
			c.deadline = e
		} else {
			c.later = minNZ(c.later, e)
		}
		return
	}
	c.expSec, c.xlo, c.xhi = e, e*sec, t+n*sec
}

// clearExp: whole-value overwrite or PERSIST under wait_compact.
func (m *Model) clearExp(c *cand) {
	if m.LD {
		return
	}
	if c.expSec != 0 {
		c.clearedExp = c.expSec
	}
	c.expSec, c.xlo, c.xhi = 0, 0, 0
}

func ttlName(typ byte) string {
	if typ == 'k' {
		return "ttl"
	}
	return string(typ) + "ttl"
}

// step applies a single-key op to one candidate.
func (m *Model) step(c0 *cand, op Op, t int64, findings bool) []out {
	var outs []out
	for _, v := range m.views(c0, t, findings) {
		for _, o := range m.stepView(v, op, t, findings) {
			if o.via == "" {
				o.via = v.via
			}
			if o.c.taint == "" {
				o.c.taint = o.via
			}
			if o.c.taint == "" {
				o.c.taint = c0.taint
			}
			if o.note == "" {
				o.note = v.note
			} else if v.note != "" {
				o.note += ";" + v.note
			}
			outs = append(outs, o)
		}
	}
	return outs
}

func one(c *cand, w want) []out { return []out{{c: c, w: w}} }

func (m *Model) stepView(v view, op Op, t int64, findings bool) []out {
	c, alive := v.c, v.alive
	a := op.Args
	name := op.Name
	// ---- commands common to all types: expire / ttl / persist / keyexist / clear
	switch {
	case name == "expire" || (len(name) == 7 && name[1:] == "expire"):
		n, _ := atoi(a[0])
		if !alive {
			return one(c, wI(0))
		}
		m.give(c, t, n)
		return []out{{c: c, w: wI(1), note: "expire_given"}}
	case name == ttlName(op.Typ):
		if m.LD {
			return one(c, want{any: true})
		}
		if !alive {
			return one(c, wS(rInt(-1), rInt(-2)))
		}
		if c.expSec == 0 {
			o := out{c: c, w: wI(-1)}
			if c.clearedExp != 0 {
				o.note = "ttl_after_cleared_expiry"
			}
			return []out{o}
		}
		lo, hi := c.xlo-t, c.xhi-t
		if lo < 0 {
			lo = 0
		}
		return []out{{c: c, w: want{rng: true, lo: lo / sec, hi: (hi + sec - 1) / sec}, note: "ttl_of_live_expiring_key"}}
	case name == "persist" || (len(name) == 8 && name[1:] == "persist"):
		if m.LD {
			return one(c, want{any: true})
		}
		if !alive {
			return one(c, wI(0))
		}
		if c.expSec == 0 {
			// Redis answers 0 (no timeout to remove); the guide is silent
			return one(c, wS(rInt(0), rInt(1)))
		}
		m.clearExp(c)
		return []out{{c: c, w: wI(1), note: "persist_cleared_expiry"}}
	case len(name) == 9 && name[1:] == "keyexist":
		return one(c, w01(alive))
	case name == "hclear" || name == "lclear" || name == "sclear" || name == "zclear" || name == "bitclear":
		if !alive {
			return one(c, wI(0))
		}
		c.wipe(m.LD)
		// the cleared content stays in the candidate as a dead predecessor
		return []out{{c: c, w: wI(1), note: "cleared"}}
	}
	switch op.Typ {
	case 'k':
		return m.stepKV(c, alive, op, t, findings)
	case 'h':
		return m.stepHash(c, alive, op, t)
	case 'l':
		return m.stepList(c, alive, op, t)
	case 's':
		return m.stepSet(c, alive, op, t)
	case 'z':
		return m.stepZSet(c, alive, op, t)
	case 'b':
		return m.stepBitmap(c, alive, op, t)
	}
	panic("unknown type")
}

// mk makes the key exist for a creating/modifying write: a dead or absent
// key starts a new, empty incarnation without expiry.
func (m *Model) mk(c *cand, alive bool, t int64) (note string) {
	if alive {
		return ""
	}
	ghost := c.present
	c.create()
	c.born = t
	if !m.LD && c.predBorn == t && m.cur[0] != 'k' {
		// known finding "same-ns-recreate-reuses-generation": the generation of
		// a collection is the log timestamp of the write that created it; a
		// collection created, cleared (or expired by EXPIRE 0) and created
		// again within one and the same nanosecond timestamp gets the
		// generation of its predecessor, whose members are only hidden, not
		// deleted. From here on nothing is known about the key.
		if k := m.keys[m.cur]; k != nil {
			k.suspect = "same-ns-recreate-reuses-generation"
		}
	}
	if ghost {
		return "rmw_on_expired"
	}
	return ""
}

func (m *Model) stepKV(c *cand, alive bool, op Op, t int64, findings bool) []out {
	a := op.Args
	switch op.Name {
	case "get":
		if !alive {
			return one(c, wS(rNil))
		}
		o := out{c: c, w: wS(rBulk(c.s))}
		if c.clearedExp != 0 && t >= (c.clearedExp+1)*sec {
			o.note = "alive_past_cleared_expiry"
		}
		return []out{o}
	case "strlen":
		if !alive {
			return one(c, wI(0))
		}
		return one(c, wI(int64(len(c.s))))
	case "getrange":
		v := ""
		if alive {
			v = c.s
		}
		st, _ := atoi(a[0])
		en, _ := atoi(a[1])
		n := int64(len(v))
		st, en = normIdx(st, n), normIdx(en, n)
		if st < 0 {
			st = 0
		}
		if en < 0 {
			en = 0
		}
		if en >= n {
			en = n - 1
		}
		if st > en || n == 0 {
			// Redis answers the empty string, the guide is silent
			return one(c, wS(rNil, rBulk("")))
		}
		return one(c, wS(rBulk(v[st:en+1])))
	case "set":
		mode := ""
		var ex int64
		if len(a) >= 2 {
			mode = strings.ToLower(a[1])
			if mode == "ex" {
				ex, _ = atoi(a[2])
			}
		}
		if mode == "nx" && alive {
			return one(c, wS(rNil))
		}
		if mode == "xx" && !alive {
			return one(c, wS(rNil))
		}
		note := ""
		if alive && c.expSec != 0 {
			note = "overwrite_cleared_expiry"
		}
		m.overwrite(c, alive, a[0])
		if mode == "ex" {
			m.give(c, t, ex)
		}
		return []out{{c: c, w: wS(rOK), note: note}}
	case "setex":
		n, _ := atoi(a[0])
		m.overwrite(c, alive, a[1])
		m.give(c, t, n)
		return []out{{c: c, w: wS(rOK), note: "expire_given"}}
	case "plset1":
		m.overwrite(c, alive, a[0])
		return one(c, wS(rOK))
	case "getset":
		w := wS(rNil)
		note := ""
		if alive {
			w = wS(rBulk(c.s))
			if c.expSec != 0 {
				note = "overwrite_cleared_expiry"
			}
		} else if c.present {
			note = "rmw_on_expired"
		}
		m.overwrite(c, alive, a[0])
		return []out{{c: c, w: w, note: note}}
	case "setnx":
		if alive {
			return one(c, wI(0))
		}
		note := m.mk(c, alive, t)
		c.s = a[0]
		return []out{{c: c, w: wI(1), note: note}}
	case "append", "setrange":
		var off int64
		val := a[0]
		if op.Name == "setrange" {
			off, _ = atoi(a[0])
			val = a[1]
		}
		apply := func(old string) string {
			if op.Name == "append" {
				return old + val
			}
			b := []byte(old)
			for int64(len(b)) < off+int64(len(val)) {
				b = append(b, 0)
			}
			copy(b[off:], val)
			return string(b)
		}
		var outs []out
		if !alive && c.present && findings && !m.LD {
			// known finding: APPEND/SETRANGE meeting an expired value continue
			// from the old content (and drop the expiry)
			f := c.clone()
			old := f.s
			f.create()
			f.s = apply(old)
			outs = append(outs, out{c: f, w: wI(int64(len(f.s))), via: "kv-append-setrange-on-expired-builds-on-old-value"})
		}
		note := m.mk(c, alive, t)
		c.s = apply(c.s)
		outs = append(outs, out{c: c, w: wI(int64(len(c.s))), note: note})
		return outs
	case "incr", "incrby":
		by := int64(1)
		if op.Name == "incrby" {
			by, _ = atoi(a[0])
		}
		cur := int64(0)
		if alive {
			v, ok := atoi(c.s)
			if !ok {
				return one(c, wS(rErr))
			}
			cur = v
		}
		note := m.mk(c, alive, t)
		c.s = strconv.FormatInt(cur+by, 10)
		return []out{{c: c, w: wI(cur + by), note: note}}
	case "exists1":
		return one(c, w01(alive))
	case "mget1":
		if !alive {
			return one(c, wS(rNil))
		}
		return one(c, wS(rBulk(c.s)))
	case "del1":
		var outs []out
		if !alive && c.present && findings && !m.LD {
			f := c.clone()
			f.wipe(false)
			outs = append(outs, out{c: f, w: wI(1), via: "del-counts-expired-key"})
		}
		if !alive {
			// deleting a dead key: nothing to delete, the remains may go too
			return append(outs, out{c: c, w: wI(0)})
		}
		c.wipe(m.LD)
		return append(outs, out{c: c, w: wI(1), note: "cleared"})
	}
	panic("unknown kv op " + op.Name)
}

// overwrite replaces the whole value: new content, expiry cleared
// (wait_compact); under local_deletion the first expiry stays.
func (m *Model) overwrite(c *cand, alive bool, v string) {
	if !alive {
		c.create()
	}
	c.s = v
	m.clearExp(c)
}

func (m *Model) stepHash(c *cand, alive bool, op Op, t int64) []out {
	a := op.Args
	get := func(f string) (string, bool) {
		if !alive {
			return "", false
		}
		v, ok := c.m[f]
		return v, ok
	}
	rdNote := ""
	if alive && c.recreatedOver {
		rdNote = "read_of_recreated_collection"
	}
	switch op.Name {
	case "hgetall", "hkeys", "hvals":
		var items []string
		if alive {
			for _, f := range sortedMapKeys(c.m) {
				if op.Name != "hvals" {
					items = append(items, f)
				}
				if op.Name != "hkeys" {
					items = append(items, c.m[f])
				}
			}
		}
		return []out{{c: c, w: wS(rBulks(items)), note: rdNote}}
	case "hscan":
		var items []string
		if alive {
			for _, f := range sortedMapKeys(c.m) {
				items = append(items, f, c.m[f])
			}
		}
		return []out{{c: c, w: wS(rArr([]string{rBulk(""), rBulks(items)})), note: rdNote}}
	case "hlen":
		if !alive {
			return one(c, wI(0))
		}
		return []out{{c: c, w: wI(int64(len(c.m))), note: rdNote}}
	case "hget":
		if v, ok := get(a[0]); ok {
			return one(c, wS(rBulk(v)))
		}
		return one(c, wS(rNil))
	case "hexists":
		_, ok := get(a[0])
		return one(c, w01(ok))
	case "hmget":
		var items []string
		for _, f := range a {
			if v, ok := get(f); ok {
				items = append(items, rBulk(v))
			} else {
				items = append(items, rNil)
			}
		}
		return one(c, wS(rArr(items)))
	case "hset", "hsetnx":
		_, had := get(a[0])
		if op.Name == "hsetnx" && had {
			return one(c, wI(0))
		}
		note := m.mk(c, alive, t)
		if c.m == nil {
			c.m = map[string]string{}
		}
		c.m[a[0]] = a[1]
		return []out{{c: c, w: w01(!had), note: note}}
	case "hmset":
		note := m.mk(c, alive, t)
		if c.m == nil {
			c.m = map[string]string{}
		}
		for i := 0; i+1 < len(a); i += 2 {
			c.m[a[i]] = a[i+1]
		}
		return []out{{c: c, w: wS(rOK), note: note}}
	case "hincrby":
		by, _ := atoi(a[1])
		cur := int64(0)
		if v, ok := get(a[0]); ok {
			n, ok2 := atoi(v)
			if !ok2 {
				return one(c, wS(rErr))
			}
			cur = n
		}
		note := m.mk(c, alive, t)
		if c.m == nil {
			c.m = map[string]string{}
		}
		c.m[a[0]] = strconv.FormatInt(cur+by, 10)
		return []out{{c: c, w: wI(cur + by), note: note}}
	case "hdel":
		if !alive {
			outs := one(c, wI(0))
			// (HDEL removing and counting fields of the dead generation was a
			// recorded finding; repaired in /repo fbca9db)
			return outs
		}
		n := int64(0)
		for _, f := range a {
			if _, ok := c.m[f]; ok {
				delete(c.m, f)
				n++
			}
		}
		if len(c.m) == 0 {
			c.wipe(m.LD)
		}
		return one(c, wI(n))
	}
	panic("unknown hash op " + op.Name)
}

func normIdx(i, n int64) int64 {
	if i < 0 {
		i += n
	}
	return i
}

func (m *Model) stepList(c *cand, alive bool, op Op, t int64) []out {
	a := op.Args
	var l []string
	if alive {
		l = c.l
	}
	n := int64(len(l))
	rdNote := ""
	if alive && c.recreatedOver {
		rdNote = "read_of_recreated_collection"
	}
	switch op.Name {
	case "llen":
		return []out{{c: c, w: wI(n), note: rdNote}}
	case "lrange":
		s, _ := atoi(a[0])
		e, _ := atoi(a[1])
		s, e = normIdx(s, n), normIdx(e, n)
		if s < 0 {
			s = 0
		}
		if e >= n {
			e = n - 1
		}
		var items []string
		for i := s; i <= e; i++ {
			items = append(items, l[i])
		}
		return []out{{c: c, w: wS(rBulks(items)), note: rdNote}}
	case "lindex":
		i, _ := atoi(a[0])
		i = normIdx(i, n)
		if i < 0 || i >= n {
			return one(c, wS(rNil))
		}
		return one(c, wS(rBulk(l[i])))
	case "lpush", "rpush":
		note := m.mk(c, alive, t)
		for _, v := range a {
			if op.Name == "lpush" {
				c.l = append([]string{v}, c.l...)
			} else {
				c.l = append(c.l, v)
			}
		}
		return []out{{c: c, w: wI(int64(len(c.l))), note: note}}
	case "lpop", "rpop":
		if n == 0 {
			return one(c, wS(rNil))
		}
		var v string
		if op.Name == "lpop" {
			v, c.l = c.l[0], c.l[1:]
		} else {
			v, c.l = c.l[n-1], c.l[:n-1]
		}
		if len(c.l) == 0 {
			c.wipe(m.LD)
		}
		return one(c, wS(rBulk(v)))
	case "lset":
		i, _ := atoi(a[0])
		i = normIdx(i, n)
		if i < 0 || i >= n {
			return one(c, wS(rErr))
		}
		c.l[i] = a[1]
		return one(c, wS(rOK))
	case "ltrim":
		if n == 0 {
			return one(c, wS(rOK))
		}
		s, _ := atoi(a[0])
		e, _ := atoi(a[1])
		s, e = normIdx(s, n), normIdx(e, n)
		if s < 0 {
			s = 0
		}
		if e >= n {
			e = n - 1
		}
		if s > e {
			c.wipe(m.LD)
			return one(c, wS(rOK))
		}
		c.l = append([]string(nil), c.l[s:e+1]...)
		return one(c, wS(rOK))
	}
	panic("unknown list op " + op.Name)
}

func (m *Model) stepSet(c *cand, alive bool, op Op, t int64) []out {
	a := op.Args
	has := func(x string) bool {
		if !alive {
			return false
		}
		_, ok := c.m[x]
		return ok
	}
	rdNote := ""
	if alive && c.recreatedOver {
		rdNote = "read_of_recreated_collection"
	}
	switch op.Name {
	case "smembers":
		var items []string
		if alive {
			items = sortedMapKeys(c.m)
		}
		return []out{{c: c, w: wS(rBulks(items)), note: rdNote}}
	case "sscan", "srandmember":
		var items []string
		if alive {
			items = sortedMapKeys(c.m)
		}
		if op.Name == "srandmember" {
			// documented: returned in order
			n, _ := atoi(a[0])
			if int64(len(items)) > n {
				items = items[:n]
			}
			return []out{{c: c, w: wS(rBulks(items)), note: rdNote}}
		}
		return []out{{c: c, w: wS(rArr([]string{rBulk(""), rBulks(items)})), note: rdNote}}
	case "scard":
		if !alive {
			return one(c, wI(0))
		}
		return []out{{c: c, w: wI(int64(len(c.m))), note: rdNote}}
	case "sismember":
		return one(c, w01(has(a[0])))
	case "sadd":
		n := int64(0)
		seen := map[string]bool{}
		for _, x := range a {
			if !has(x) && !seen[x] {
				n++
			}
			seen[x] = true
		}
		note := m.mk(c, alive, t)
		if c.m == nil {
			c.m = map[string]string{}
		}
		for _, x := range a {
			c.m[x] = ""
		}
		return []out{{c: c, w: wI(n), note: note}}
	case "srem":
		if !alive {
			return one(c, wI(0))
		}
		n := int64(0)
		for _, x := range a {
			if _, ok := c.m[x]; ok {
				delete(c.m, x)
				n++
			}
		}
		if len(c.m) == 0 {
			c.wipe(m.LD)
		}
		return one(c, wI(n))
	case "spop":
		// members leave in key order (user guide: srandmember "按顺序返回")
		cnt := int64(1)
		if len(a) == 1 {
			cnt, _ = atoi(a[0])
		}
		var ms []string
		if alive {
			ms = sortedMapKeys(c.m)
		}
		if int64(len(ms)) > cnt {
			ms = ms[:cnt]
		}
		for _, x := range ms {
			delete(c.m, x)
		}
		if alive && len(c.m) == 0 {
			c.wipe(m.LD)
		}
		if len(a) == 0 {
			if len(ms) == 0 {
				return one(c, wS(rNil))
			}
			return one(c, wS(rBulk(ms[0])))
		}
		return one(c, wS(rBulks(ms)))
	}
	panic("unknown set op " + op.Name)
}

type zm struct {
	m string
	s int64
}

func zsorted(c *cand) []zm {
	var l []zm
	for k, v := range c.m {
		s, _ := atoi(v)
		l = append(l, zm{k, s})
	}
	sort.Slice(l, func(i, j int) bool {
		if l[i].s != l[j].s {
			return l[i].s < l[j].s
		}
		return l[i].m < l[j].m
	})
	return l
}

func (m *Model) stepZSet(c *cand, alive bool, op Op, t int64) []out {
	a := op.Args
	rdNote := ""
	if alive && c.recreatedOver {
		rdNote = "read_of_recreated_collection"
	}
	switch op.Name {
	case "zrange": // 0 -1 withscores
		var items []string
		if alive {
			for _, e := range zsorted(c) {
				items = append(items, e.m, strconv.FormatInt(e.s, 10))
			}
		}
		return []out{{c: c, w: wS(rBulks(items)), note: rdNote}}
	case "zrangebyscore", "zrevrange": // -inf +inf | 0 -1
		var items []string
		if alive {
			for _, e := range zsorted(c) {
				items = append(items, e.m)
			}
		}
		if op.Name == "zrevrange" {
			for i, j := 0, len(items)-1; i < j; i, j = i+1, j-1 {
				items[i], items[j] = items[j], items[i]
			}
		}
		return []out{{c: c, w: wS(rBulks(items)), note: rdNote}}
	case "zscan":
		var items []string
		if alive {
			for _, k := range sortedMapKeys(c.m) {
				items = append(items, k, c.m[k])
			}
		}
		return []out{{c: c, w: wS(rArr([]string{rBulk(""), rBulks(items)})), note: rdNote}}
	case "zcount": // -inf +inf
		if !alive {
			return one(c, wI(0))
		}
		return []out{{c: c, w: wI(int64(len(c.m))), note: rdNote}}
	case "zcard":
		if !alive {
			return one(c, wI(0))
		}
		return []out{{c: c, w: wI(int64(len(c.m))), note: rdNote}}
	case "zscore":
		if alive {
			if v, ok := c.m[a[0]]; ok {
				return one(c, wS(rBulk(v)))
			}
		}
		return one(c, wS(rNil))
	case "zrank":
		if alive {
			for i, e := range zsorted(c) {
				if e.m == a[0] {
					return one(c, wI(int64(i)))
				}
			}
		}
		return one(c, wS(rNil))
	case "zadd":
		n := int64(0)
		seen := map[string]bool{}
		for i := 0; i+1 < len(a); i += 2 {
			_, ok := c.m[a[i+1]]
			if (!alive || !ok) && !seen[a[i+1]] {
				n++
			}
			seen[a[i+1]] = true
		}
		note := m.mk(c, alive, t)
		if c.m == nil {
			c.m = map[string]string{}
		}
		for i := 0; i+1 < len(a); i += 2 {
			c.m[a[i+1]] = a[i]
		}
		return []out{{c: c, w: wI(n), note: note}}
	case "zincrby":
		by, _ := atoi(a[0])
		cur := int64(0)
		if alive {
			if v, ok := c.m[a[1]]; ok {
				cur, _ = atoi(v)
			}
		}
		note := m.mk(c, alive, t)
		if c.m == nil {
			c.m = map[string]string{}
		}
		c.m[a[1]] = strconv.FormatInt(cur+by, 10)
		return []out{{c: c, w: wS(rBulk(c.m[a[1]])), note: note}}
	case "zrem":
		if !alive {
			return one(c, wI(0))
		}
		n := int64(0)
		for _, x := range a {
			if _, ok := c.m[x]; ok {
				delete(c.m, x)
				n++
			}
		}
		if len(c.m) == 0 {
			c.wipe(m.LD)
		}
		return one(c, wI(n))
	}
	panic("unknown zset op " + op.Name)
}

func (m *Model) stepBitmap(c *cand, alive bool, op Op, t int64) []out {
	a := op.Args
	switch op.Name {
	case "getbit":
		if alive {
			if _, ok := c.m[a[0]]; ok {
				return one(c, wI(1))
			}
		}
		return one(c, wI(0))
	case "bitcount":
		if !alive {
			return one(c, wI(0))
		}
		return one(c, wI(int64(len(c.m))))
	case "setbit":
		old := false
		if alive {
			_, old = c.m[a[0]]
		}
		on := a[1] == "1"
		// (clearing a bit of an absent bitmap creates an all-zero bitmap, as in Redis)
		note := m.mk(c, alive, t)
		if c.m == nil {
			c.m = map[string]string{}
		}
		if on {
			c.m[a[0]] = "1"
		} else {
			delete(c.m, a[0])
		}
		return []out{{c: c, w: w01(old), note: note}}
	}
	panic("unknown bitmap op " + op.Name)
}

// ---- multi-key KV commands -----------------------------------------------------

type combo struct {
	outs []out
}

func (m *Model) applyMulti(op Op, t int64, actual string) Result {
	sub := map[string]string{"del": "del1", "exists": "exists1", "mget": "mget1", "plset": "plset1"}[op.Name]
	// a key named twice is handled sequentially only for the commands where
	// that is harmless; the generator never repeats a key
	kss := make([]*kstate, len(op.Keys))
	for i, key := range op.Keys {
		kss[i] = m.ks('k', key)
	}
	per := make([][]out, len(op.Keys))
	for i := range op.Keys {
		so := Op{Name: sub, Typ: 'k', Keys: []string{op.Keys[i]}}
		if op.Name == "plset" {
			so.Args = []string{op.Args[i]}
		}
		m.cur = "k|" + op.Keys[i]
		for _, c := range kss[i].cands {
			per[i] = append(per[i], m.step(c, so, t, true)...)
		}
	}
	// enumerate the product
	var matched []combo
	var expSeen = map[string]bool{}
	var exp []string
	idx := make([]int, len(per))
	for {
		cur := make([]out, len(per))
		for i := range per {
			cur[i] = per[i][idx[i]]
		}
		w := combine(op.Name, cur)
		if w == actual {
			matched = append(matched, combo{cur})
		} else if !expSeen[w] {
			tainted := false
			for _, o := range cur {
				if o.c.taint != "" {
					tainted = true
				}
			}
			if !tainted {
				expSeen[w] = true
				exp = append(exp, w)
			}
		}
		i := 0
		for ; i < len(idx); i++ {
			idx[i]++
			if idx[i] < len(per[i]) {
				break
			}
			idx[i] = 0
		}
		if i == len(idx) {
			break
		}
	}
	if len(matched) == 0 {
		return Result{OK: false, Expected: strings.Join(exp, " | ")}
	}
	via := ""
	for i := range op.Keys {
		var keep []out
		for _, cb := range matched {
			keep = append(keep, cb.outs[i])
		}
		if v := m.commit(kss[i], op, t, keep); v != "" && (via == "" || v < via) {
			via = v
		}
	}
	return Result{OK: true, Via: via}
}

// combine renders the reply of a multi-key command from per-key outcomes
// (each per-key want has exactly one alternative).
func combine(name string, outs []out) string {
	switch name {
	case "del", "exists":
		n := int64(0)
		for _, o := range outs {
			if o.w.alts[0] == rInt(1) {
				n++
			}
		}
		return rInt(n)
	case "mget":
		var items []string
		for _, o := range outs {
			items = append(items, o.w.alts[0])
		}
		return rArr(items)
	}
	return rOK
}
