// Package ttlsim decides property C10 ("expired data is dead; unexpired data
// is never removed"): a real single-replica data node (nodeh: KVNode, raft,
// WAL, snapshots, apply loop, rockredis on mem or pebble, the server's redis
// command path) runs inside a synctest bubble whose fake clock is the node's
// wall clock. The tape places every command at a chosen instant relative to
// the outstanding expiry instants (before, in the boundary second, at the
// exact instant, after) and interleaves compactions, restarts (kill -9 and
// graceful; replay and checkpoint restore with a later clock) and, under
// local_deletion, the node's own background deletion passes. Every reply is
// compared with the reference model in model.go.
package ttlsim

import (
	"fmt"
	"os"
	"strings"
	"testing"
	"testing/synctest"
	"time"

	"github.com/youzan/ZanRedisDB/node"
	"github.com/youzan/ZanRedisDB/raft"

	"verif/sim/core"
	"verif/sim/nodeh"
)

var Engine = core.Engine{Name: "ttlsim", Run: Run}

type cfg struct {
	ld                                                bool // local_deletion (else wait_compact + value_header_v1)
	engine                                            string
	snapCount                                         int
	catchup                                           int
	keepBack                                          int
	steps                                             int
	types                                             string // enabled key types
	sameInst                                          bool   // some commands share one timestamp
	wCmd, wAim, wNudge, wCompact, wKill, wStop, wTick int
	expTypes                                          string // types that are given expiries
	readPm                                            int    // share of reads among commands
	expPm                                             int    // share of expiry-giving commands among writes
}

type sim struct {
	c       *core.RunCtx
	t       *core.Tape
	g       cfg
	cl      *nodeh.Cluster
	m       *Model
	nval    int
	ops     int
	env     int
	bootAt  int64 // clock when the store of the current process was opened
	focus   string
	burst   int
	frozen  bool    // commands share one timestamp
	follow  *Expiry // bracket plan: revisit this expiry from the other side
	inBurst bool
	gen     map[string]int // key slot -> generation of its name
	retired map[string]bool
	head    []string
}

func pick(t *core.Tape, vals ...int) int { return vals[t.Choose(len(vals))] }

func drawCfg(c *core.RunCtx) cfg {
	t := c.Tape
	var g cfg
	g.ld = t.Choose(4) == 3
	g.engine = []string{"mem", "pebble"}[t.Choose(2)]
	g.snapCount = pick(t, 10, 5, 20, 40, 200)
	g.catchup = pick(t, 3, 2, 5)
	g.keepBack = pick(t, 1, 0, 2)
	g.steps = pick(t, 120, 80, 200)
	if c.Tier == "thorough" {
		g.steps = pick(t, 200, 120, 400)
	}
	all := "khlszb"
	switch t.Choose(4) {
	case 0:
		g.types = all
	case 1:
		g.types = "k"
	case 2:
		g.types = string(all[1+t.Choose(5)]) + "k"
	default:
		g.types = ""
		for _, ch := range all {
			if t.Bool(500) {
				g.types += string(ch)
			}
		}
		if g.types == "" {
			g.types = "kh"
		}
	}
	if g.ld {
		// local deletion does not handle bitmaps (documented in code only): no expiry to check
		g.types = strings.ReplaceAll(g.types, "b", "")
		if g.types == "" {
			g.types = "k"
		}
	}
	g.expTypes = g.types
	if g.ld && g.engine == "mem" {
		// finding "ld-mem-engine-checker-self-deadlock": on the mem engine one
		// background deletion pass that meets due keys of two different types
		// blocks forever on the engine's writer lock (and the bubble with it):
		// only one type is given expiries in such runs
		g.expTypes = string(g.types[t.Choose(len(g.types))])
	}
	g.sameInst = t.Choose(6) == 5
	g.wCmd = 700
	g.wAim = pick(t, 150, 80, 250)
	g.wNudge = pick(t, 40, 10, 100)
	g.wCompact = pick(t, 15, 0, 40)
	g.wKill = pick(t, 8, 0, 20)
	g.wStop = pick(t, 4, 0, 12)
	g.wTick = 0
	if g.ld {
		g.wTick = pick(t, 30, 10, 60)
	}
	g.readPm = pick(t, 450, 300, 600)
	g.expPm = pick(t, 250, 150, 400)
	return g
}

func Run(c *core.RunCtx) {
	s := &sim{c: c, t: c.Tape, gen: map[string]int{}, retired: map[string]bool{}}
	s.g = drawCfg(c)
	// election timeouts are drawn from a package-level PRNG that the repository
	// seeds from the real clock
	raft.VerifSeedGlobalRand(int64(c.Tape.U32()))
	c.Log("cfg", "%+v", s.g)
	// a run that does not end (a goroutine of the node blocked on a lock that is
	// never released stalls the bubble's clock) is infrastructure, not a verdict
	wd := time.AfterFunc(4*time.Minute, func() {
		fmt.Fprintf(core.Stdout, "WATCHDOG: ttlsim run did not finish within 4 minutes of wall time: cfg %+v\n", s.g)
		os.Exit(2)
	})
	defer wd.Stop()
	func() {
		defer func() {
			if e := recover(); e != nil {
				msg := fmt.Sprint(e)
				if strings.Contains(msg, "deadlock: main bubble goroutine has exited") {
					c.Count("infra.bubble_leftover_goroutines", 1)
					return
				}
				panic(e)
			}
		}()
		synctest.Test(c.T, func(t *testing.T) { s.bubble() })
	}()
	if s.m == nil {
		return
	}
	// the worker reports the first violation of a run: unexplained ones first
	var un, kn []core.Violation
	for _, v := range c.Viol {
		if v.Key == "" {
			un = append(un, v)
		} else {
			kn = append(kn, v)
		}
	}
	c.Viol = append(un, kn...)
	for _, n := range core.SortedKeys(s.m.Notes) {
		c.Count("probe."+n, int64(s.m.Notes[n]))
	}
	c.Count("cand_overflow", int64(s.m.Overflow))
	c.Count("commands", int64(s.ops))
	ba := s.m.BeforeAndAfter()
	c.Count("keys_seen_before_and_after_expiry", int64(ba))
	// non-trivial: at least one key incarnation was observed alive strictly
	// before and dead strictly after one and the same expiry second (under
	// local_deletion also: observed intact before its deadline and a background
	// pass ran with that key due), at least one environment event (compaction,
	// restart, background pass) happened and at least 30 commands were checked
	seen := ba >= 1 || (s.g.ld && s.m.Notes["alive_before"] > 0 && c.Stats["probe.ttl_checker_pass_with_due_keys"] > 0)
	c.NonTrivial = seen && s.env >= 1 && s.ops >= 30
	c.Events = int64(s.ops + s.env)
	pol := "wait_compact"
	if s.g.ld {
		pol = "local_deletion"
	}
	c.Sample = map[string]interface{}{"policy": pol, "config": fmt.Sprintf("%+v", s.g), "commands": s.ops, "env_events": s.env,
		"keys_seen_before_and_after_expiry": ba, "head": s.head}
}

const prop = "C10"

// failed: an unexplained violation ends the run; a violation that is exactly
// a known finding is recorded, absorbed by the model and the run goes on.
func (s *sim) failed() bool {
	for _, v := range s.c.Viol {
		if v.Key == "" {
			return true
		}
	}
	return false
}

func (s *sim) now() int64 { return time.Now().UnixNano() }

func fmtT(ns int64) string { return fmt.Sprintf("%d.%09d", ns/sec, ns%sec) }

func (s *sim) sleepTo(target int64) {
	if d := target - s.now(); d > 0 {
		s.cl.Sleep(time.Duration(d))
	}
}

func (s *sim) store() *node.KVStore {
	nn := s.cl.M[0].Parts[0]
	return node.VerifKVStore(nn.Node.VerifStateMachine())
}

func (s *sim) bubble() {
	c, t, g := s.c, s.t, s.g
	opt := nodeh.Options{Machines: 1, Partitions: 1, Replicas: 1, Engine: g.engine, SnapCount: g.snapCount, SnapCatchup: g.catchup, KeepBackup: g.keepBack}
	if g.ld {
		opt.ExpPolicy = "local_deletion"
	} else {
		opt.ExpPolicy = "wait_compact"
		opt.DataVersion = "value_header_v1"
	}
	s.bootAt = s.now()
	cl := nodeh.New(c, opt)
	s.cl = cl
	defer cl.Close()
	s.m = NewModel(g.ld)
	cl.PumpFair(80, func() bool { return cl.Leader(0) >= 0 })
	if cl.Leader(0) < 0 {
		c.Violate(prop, "no-initial-leader", "", "no leader after 80 fair rounds on a fresh single-replica node")
		return
	}
	// a tape-chosen sub-second phase so that command timestamps are not aligned
	cl.Sleep(time.Duration(t.Choose(1000)) * time.Millisecond)
	w := []int{g.wCmd, g.wAim, g.wNudge, g.wCompact, g.wKill, g.wStop, g.wTick}
	for i := 0; i < g.steps && !s.failed(); i++ {
		ev := t.Weighted(w)
		if s.burst > 0 {
			ev = 0
		} else if s.follow != nil {
			// second half of a bracket: the same expiry seen from after
			e := *s.follow
			s.follow = nil
			after := []int64{e.Xhi, e.Xhi + 1000000, e.Sec*sec + sec, e.Sec*sec + sec + int64(t.Choose(1500))*1000000}[t.Choose(4)]
			if after >= s.now() {
				c.Log("aim-after", "%s E=%d -> %s", e.ID, e.Sec, fmtT(after))
				s.sleepTo(after)
				s.focus, s.burst = e.ID, 1+t.Choose(3)
				ev = 0
			}
		}
		switch ev {
		case 0:
			s.command()
		case 1:
			s.aim()
		case 2:
			d := time.Duration(1+t.Choose(1500)) * time.Millisecond
			if g.ld && t.Bool(300) {
				d = time.Duration(1+t.Choose(120)) * time.Second
			}
			c.Log("advance", "%v", d)
			cl.Sleep(d)
		case 3:
			s.compact()
		case 4:
			s.restart(true)
		case 5:
			s.restart(false)
		case 6:
			s.toTick()
		}
	}
	// final sweep: every key once more, well after every wait_compact expiry
	if !s.failed() {
		if !g.ld {
			cl.Sleep(2500 * time.Millisecond)
		}
		switch {
		case s.env == 0 && t.Bool(500):
			s.compact()
		case s.env == 0 || t.Bool(400):
			s.restart(t.Bool(500))
		}
		for _, typ := range g.types {
			for k := 0; k < 2 && !s.failed(); k++ {
				s.exec(s.fullRead(byte(typ), s.name(byte(typ), k)))
			}
		}
	}
	c.SimMs = (s.now() - time.Date(2000, 1, 1, 0, 0, 0, 0, time.UTC).UnixNano()) / 1e6
}

// name of key slot i of a type. Under local_deletion a name is retired when a
// restart happens after background deletion may have touched it: replay of
// the log does not repeat the node-local deletions at the same points, so
// from then on the documents promise nothing checkable about that name.
func (s *sim) name(typ byte, i int) string {
	slot := fmt.Sprintf("t:%c%d", typ, i)
	if g := s.gen[slot]; g > 0 {
		return fmt.Sprintf("%s_%d", slot, g)
	}
	return slot
}

func (s *sim) retireTouched() {
	for _, id := range core.SortedKeys(s.m.LDTouched) {
		s.retire(id)
		s.c.Probe("ld_name_retired_at_restart")
	}
}

func (s *sim) retire(id string) {
	key := id[2:]
	slot := key
	if i := strings.IndexByte(slot, '_'); i >= 0 {
		slot = slot[:i]
	}
	if s.name(id[0], int(slot[3]-'0')) == key {
		s.gen[slot]++
	}
	s.m.Retire(id)
	s.retired[key] = true
	s.c.Log("retire", "%s", id)
	if s.focus == id {
		s.focus, s.burst = "", 0
	}
	if s.follow != nil && s.follow.ID == id {
		s.follow = nil
	}
}

func (s *sim) fullRead(typ byte, key string) Op {
	switch typ {
	case 'k':
		return Op{Name: "get", Typ: typ, Keys: []string{key}}
	case 'h':
		return Op{Name: "hgetall", Typ: typ, Keys: []string{key}}
	case 'l':
		return Op{Name: "lrange", Typ: typ, Keys: []string{key}, Args: []string{"0", "-1"}}
	case 's':
		return Op{Name: "smembers", Typ: typ, Keys: []string{key}}
	case 'z':
		return Op{Name: "zrange", Typ: typ, Keys: []string{key}, Args: []string{"0", "-1", "withscores"}}
	}
	return Op{Name: "bitcount", Typ: typ, Keys: []string{key}}
}

// ---- environment events ------------------------------------------------------------

func (s *sim) compact() {
	c := s.c
	st := s.store()
	if st == nil {
		return
	}
	gh := s.m.Ghosts(s.now())
	c.Log("compact", "at %s ghosts=%d", fmtT(s.now()), gh)
	st.CompactAllRange()
	synctest.Wait()
	c.Fault("compaction")
	s.env++
	if gh > 0 {
		c.Probe("compaction_with_expired_data")
	}
	if s.m.LiveExpiries(s.now()) > 0 {
		c.Probe("compaction_with_live_expiring_data")
	}
}

func (s *sim) restart(kill bool) {
	c, cl := s.c, s.cl
	m := cl.M[0]
	gh, live := s.m.Ghosts(s.now()), s.m.LiveExpiries(s.now())
	if s.g.ld {
		s.retireTouched()
	}
	compacted := false
	if nn := m.Parts[0]; nn != nil {
		if first, _ := nn.Node.VerifRaftStorageIndexes(); first > 1 {
			// the log was cut behind a snapshot: the restart restores the
			// checkpoint and replays only the tail
			compacted = true
		}
	}
	if kill {
		c.Log("kill", "at %s", fmtT(s.now()))
		c.Fault("kill")
		cl.Kill(m)
	} else {
		c.Log("stop", "at %s", fmtT(s.now()))
		c.Fault("stop_graceful")
		cl.StopGraceful(m)
	}
	// the process stays down for a tape-chosen time: expiries pass meanwhile
	down := time.Duration(s.t.Choose(4000)) * time.Millisecond
	if s.g.ld && s.t.Bool(300) {
		down = time.Duration(s.t.Choose(400)) * time.Second
	}
	cl.Sleep(down)
	if err := cl.Restart(m); err != nil {
		c.Violate(prop, "restart-failed", "", "node does not come back on its directory: %v", err)
		return
	}
	s.bootAt = s.now()
	cl.PumpFair(100, func() bool { return cl.Leader(0) >= 0 })
	if cl.Leader(0) < 0 {
		c.Violate(prop, "no-leader-after-restart", "", "no leader 100 fair rounds after the restart")
		return
	}
	c.Log("restarted", "at %s", fmtT(s.now()))
	if n := s.m.OnRestart(s.now()); n > 0 {
		c.Probe("restart_after_expiry_of_hcleared_hash")
	}
	s.env++
	if compacted {
		c.Probe("restart_restores_checkpoint_then_replays_tail")
	} else {
		c.Probe("restart_replays_whole_log")
	}
	if gh > 0 {
		c.Probe("restart_with_expired_data")
	}
	if live > 0 {
		c.Probe("restart_with_live_expiring_data")
	}
	if gh2 := s.m.Ghosts(s.now()); gh2 > gh {
		c.Probe("replay_with_later_clock")
	}
}

// toTick moves the clock to the neighbourhood of the store's next background
// deletion pass (the node's own ticker: every 300 s from the open of the store).
func (s *sim) toTick() {
	c := s.c
	now := s.now()
	period := 300 * sec
	k := (now-s.bootAt)/period + 1
	tick := s.bootAt + k*period
	off := []int64{-1000000, 0, 1000000, sec, 2 * sec}[s.t.Choose(5)]
	due := s.m.DueLD(tick)
	c.Log("to-tick", "tick %s off %d due=%d", fmtT(tick), off, due)
	s.sleepTo(tick + off)
	if s.now() >= tick {
		s.env++
		c.Fault("ttl_checker_tick")
		if due > 0 {
			c.Probe("ttl_checker_pass_with_due_keys")
		}
	}
}

// aim moves the clock to a chosen position relative to an outstanding expiry
// instant and focuses the next few commands on that key.
func (s *sim) aim() {
	c, t := s.c, s.t
	out := s.m.Outstanding()
	now := s.now()
	var fut []Expiry
	for _, e := range out {
		if e.Xhi+2*sec > now {
			fut = append(fut, e)
		}
	}
	if len(fut) == 0 {
		return
	}
	e := fut[t.Choose(len(fut))]
	E := e.Sec * sec
	f := e.Xhi - E // sub-second phase of the command that gave the expiry
	cands := []int64{
		E - 2*sec - int64(t.Choose(900))*1000000, // two whole seconds and a bit before
		E - sec - 1000000,
		E - sec,
		E - 1000000,
		E - 1,
		E,
		E + 1,
		E + 1000000,
		E + f - 1000000,
		E + f - 1,
		E + f,
		E + f + 1000000,
		E + 999000000,
		E + sec,
		E + sec + int64(t.Choose(1500))*1000000,
	}
	pos := t.Choose(len(cands))
	target := cands[pos]
	if target < now {
		// the nearest later position
		for _, x := range cands {
			if x >= now {
				target = x
				break
			}
		}
		if target < now {
			return
		}
	}
	c.Log("aim", "%s E=%d pos=%d -> %s", e.ID, e.Sec, pos, fmtT(target))
	s.sleepTo(target)
	s.focus = e.ID
	s.burst = 1 + t.Choose(4)
	if target < E && !s.g.ld && t.Bool(600) {
		s.follow = &e
	}
}

// ---- commands ---------------------------------------------------------------------

func (s *sim) val() string {
	s.nval++
	return fmt.Sprintf("v%d", s.nval)
}

func (s *sim) command() {
	t, g := s.t, s.g
	var typ byte
	var key string
	s.inBurst = false
	if s.burst > 0 && s.focus != "" {
		s.burst--
		s.inBurst = true
		typ, key = s.focus[0], s.focus[2:]
	} else {
		s.burst = 0
		typ = g.types[t.Choose(len(g.types))]
		key = s.name(typ, t.Choose(2))
	}
	var op Op
	if g.sameInst && !g.ld && typ != 'k' && t.Bool(40) {
		// create, clear (or EXPIRE 0) and create again under one timestamp
		s.frozen = true
		seq := []Op{s.genWrite(typ, key), s.clearOp(typ, key), s.genWrite(typ, key), s.fullRead(typ, key)}
		if t.Bool(300) {
			seq[1] = Op{Name: string(typ) + "expire", Typ: typ, Keys: []string{key}, Args: []string{"0"}}
		}
		for i, o := range seq {
			if i == len(seq)-1 {
				s.frozen = false
			}
			if s.retired[key] || s.failed() {
				break
			}
			s.exec(o)
		}
		s.frozen = false
		c := s.c
		c.Probe("create_clear_create_under_one_timestamp")
		return
	}
	if !g.ld && typ != 'b' && t.Bool(25) {
		s.scan(typ)
		return
	}
	rp := g.readPm
	if s.inBurst && rp < 650 {
		rp = 650
	}
	if t.Bool(rp) {
		op = s.genRead(typ, key)
	} else if t.Bool(g.expPm) && strings.IndexByte(g.expTypes, typ) >= 0 {
		op = s.genExpiry(typ, key)
	} else {
		op = s.genWrite(typ, key)
	}
	s.exec(op)
}

func (s *sim) clearOp(typ byte, key string) Op {
	if typ == 'b' {
		return Op{Name: "bitclear", Typ: typ, Keys: []string{key}}
	}
	return Op{Name: string(typ) + "clear", Typ: typ, Keys: []string{key}}
}

func (s *sim) ttlSecs() string {
	t := s.t
	if s.g.ld {
		return fmt.Sprint(pick(t, 2, 1, 5, 60, 299, 300, 301, 450, 900))
	}
	return fmt.Sprint(pick(t, 2, 1, 3, 5, 8))
}

func (s *sim) genExpiry(typ byte, key string) Op {
	t := s.t
	k := []string{key}
	pre := ""
	if typ != 'k' {
		pre = string(typ)
	}
	switch t.Weighted([]int{50, 20, 15, 15}) {
	case 0:
		if typ == 'k' && t.Bool(500) {
			if t.Bool(300) {
				return Op{Name: "set", Typ: typ, Keys: k, Args: []string{s.val(), "ex", s.ttlSecs()}}
			}
			return Op{Name: "setex", Typ: typ, Keys: k, Args: []string{s.ttlSecs(), s.val()}}
		}
		if t.Bool(60) {
			// EXPIRE 0: the key's time is up at once
			return Op{Name: pre + "expire", Typ: typ, Keys: k, Args: []string{"0"}}
		}
		return Op{Name: pre + "expire", Typ: typ, Keys: k, Args: []string{s.ttlSecs()}}
	case 1:
		return Op{Name: pre + "persist", Typ: typ, Keys: k}
	case 2:
		return Op{Name: ttlName(typ), Typ: typ, Keys: k}
	default:
		switch typ {
		case 'k':
			if t.Bool(300) {
				return Op{Name: "del", Typ: typ, Keys: []string{s.name('k', 0), s.name('k', 1)}}
			}
			return Op{Name: "del", Typ: typ, Keys: k}
		case 'b':
			return Op{Name: "bitclear", Typ: typ, Keys: k}
		}
		return Op{Name: pre + "clear", Typ: typ, Keys: k}
	}
}

func (s *sim) genRead(typ byte, key string) Op {
	t := s.t
	k := []string{key}
	pre := string(typ)
	o := func(name string, args ...string) Op { return Op{Name: name, Typ: typ, Keys: k, Args: args} }
	if t.Bool(150) {
		return o(ttlName(typ))
	}
	switch typ {
	case 'k':
		switch t.Choose(7) {
		case 0, 1:
			return o("get")
		case 6:
			return o("getrange", fmt.Sprint(t.Choose(3)), fmt.Sprint(pick(t, 3, -1, 1)))
		case 2:
			return o("exists")
		case 3:
			return Op{Name: "exists", Typ: typ, Keys: []string{s.name('k', 0), s.name('k', 1)}}
		case 4:
			return Op{Name: "mget", Typ: typ, Keys: []string{s.name('k', 0), s.name('k', 1)}}
		default:
			return o("strlen")
		}
	case 'h':
		switch t.Choose(9) {
		case 8:
			return o("hscan", "", "count", "100")
		case 0, 1:
			return o("hgetall")
		case 2:
			return o("hlen")
		case 3:
			return o("hkeyexist")
		case 4:
			return o("hget", s.field())
		case 5:
			return o("hexists", s.field())
		case 6:
			return o("hmget", "f0", "f1", "f2")
		default:
			return o([]string{"hkeys", "hvals"}[t.Choose(2)])
		}
	case 'l':
		switch t.Choose(5) {
		case 0, 1:
			return o("lrange", "0", "-1")
		case 2:
			return o("llen")
		case 3:
			return o("lkeyexist")
		default:
			return o("lindex", fmt.Sprint(t.Choose(3)))
		}
	case 's':
		switch t.Choose(7) {
		case 5:
			return o("sscan", "", "count", "100")
		case 6:
			return o("srandmember", "5")
		case 0, 1:
			return o("smembers")
		case 2:
			return o("scard")
		case 3:
			return o("skeyexist")
		default:
			return o("sismember", s.member())
		}
	case 'z':
		switch t.Choose(10) {
		case 6:
			return o("zscan", "", "count", "100")
		case 7:
			return o("zrangebyscore", "-inf", "+inf")
		case 8:
			return o("zrevrange", "0", "-1")
		case 9:
			return o("zcount", "-inf", "+inf")
		case 0, 1:
			return o("zrange", "0", "-1", "withscores")
		case 2:
			return o("zcard")
		case 3:
			return o("zkeyexist")
		case 4:
			return o("zscore", s.member())
		default:
			return o("zrank", s.member())
		}
	}
	switch t.Choose(3) {
	case 0:
		return o("getbit", s.bitOff())
	case 1:
		return o("bitcount")
	default:
		return o(pre + "keyexist")
	}
}

func (s *sim) field() string  { return fmt.Sprintf("f%d", s.t.Choose(3)) }
func (s *sim) member() string { return fmt.Sprintf("m%d", s.t.Choose(4)) }
func (s *sim) bitOff() string { return fmt.Sprint(pick(s.t, 0, 5, 9, 70)) }

func (s *sim) genWrite(typ byte, key string) Op {
	t := s.t
	k := []string{key}
	o := func(name string, args ...string) Op { return Op{Name: name, Typ: typ, Keys: k, Args: args} }
	switch typ {
	case 'k':
		switch t.Weighted([]int{12, 8, 6, 14, 10, 12, 8, 8, 5, 5, 6}) {
		case 0:
			return o("set", s.val())
		case 1:
			return o("getset", s.val())
		case 2:
			return Op{Name: "plset", Typ: typ, Keys: []string{s.name('k', 0), s.name('k', 1)}, Args: []string{s.val(), s.val()}}
		case 3:
			return o("append", s.val())
		case 4:
			return o("setrange", fmt.Sprint(t.Choose(5)), s.val())
		case 5:
			return o("incr")
		case 6:
			return o("incrby", fmt.Sprint(1+t.Choose(9)))
		case 7:
			return o("setnx", s.val())
		case 8:
			return o("set", s.val(), "nx")
		case 9:
			return o("set", s.val(), "xx")
		default:
			// a numeric value so that INCR meets live strings and live numbers
			return o("set", fmt.Sprint(t.Choose(50)))
		}
	case 'h':
		switch t.Weighted([]int{30, 12, 15, 15, 6}) {
		case 0:
			return o("hset", s.field(), s.val())
		case 1:
			f := s.t.Choose(3)
			return o("hmset", fmt.Sprintf("f%d", f), s.val(), fmt.Sprintf("f%d", (f+1)%3), s.val())
		case 2:
			return o("hincrby", "n"+fmt.Sprint(t.Choose(2)), fmt.Sprint(1+t.Choose(5)))
		case 3:
			if t.Bool(300) {
				return o("hdel", "f0", "f1", "f2", "n0", "n1")
			}
			return o("hdel", s.field())
		default:
			return o("hsetnx", s.field(), s.val())
		}
	case 'l':
		switch t.Weighted([]int{20, 20, 12, 12, 10, 8}) {
		case 0:
			return o("lpush", s.val())
		case 1:
			if t.Bool(300) {
				return o("rpush", s.val(), s.val())
			}
			return o("rpush", s.val())
		case 2:
			return o("lpop")
		case 3:
			return o("rpop")
		case 4:
			return o("lset", fmt.Sprint(t.Choose(3)), s.val())
		default:
			return o("ltrim", "0", fmt.Sprint(t.Choose(3)))
		}
	case 's':
		switch t.Weighted([]int{35, 20, 15}) {
		case 0:
			if t.Bool(300) {
				i := t.Choose(4)
				return o("sadd", fmt.Sprintf("m%d", i), fmt.Sprintf("m%d", (i+1)%4))
			}
			return o("sadd", s.member())
		case 1:
			return o("srem", s.member())
		default:
			if t.Bool(300) {
				return o("spop", "2")
			}
			return o("spop")
		}
	case 'z':
		switch t.Weighted([]int{35, 20, 20}) {
		case 0:
			if t.Bool(300) {
				i := t.Choose(4)
				return o("zadd", fmt.Sprint(t.Choose(5)), fmt.Sprintf("m%d", i), fmt.Sprint(t.Choose(5)), fmt.Sprintf("m%d", (i+1)%4))
			}
			return o("zadd", fmt.Sprint(t.Choose(5)), s.member())
		case 1:
			return o("zincrby", fmt.Sprint(1+t.Choose(3)), s.member())
		default:
			return o("zrem", s.member())
		}
	}
	if t.Bool(250) {
		return o("setbit", s.bitOff(), "0")
	}
	return o("setbit", s.bitOff(), "1")
}

// scan lists the keys of one type in the table and checks the listing.
func (s *sim) scan(typ byte) {
	c, cl := s.c, s.cl
	tn := map[byte]string{'k': "kv", 'h': "hash", 'l': "list", 's': "set", 'z': "zset"}[typ]
	args := []interface{}{"advscan", nodeh.NS + ":t:", tn, "count", "100"}
	if typ == 'k' && s.t.Bool(500) {
		args = []interface{}{"scan", nodeh.NS + ":t:", "count", "100"}
	}
	tInv := s.now()
	call := cl.Invoke(cl.M[0], nodeh.Cmd(args...))
	for r := 0; r < 100 && !call.Done(); r++ {
		cl.PumpFair(1, nil)
	}
	r, ok := call.Reply()
	c.Log("scan", "@%s %v -> %s", fmtT(tInv), args[:3], nodeh.Fmt(r))
	s.ops++
	var listed []string
	good := false
	if arr, isArr := r.([]interface{}); ok && isArr && len(arr) == 2 {
		if cur, isB := arr[0].([]byte); isB && len(cur) == 0 {
			if l, isL := arr[1].([]interface{}); isL {
				good = true
				for _, x := range l {
					b, isB := x.([]byte)
					if !isB {
						good = false
					}
					listed = append(listed, string(b))
				}
			}
		}
	}
	if !good {
		c.Violate(prop, "scan-reply-malformed", "", "%v at %s answered %s", args, fmtT(tInv), nodeh.Fmt(r))
		return
	}
	res := s.m.CheckScan(typ, tInv, listed, s.retired)
	switch {
	case !res.OK:
		c.Violate(prop, "scan-differs-from-model", "", "%v at %s answered %s: %s (engine %s)", args[:3], fmtT(tInv), nodeh.Fmt(r), res.Expected, s.g.engine)
	case res.Via != "":
		c.Probe("scan_listed_dead_key")
		c.Violate(prop, "known-"+res.Via, res.Via, "%v at %s answered %s (engine %s)", args[:3], fmtT(tInv), nodeh.Fmt(r), s.g.engine)
	}
}

func isRead(name string) bool {
	switch name {
	case "getrange", "hscan", "sscan", "srandmember", "zscan", "zrangebyscore", "zrevrange", "zcount":
		return true
	case "get", "strlen", "exists", "mget", "ttl", "hgetall", "hlen", "hkeyexist", "hget", "hexists", "hmget", "hkeys", "hvals", "httl",
		"lrange", "llen", "lkeyexist", "lindex", "lttl", "smembers", "scard", "skeyexist", "sismember", "sttl",
		"zrange", "zcard", "zkeyexist", "zscore", "zrank", "zttl", "getbit", "bitcount", "bkeyexist", "bttl":
		return true
	}
	return false
}

func toCmd(op Op) []interface{} {
	xs := []interface{}{op.Name}
	if op.Name == "plset" {
		for i, k := range op.Keys {
			xs = append(xs, nodeh.NS+":"+k, op.Args[i])
		}
		return xs
	}
	for _, k := range op.Keys {
		xs = append(xs, nodeh.NS+":"+k)
	}
	for _, a := range op.Args {
		xs = append(xs, a)
	}
	return xs
}

func canon(r interface{}, ok bool) string {
	if !ok {
		return "<no reply>"
	}
	if nodeh.IsErr(r) {
		return rErr
	}
	return nodeh.Fmt(r)
}

// exec issues one command at the current instant, checks the reply against
// the model and lets a little simulated time pass.
func (s *sim) exec(op Op) {
	c, cl := s.c, s.cl
	tInv := s.now()
	// evidence about where this command sits relative to the key's expiry
	rd := isRead(op.Name)
	for _, e := range s.m.Outstanding() {
		if e.ID == string(op.Typ)+"|"+op.Keys[0] && !s.g.ld {
			switch {
			case tInv/sec == e.Sec && rd:
				c.Probe("read_at_boundary_second")
			case tInv/sec == e.Sec:
				c.Probe("write_at_boundary_second")
			}
			if tInv == e.Sec*sec || tInv == e.Xhi {
				c.Probe("command_exactly_at_expiry_instant")
			}
		}
	}
	call := cl.Invoke(cl.M[0], nodeh.Cmd(toCmd(op)...))
	if !call.Done() {
		c.Probe("command_needed_pumping")
		for r := 0; r < 100 && !call.Done(); r++ {
			cl.PumpFair(1, nil)
		}
	}
	r, ok := call.Reply()
	actual := canon(r, ok)
	raw := actual
	if ok && nodeh.IsErr(r) {
		raw = nodeh.Fmt(r)
	}
	c.Log(op.Name, "@%s %s -> %s", fmtT(tInv), op, raw)
	s.ops++
	if len(s.head) < 14 {
		s.head = append(s.head, fmt.Sprintf("@%s %s -> %s", fmtT(tInv), op, raw))
	}
	res := s.m.Apply(op, tInv, actual)
	switch {
	case !res.OK:
		rule := "reply-differs-from-model"
		if s.g.ld {
			rule = "ld-reply-differs-from-model"
		}
		c.Violate(prop, rule, "", "%s at %s answered %s, the model allows %s (policy %s, engine %s)", op, fmtT(tInv), raw, res.Expected, s.policy(), s.g.engine)
	case res.Via != "":
		c.Violate(prop, "known-"+res.Via, res.Via, "%s at %s answered %s (policy %s, engine %s)", op, fmtT(tInv), raw, s.policy(), s.g.engine)
		if res.Retire {
			s.retire(string(op.Typ) + "|" + op.Keys[0])
		}
	}
	// simulated time flows with work
	if s.frozen {
		return
	}
	if !rd {
		if s.g.sameInst && s.t.Bool(400) {
			c.Probe("same_timestamp_as_next_command")
			return
		}
		cl.Sleep(time.Duration(1+s.t.Choose(3)) * time.Millisecond)
	} else if s.t.Bool(200) {
		cl.Sleep(time.Millisecond)
	}
}

func (s *sim) policy() string {
	if s.g.ld {
		return "local_deletion"
	}
	return "wait_compact"
}
