package ttlsim

import "verif/sim/core"

var Engine = core.Engine{Name: "ttlsim", Run: Run}

func Run(c *core.RunCtx) {}
