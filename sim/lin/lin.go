// Package lin checks recorded client histories for linearizability against
// the reference model with porcupine, one partition per (type,key).
package lin

import (
	"encoding/json"
	"fmt"
	"math"
	"sort"
	"time"

	"github.com/anishathalye/porcupine"

	"verif/sim/model"
)

// Op is one client operation. Call/Ret are global event sequence numbers.
// Known=false: the client got an error or no reply; the operation may have
// taken effect at any time after Call, or never.
type Op struct {
	Client int
	Args   []string // args[0] command, args[1] key (no namespace), rest
	Call   int64
	Ret    int64
	Reply  interface{}
	Known  bool
	// Relax marks operations whose reply may legally be the "nothing to do"
	// answer of a local pre-check (used only when re-checking for a known
	// finding; see CheckRelaxed).
	Relax bool
	Note  string
}

type keyState struct {
	T string            `json:"t,omitempty"`
	S string            `json:"s,omitempty"`
	L []string          `json:"l,omitempty"`
	H map[string]string `json:"h,omitempty"`
	M []string          `json:"m,omitempty"`
	Z map[string]float64 `json:"z,omitempty"`
	E bool              `json:"e,omitempty"` // kv exists
}

func load(state string, typ, key string) *model.Store {
	st := model.New()
	if state == "" {
		return st
	}
	var ks keyState
	json.Unmarshal([]byte(state), &ks)
	switch typ {
	case "kv":
		if ks.E {
			st.KV[key] = ks.S
		}
	case "list":
		if len(ks.L) > 0 {
			st.List[key] = ks.L
		}
	case "hash":
		if len(ks.H) > 0 {
			st.Hash[key] = ks.H
		}
	case "set":
		if len(ks.M) > 0 {
			s := map[string]bool{}
			for _, m := range ks.M {
				s[m] = true
			}
			st.Set[key] = s
		}
	case "zset":
		if len(ks.Z) > 0 {
			st.ZSet[key] = ks.Z
		}
	}
	return st
}

func save(st *model.Store, typ, key string) string {
	var ks keyState
	empty := true
	switch typ {
	case "kv":
		if v, ok := st.KV[key]; ok {
			ks.E, ks.S, empty = true, v, false
		}
	case "list":
		if l := st.List[key]; len(l) > 0 {
			ks.L, empty = l, false
		}
	case "hash":
		if h := st.Hash[key]; len(h) > 0 {
			ks.H, empty = h, false
		}
	case "set":
		if s := st.Set[key]; len(s) > 0 {
			for m := range s {
				ks.M = append(ks.M, m)
			}
			sort.Strings(ks.M)
			empty = false
		}
	case "zset":
		if z := st.ZSet[key]; len(z) > 0 {
			ks.Z, empty = z, false
		}
	}
	if empty {
		return ""
	}
	b, _ := json.Marshal(&ks) // map keys are sorted by encoding/json
	return string(b)
}

type input struct {
	args  []string
	typ   string
	relax bool
}

type output struct {
	known bool
	reply interface{}
}

func partKey(o *Op) string { return model.TypeOf(o.Args[0]) + "|" + o.Args[1] }

func mkModel(relaxed bool) porcupine.Model {
	return porcupine.Model{
		Partition: func(h []porcupine.Operation) [][]porcupine.Operation {
			m := map[string][]porcupine.Operation{}
			var order []string
			for _, op := range h {
				in := op.Input.(input)
				k := in.typ + "|" + in.args[1]
				if _, ok := m[k]; !ok {
					order = append(order, k)
				}
				m[k] = append(m[k], op)
			}
			sort.Strings(order)
			var out [][]porcupine.Operation
			for _, k := range order {
				out = append(out, m[k])
			}
			return out
		},
		Init: func() interface{} { return "" },
		Step: func(state interface{}, in interface{}, out interface{}) (bool, interface{}) {
			i := in.(input)
			o := out.(output)
			st := load(state.(string), i.typ, i.args[1])
			want := st.Apply(i.args)
			ns := save(st, i.typ, i.args[1])
			if !o.known {
				return true, ns
			}
			if model.Equal(o.reply, want) {
				return true, ns
			}
			if relaxed && i.relax && noopReply(i.args[0], o.reply) {
				// the operation answered from a stale local store without
				// proposing: it had no effect
				return true, state
			}
			return false, state
		},
		DescribeOperation: func(in interface{}, out interface{}) string {
			i := in.(input)
			o := out.(output)
			if !o.known {
				return fmt.Sprintf("%v -> ?", i.args)
			}
			return fmt.Sprintf("%v -> %s", i.args, model.Canon(o.reply))
		},
	}
}

// noopReply: the answer a locally pre-checked write gives when it believes
// there is nothing to do.
func noopReply(cmd string, reply interface{}) bool {
	switch cmd {
	case "setnx", "zrem", "srem", "sadd":
		v, ok := reply.(int64)
		return ok && v == 0
	case "lpop", "rpop", "spop":
		return reply == nil
	}
	return false
}

const Inf = math.MaxInt64 / 4

func toPorc(ops []Op) []porcupine.Operation {
	var h []porcupine.Operation
	for i := range ops {
		o := &ops[i]
		ret := o.Ret
		if !o.Known {
			ret = Inf
		}
		h = append(h, porcupine.Operation{ClientId: o.Client, Input: input{args: o.Args, typ: model.TypeOf(o.Args[0]), relax: o.Relax},
			Call: o.Call, Output: output{known: o.Known, reply: o.Reply}, Return: ret})
	}
	return h
}

// Result of a check.
type Result struct {
	Verdict  string // ok | illegal | unknown
	BadKey   string
	BadOps   []string
	PerKeyOK int
}

// Check verifies the history key by key (so that the failing key can be
// named). Must be called outside a synctest bubble (real-time timeout).
func Check(ops []Op, relaxed bool, timeout time.Duration) Result {
	byKey := map[string][]Op{}
	var keys []string
	for _, o := range ops {
		k := partKey(&o)
		if _, ok := byKey[k]; !ok {
			keys = append(keys, k)
		}
		byKey[k] = append(byKey[k], o)
	}
	sort.Strings(keys)
	res := Result{Verdict: "ok"}
	m := mkModel(relaxed)
	for _, k := range keys {
		r := porcupine.CheckOperationsTimeout(m, toPorc(byKey[k]), timeout)
		switch r {
		case porcupine.Ok:
			res.PerKeyOK++
		case porcupine.Illegal:
			res.Verdict = "illegal"
			res.BadKey = k
			for _, o := range byKey[k] {
				r := "?"
				if o.Known {
					r = model.Canon(o.Reply)
				}
				res.BadOps = append(res.BadOps, fmt.Sprintf("c%d [%d,%d] %v -> %s %s", o.Client, o.Call, o.Ret, o.Args, r, o.Note))
			}
			return res
		default:
			if res.Verdict == "ok" {
				res.Verdict = "unknown"
				res.BadKey = k
			}
		}
	}
	return res
}
