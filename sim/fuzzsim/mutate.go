package fuzzsim

import (
	"encoding/base64"
	"sort"
	"strconv"
	"strings"

	"github.com/youzan/ZanRedisDB/common"

	"verif/sim/nodeh"
)

// A mutation replaces/removes/adds arguments of a valid invocation and names
// the shape it produced ("negative-offset", "long-key", "drop-last" ...). The
// shape names, together with the command name and the failure kind, form the
// key under which a finding is reported.

type bad struct {
	v   string
	tag string
}

var intNonNum = []bad{{"abc", "nonnumeric"}, {"", "empty"}, {"1x", "nonnumeric"}, {"0x10", "nonnumeric"}, {" 1", "nonnumeric"}, {"1.5", "nonnumeric"},
	{"1e3", "nonnumeric"}, {"--1", "nonnumeric"}, {"\xef\xbc\x91", "nonnumeric"}, {"\x00", "nonnumeric"}, {"+", "nonnumeric"}, {"1\x00", "nonnumeric"}}
var intOverflow = []bad{{"9223372036854775808", "overflow"}, {"-9223372036854775809", "overflow"}, {"18446744073709551616", "overflow"},
	{"99999999999999999999999999", "overflow"}, {"1e400", "overflow"}}
var intExtreme = []bad{{"9223372036854775807", "maxint"}, {"-9223372036854775808", "minint"}, {"9223372036854775806", "maxint"}, {"-9223372036854775807", "minint"}}
var intNegative = []bad{{"-1", "negative"}, {"-5", "negative"}, {"-2147483648", "negative"}, {"-2147483649", "negative"}, {"-4294967296", "negative"}}
var intHuge = []bad{{"65536", "huge"}, {"1048576", "huge"}, {"16777216", "huge"}, {"268435456", "huge"}, {"2147483647", "huge"}, {"2147483648", "huge"},
	{"4294967295", "huge"}, {"4294967296", "huge"}, {"4294967297", "huge"}, {"1099511627776", "huge"}, {"1152921504606846976", "huge"},
	{"8388607", "huge"}, {"8388608", "huge"}, {"8388609", "huge"}, {"68719476735", "huge"}, {"68719476736", "huge"}}
var intZero = []bad{{"0", "zero"}}
var floatSpecial = []bad{{"nan", "nan"}, {"NaN", "nan"}, {"inf", "inf"}, {"+inf", "inf"}, {"-inf", "inf"}, {"Infinity", "inf"}, {"-Infinity", "inf"},
	{"1e308", "bigfloat"}, {"-1e308", "bigfloat"}, {"1.7976931348623157e308", "bigfloat"}, {"1e309", "overflow"}, {"5e-324", "tinyfloat"}, {"-0", "negzero"},
	{"0x1p-2", "hexfloat"}, {"1_000", "nonnumeric"}, {"abc", "nonnumeric"}, {"", "empty"}, {"9007199254740993", "bigfloat"}, {"1e400", "overflow"}}
var rangeBad = []bad{{"(", "openparen"}, {"((1", "openparen"}, {"(inf", "openinf"}, {"(-inf", "openinf"}, {"(+inf", "openinf"}, {"(nan", "nan"}, {"nan", "nan"},
	{"[1", "bracket"}, {"1(", "nonnumeric"}, {"", "empty"}, {"inf", "inf"}, {"(1e308", "bigfloat"}, {"(-1e308", "bigfloat"}, {"1e309", "overflow"},
	{"(9007199254740992", "bigfloat"}, {"-Inf", "inf"}, {"+INF", "inf"}}
var lexBad = []bad{{"", "empty"}, {"a", "nobracket"}, {"(", "bare"}, {"[", "bare"}, {"++", "nobracket"}, {"[\x00", "binary"}, {"(\xff\xff", "binary"},
	{"+", "swapped"}, {"-", "swapped"}, {"[" + strings.Repeat("m", 10241), "long"}}

var genericJunk = []bad{{"", "empty"}, {"0", "junk"}, {"-1", "junk"}, {"abc", "junk"}, {"nan", "junk"}, {"(", "junk"}, {"*", "junk"}, {"\x00", "junk"},
	{"\xff\xfe", "junk"}, {"\r\n", "junk"}, {" ", "junk"}, {"9223372036854775808", "junk"}, {"[", "junk"}, {"+", "junk"}, {"-", "junk"}, {"$", "junk"},
	{"ex", "junk"}, {"nx", "junk"}, {"withscores", "junk"}, {"count", "junk"}, {"match", "junk"}, {"limit", "junk"}, {"default:tb:s0", "junk"}}

func rep(s string, n int) string {
	if n <= 0 {
		return ""
	}
	return strings.Repeat(s, n)
}

var cacheKeys, cacheFields, cacheVals, cacheValsRare, cacheTabCur []bad

func badKeys(tier string) []bad {
	if cacheKeys == nil {
		cacheKeys = mkBadKeys()
	}
	return cacheKeys
}

func mkBadKeys() []bad {
	mk := common.MaxKeySize
	pre := nodeh.NS + ":" + mainTable + ":"
	long := func(total int) string { return pre + rep("k", total-len(pre)) }
	out := []bad{
		{"s0", "nosep"}, {"", "empty"}, {nodeh.NS + ":", "nsonly"}, {nodeh.NS, "nosep"}, {nodeh.NS + ":s0", "notable"},
		{pre, "emptykeypart"}, {nodeh.NS + "::s0", "emptytable"}, {":" + mainTable + ":s0", "emptyns"}, {"other:" + mainTable + ":s0", "unknownns"},
		{nodeh.NS + "-0:" + mainTable + ":s0", "unknownns"}, {pre + "a:b:c", "colons"}, {pre + ":", "colons"}, {nodeh.NS + "::::", "colons"}, {":", "colons"}, {"::", "colons"},
		{pre + "\x00", "binary"}, {pre + "a\x00b", "binary"}, {nodeh.NS + ":t\x00b:k", "binary"}, {pre + "\xff\xff", "binary"}, {pre + "\r\n", "binary"},
		{pre + " ", "binary"}, {pre + "\xc3\xa9", "binary"}, {pre + "\xff", "binary"}, {nodeh.NS + ":\xff:\xff", "binary"},
		{long(mk - 1), "long"}, {long(mk), "long"}, {long(mk + 1), "long"}, {long(mk + len(nodeh.NS)), "long"}, {long(mk + len(nodeh.NS) + 1), "long"},
		{long(mk + len(nodeh.NS) + 2), "long"}, {long(65535), "long"}, {long(65536), "long"}, {long(65537), "long"}, {long(70000), "long"},
		{nodeh.NS + ":" + rep("t", mk+50) + ":k", "longtable"}, {nodeh.NS + ":" + rep("t", 255) + ":k", "longtable"}, {nodeh.NS + ":" + rep("t", 256) + ":k", "longtable"},
		{nodeh.NS + ":" + rep("t", 65536) + ":k", "longtable"},
	}
	return out
}

func badFields() []bad {
	if cacheFields == nil {
		cacheFields = mkBadFields()
	}
	return cacheFields
}

func mkBadFields() []bad {
	ms := common.MaxSubKeyLen
	return []bad{{"", "empty"}, {"\x00", "binary"}, {"a\x00b", "binary"}, {"\xff", "binary"}, {"a:b", "colon"}, {":", "colon"}, {"-1", "numeric"},
		{rep("f", ms-1), "long"}, {rep("f", ms), "long"}, {rep("f", ms+1), "long"}, {rep("f", 65535), "long"}, {rep("f", 65536), "long"}, {rep("f", 65537), "long"}}
}

func badValues(tier string, rare bool) []bad {
	if cacheVals == nil {
		cacheVals = mkBadValues(false)
		cacheValsRare = mkBadValues(true)
	}
	if rare {
		return cacheValsRare
	}
	return cacheVals
}

func mkBadValues(rare bool) []bad {
	out := []bad{{"", "empty"}, {"\x00\x01\xff", "binary"}, {"\r\n$5\r\nhello\r\n", "binary"}, {rep("v", 65536), "big"}, {rep("v", 1<<20), "big"}}
	if rare {
		mv := common.MaxValueSize
		out = append(out, bad{rep("v", mv-1), "maxsize"}, bad{rep("v", mv), "maxsize"}, bad{rep("v", mv+1), "maxsize"})
	}
	return out
}

var badJSON = []bad{{"{", "invalid"}, {"", "empty"}, {"nul", "invalid"}, {"[1,", "invalid"}, {`{"a":}`, "invalid"}, {"1e999", "bignumber"}, {"\xff", "invalid"},
	{rep("[", 100000), "deep"}, {rep("[", 20000) + rep("]", 20000), "deep"}, {rep(`{"a":`, 20000) + "1" + rep("}", 20000), "deep"},
	{`"` + rep("s", 1<<20) + `"`, "big"}, {"{}{}", "invalid"}, {`{"a":1}garbage`, "invalid"}, {"-", "invalid"}, {`"\ud800"`, "invalid"}}
var badPaths = []bad{{"a.b.c.d", "deep"}, {"arr.-1", "negindex"}, {"arr.20000000", "hugeindex"}, {"arr.4294967296", "hugeindex"}, {"arr.#", "hash"},
	{"obj.*", "wildcard"}, {"..", "dots"}, {".", "dots"}, {"a..b", "dots"}, {"#", "hash"}, {"@reverse", "modifier"}, {"arr.#(", "query"}, {"\x00", "binary"},
	{rep("a.", 20000) + "a", "long"}, {"-1", "negindex"}, {"arr.18446744073709551616", "hugeindex"}, {"arr.1000000", "hugeindex"}, {"arr.:1", "colon"},
	{"obj.x.y", "deep"}, {"a.0", "indexonscalar"}, {"arr.-", "append"}, {"*", "wildcard"}, {"?", "wildcard"}, {"arr.#.x", "hash"}, {"|", "pipe"}}
var badWhere = []bad{{"=1", "nofield"}, {"", "empty"}, {"f0", "noop"}, {"f0>", "novalue"}, {"<", "nofield"}, {">", "nofield"}, {"and", "noop"},
	{"f0=1 and", "halfand"}, {"f0=1 and f1=2", "twofields"}, {" ", "empty"}, {"f0==1", "doubleeq"}, {"f0<=", "novalue"}, {"\"", "quote"}, {"<=5", "nofield"},
	{">=5", "nofield"}, {" =1", "nofield"}, {rep("f", 70000) + "=1", "long"}, {"f0=1 and =2", "nofield"}}
var badPatterns = []bad{{"[", "unbalanced"}, {"\\", "unbalanced"}, {"{a,b", "unbalanced"}, {"[^", "unbalanced"}, {"[z-a]", "badrange"},
	{rep("a*", 30) + "b", "backtrack"}, {rep("*", 1000), "stars"}, {"", "empty"}, {"\x00", "binary"}, {rep("a", 70000), "long"}, {"[!", "unbalanced"}, {"{", "unbalanced"}}
var badDTypes = []bad{{"foo", "unknown"}, {"", "empty"}, {"json", "unknown"}, {"bitmap", "unknown"}, {"KV\x00", "unknown"}}
var badUnits = []bad{{"cm", "unknown"}, {"", "empty"}, {"KM", "unknown"}, {"m\x00", "unknown"}}

func b64(s string) string { return base64.StdEncoding.EncodeToString([]byte(s)) }

func badTabCursors() []bad {
	if cacheTabCur == nil {
		cacheTabCur = mkBadTabCursors()
	}
	return cacheTabCur
}

func mkBadTabCursors() []bad {
	pre := nodeh.NS + ":" + mainTable
	inner := func(pid, cur string) string { return pid + ":" + b64(cur) + ";" }
	return []bad{{pre, "nosep"}, {pre + ":zzz!", "notbase64"}, {pre + ":" + b64("garbage"), "badinner"}, {pre + ":" + b64(inner("0", "s0")), "validcursor"},
		{pre + ":" + b64(inner("99", "s0")), "unknownpartition"}, {pre + ":" + b64(inner("-1", "s0")), "negativepartition"}, {pre + ":" + b64(inner("abc", "s0")), "badpartition"},
		{pre + ":" + b64("0:" + "!!!" + ";"), "badinner"}, {pre + ":" + b64("0:;"), "emptyinner"}, {pre + ":" + b64(";"), "emptyinner"}, {pre + ":" + b64(":"), "emptyinner"},
		{pre + ":" + b64(inner("0", "")), "emptyinner"}, {pre + ":" + b64(inner("0", rep("k", 70000))), "long"}, {nodeh.NS + "::", "emptytable"}, {nodeh.NS + ":", "nsonly"},
		{"", "empty"}, {"other:" + mainTable + ":", "unknownns"}, {pre + ":" + b64(inner("0", "s0") + inner("0", "s1")), "duppartition"},
		{pre + ":" + b64(inner("9223372036854775808", "s0")), "badpartition"}, {pre + ":\x00", "binary"}, {nodeh.NS + ":\x00:", "binary"}}
}

var unknownNames = []bad{{"nosuchcmd", "unknowncmd"}, {"", "emptyname"}, {"\x00", "binaryname"}, {"get\x00", "binaryname"}, {"ge", "unknowncmd"},
	{"mset", "internalcmd"}, {"hmclear", "internalcmd"}, {"lmclear", "internalcmd"}, {"zmclear", "internalcmd"}, {"smclear", "internalcmd"},
	{"plget", "unknowncmd"}, {"eval", "unknowncmd"}, {"evalro", "unknowncmd"}, {"keys", "unknowncmd"}, {"flushall", "unknowncmd"}, {"select", "unknowncmd"},
	{"scan\x00", "binaryname"}, {"advscan ", "unknowncmd"}, {"fullscan1", "unknowncmd"}, {"hidx.fro", "unknowncmd"}, {"hidx.from1", "unknowncmd"},
	{rep("x", 70000), "longname"}, {"stale.", "unknowncmd"}, {"json.", "unknowncmd"}}

func numericBad(g *gen, k kind) bad {
	t := g.t
	var lists [][]bad
	switch k {
	case kScore, kLon, kLat, kRad:
		lists = [][]bad{floatSpecial, intNegative, intHuge, intZero}
	case kSRange:
		lists = [][]bad{rangeBad, floatSpecial}
	case kLex:
		lists = [][]bad{lexBad}
	case kBit:
		lists = [][]bad{{{"2", "notbit"}, {"-1", "negative"}, {"256", "notbit"}, {"3", "notbit"}}, intNonNum, intOverflow, intExtreme}
	default:
		lists = [][]bad{intNegative, intHuge, intNonNum, intOverflow, intExtreme, intZero}
	}
	l := lists[t.Choose(len(lists))]
	return l[t.Choose(len(l))]
}

func isNumeric(k kind) bool {
	switch k {
	case kInt, kTTL, kOff, kIdx, kCount, kScore, kBit, kSRange, kLex, kLon, kLat, kRad:
		return true
	}
	return false
}

func idxOf(as []arg, pred func(arg) bool) []int {
	var out []int
	for i, a := range as {
		if i > 0 && pred(a) {
			out = append(out, i)
		}
	}
	return out
}

// mutate derives one argument vector from a valid one. It returns the vector
// and the sorted shape tags.
func (g *gen) mutate(valid []arg, tier string) ([]arg, []string) {
	t := g.t
	as := append([]arg(nil), valid...)
	n := 1 + t.Weighted([]int{70, 25, 5})
	tagset := map[string]bool{}
	for m := 0; m < n; m++ {
		tag := g.mutateOnce(&as, tier)
		if tag != "" {
			tagset[tag] = true
		}
	}
	var tags []string
	for k := range tagset {
		tags = append(tags, k)
	}
	sort.Strings(tags)
	return as, tags
}

func (g *gen) mutateOnce(pas *[]arg, tier string) string {
	t := g.t
	as := *pas
	pickIdx := func(xs []int) int { return xs[t.Choose(len(xs))] }
	op := t.Weighted([]int{22, 14, 10, 6, 6, 6, 5, 4, 5, 3, 6, 3, 4, 6, 2})
	switch op {
	case 0: // bad number
		if xs := idxOf(as, func(a arg) bool { return isNumeric(a.k) }); len(xs) > 0 {
			i := pickIdx(xs)
			b := numericBad(g, as[i].k)
			as[i].v = b.v
			return b.tag + "-" + kindName[as[i].k]
		}
	case 1: // bad key
		if xs := idxOf(as, func(a arg) bool { return a.k == kKey }); len(xs) > 0 {
			i := pickIdx(xs)
			l := badKeys(tier)
			b := l[t.Choose(len(l))]
			as[i].v = b.v
			return b.tag + "-key"
		}
	case 2: // drop trailing arguments
		if len(as) > 1 {
			k := 1 + t.Choose(3)
			if k > len(as)-1 {
				k = len(as) - 1
			}
			*pas = as[:len(as)-k]
			if len(*pas) == 1 {
				return "noargs"
			}
			return "drop-last"
		}
	case 3: // extra arguments
		k := 1 + t.Choose(3)
		for j := 0; j < k; j++ {
			var v string
			switch t.Choose(4) {
			case 0:
				v = "extra"
			case 1:
				v = "1"
			case 2:
				v = g.key("s")
			default:
				v = genericJunk[t.Choose(len(genericJunk))].v
			}
			as = append(as, arg{kVal, v})
		}
		*pas = as
		return "extra-args"
	case 4: // bad field
		if xs := idxOf(as, func(a arg) bool { return a.k == kField || a.k == kCur }); len(xs) > 0 {
			i := pickIdx(xs)
			l := badFields()
			b := l[t.Choose(len(l))]
			k := as[i].k
			as[i].v = b.v
			return b.tag + "-" + kindName[k]
		}
	case 5: // bad value
		if xs := idxOf(as, func(a arg) bool { return a.k == kVal }); len(xs) > 0 {
			i := pickIdx(xs)
			l := badValues(tier, t.Choose(12) == 11)
			b := l[t.Choose(len(l))]
			// bound the memory of a run: at most 2 values around MaxValueSize
			// and 8 of 64 KiB / 1 MiB
			if len(b.v) > 4<<20 {
				if g.nHuge >= 2 {
					b = l[0]
				} else {
					g.nHuge++
				}
			} else if len(b.v) >= 65536 {
				if g.nBig >= 8 {
					b = l[0]
				} else {
					g.nBig++
				}
			}
			as[i].v = b.v
			return b.tag + "-value"
		}
	case 6: // option keyword
		if xs := idxOf(as, func(a arg) bool { return a.k == kOpt }); len(xs) > 0 {
			i := pickIdx(xs)
			switch t.Choose(5) {
			case 0:
				as[i].v = "foo"
				return "unknown-option"
			case 1:
				as[i].v = strings.ToUpper(as[i].v)
				return "upper-option"
			case 2: // option without its argument (option moved to the end)
				o := as[i]
				as = append(append(append([]arg(nil), as[:i]...), as[i+1:]...), o)
				*pas = as
				return "dangling-option"
			case 3: // duplicated option
				as = append(as, as[i])
				*pas = as
				return "dup-option"
			default:
				as[i].v = []string{"nx", "xx", "ex", "px", "limit", "count", "match", "withscores", "store", "storedist", "asc", "desc", "any"}[t.Choose(13)]
				return "other-option"
			}
		}
	case 7: // drop a middle argument
		if len(as) > 2 {
			i := 1 + t.Choose(len(as)-1)
			k := as[i].k
			*pas = append(append([]arg(nil), as[:i]...), as[i+1:]...)
			return "drop-" + kindName[k]
		}
	case 8: // duplicate an argument (duplicated keys / members / odd pairs)
		if len(as) > 1 {
			i := 1 + t.Choose(len(as)-1)
			na := append(append(append([]arg(nil), as[:i+1]...), as[i]), as[i+1:]...)
			*pas = na
			return "dup-" + kindName[as[i].k]
		}
	case 9: // swap two arguments
		if len(as) > 2 {
			i := 1 + t.Choose(len(as)-1)
			j := 1 + t.Choose(len(as)-1)
			if i != j {
				as[i].v, as[j].v = as[j].v, as[i].v
				return "swap"
			}
		}
	case 10: // junk anywhere
		if len(as) > 1 {
			i := 1 + t.Choose(len(as)-1)
			b := genericJunk[t.Choose(len(genericJunk))]
			k := as[i].k
			as[i].v = b.v
			return b.tag + "-" + kindName[k]
		}
	case 11: // command name
		switch t.Choose(3) {
		case 0:
			as[0].v = strings.ToUpper(as[0].v)
			return "upper-name"
		case 1:
			b := unknownNames[t.Choose(len(unknownNames))]
			as[0].v = b.v
			return b.tag
		default:
			// another command's name on this argument vector
			as[0].v = templates[t.Choose(len(templates))].name
			return "othercmd-args"
		}
	case 12: // a key that holds another type
		if xs := idxOf(as, func(a arg) bool { return a.k == kKey }); len(xs) > 0 {
			i := pickIdx(xs)
			ps := []string{"s", "c", "x", "p", "j", "b", "h", "l", "e", "z", "g"}
			as[i].v = g.key(ps[t.Choose(len(ps))])
			return "wrongtype-key"
		}
	case 13: // kind-specific syntax
		if xs := idxOf(as, func(a arg) bool {
			switch a.k {
			case kJSON, kPath, kWhere, kPat, kDType, kUnit, kTabCur, kSRange, kLex:
				return true
			}
			return false
		}); len(xs) > 0 {
			i := pickIdx(xs)
			var l []bad
			switch as[i].k {
			case kJSON:
				l = badJSON
			case kPath:
				l = badPaths
			case kWhere:
				l = badWhere
			case kPat:
				l = badPatterns
			case kDType:
				l = badDTypes
			case kUnit:
				l = badUnits
			case kTabCur:
				l = badTabCursors()
			case kSRange:
				l = rangeBad
			case kLex:
				l = lexBad
			}
			b := l[t.Choose(len(l))]
			k := as[i].k
			as[i].v = b.v
			return b.tag + "-" + kindName[k]
		}
	case 14: // very many arguments (around MAX_BATCH_NUM)
		if len(as) > 2 {
			i := 2 + t.Choose(len(as)-2)
			width := 1
			if len(as)-i >= 2 && t.Choose(2) == 0 {
				width = 2 // repeat a pair
			}
			n := []int{common.MAX_BATCH_NUM - 1, common.MAX_BATCH_NUM, common.MAX_BATCH_NUM + 1, 2 * common.MAX_BATCH_NUM, 10*common.MAX_BATCH_NUM + 1}[t.Choose(5)]
			if strings.HasPrefix(strings.ToLower(as[0].v), "json.") && n > common.MAX_BATCH_NUM+1 {
				// JSON.ARRAPPEND re-encodes the whole document once per value
				// (quadratic): 100000 values keep the apply loop busy for more
				// than five minutes of CPU. Reported as an observation; not
				// generated, it would only stall the worker.
				n = common.MAX_BATCH_NUM + 1
			}
			grp := append([]arg(nil), as[i:i+width]...)
			gsz := 0
			for _, a := range grp {
				gsz += len(a.v) + 8
			}
			if n*gsz > 4<<20 {
				// keep the request below a few MiB
				n = (4 << 20) / gsz
				if n < 2 {
					n = 2
				}
			}
			out := append([]arg(nil), as[:i]...)
			for r := 0; r < n; r++ {
				for _, a := range grp {
					if a.k == kField || a.k == kVal {
						a.v = a.v + "-" + strconv.Itoa(r)
					}
					out = append(out, a)
				}
			}
			out = append(out, as[i+width:]...)
			*pas = out
			return "many-" + kindName[grp[0].k]
		}
	}
	// not applicable: junk in a random position (or an extra argument for bare names)
	if len(as) > 1 {
		i := 1 + t.Choose(len(as)-1)
		b := genericJunk[t.Choose(len(genericJunk))]
		k := as[i].k
		as[i].v = b.v
		return b.tag + "-" + kindName[k]
	}
	*pas = append(as, arg{kVal, "extra"})
	return "extra-args"
}

// randomCommand is a command that is not derived from a template at all.
func (g *gen) randomCommand() ([]arg, []string) {
	t := g.t
	n := t.Choose(6)
	as := []arg{{kName, templates[t.Choose(len(templates))].name}}
	if t.Choose(4) == 0 {
		as[0].v = unknownNames[t.Choose(len(unknownNames))].v
	}
	for i := 0; i < n; i++ {
		switch t.Choose(4) {
		case 0:
			as = append(as, arg{kKey, g.key([]string{"s", "h", "l", "e", "z", "j", "b"}[t.Choose(7)])})
		case 1:
			as = append(as, arg{kVal, genericJunk[t.Choose(len(genericJunk))].v})
		case 2:
			as = append(as, arg{kInt, numericBad(g, kInt).v})
		default:
			bs := make([]byte, 1+t.Choose(12))
			for j := range bs {
				bs[j] = byte(t.Choose(256))
			}
			as = append(as, arg{kVal, string(bs)})
		}
	}
	return as, []string{"random"}
}
