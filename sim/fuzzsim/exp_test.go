package fuzzsim

import (
	"fmt"
	"os"
	"testing"
	"testing/synctest"
	"time"

	"github.com/youzan/ZanRedisDB/common"
	"github.com/youzan/ZanRedisDB/node"

	"verif/sim/core"
	"verif/sim/nodeh"
)

func TestExp(t *testing.T) {
	if os.Getenv("FUZZ_EXP") == "" {
		t.Skip()
	}
	synctest.Test(t, func(t *testing.T) {
		c := core.NewRunCtx(t, "C11", "quick", core.NewTape(1))
		cl := nodeh.New(c, nodeh.Options{Machines: 1, Partitions: 1, Replicas: 1, Engine: os.Getenv("FUZZ_ENG"), SnapCount: 10, SnapCatchup: 3, KeepBackup: 1})
		cl.PumpFair(80, func() bool { return cl.Leader(0) >= 0 })
		m := cl.M[0]
		out := func(f string, a ...interface{}) { fmt.Fprintf(core.Stdout, f+"\n", a...) }
		out("leader %d", cl.Leader(0))
		hits := map[string]int{}
		cl.OnPoint = func(name string, gid, rid uint64) { hits[name]++ }
		t0 := time.Now()
		w0 := wallNow()
		for i := 0; i < 200; i++ {
			cl.Do(m, nodeh.Cmd("set", "default:t:k", "v"), 50)
		}
		out("200 sets: wall %v sim %v", wallSince(w0), time.Since(t0))
		w0 = wallNow()
		for i := 0; i < 1000; i++ {
			cl.Do(m, nodeh.Cmd("get", "default:t:k"), 50)
		}
		out("1000 gets via Do: wall %v", wallSince(w0))
		w0 = wallNow()
		nn := m.Parts[0]
		for i := 0; i < 1000; i++ {
			h, _ := nn.Node.GetHandler("get")
			conn := &nodeh.CapConn{}
			h(conn, nodeh.Cmd("get", "default:t:k"))
		}
		out("1000 gets direct: wall %v", wallSince(w0))
		store := node.VerifKVStore(nn.Node.VerifStateMachine())
		cl.Do(m, nodeh.Cmd("hset", "default:t:h", "f", "v"), 50)
		cl.Do(m, nodeh.Cmd("zadd", "default:t:z", "1", "m"), 50)
		cl.Do(m, nodeh.Cmd("setex", "default:t:e", "1000", "m"), 50)
		it, err := store.NewDBRangeIterator(nil, nil, common.RangeClose, false)
		out("iter err %v", err)
		n := 0
		for ; it.Valid(); it.Next() {
			out("raw %q = %q", it.Key(), it.Value())
			n++
		}
		it.Close()
		out("raw n=%d pending=%d", n, store.VerifDefaultBatchPending())
		// batching experiment
		for k := range hits {
			delete(hits, k)
		}
		rel, parked := cl.Arm("raft.ready.begin", 0, 0)
		c1 := cl.Invoke(m, nodeh.Cmd("set", "default:t:a", "1"))
		c2 := cl.Invoke(m, nodeh.Cmd("set", "default:t:b", "1"))
		c3 := cl.Invoke(m, nodeh.Cmd("incr", "default:t:c"))
		out("parked=%v done=%v %v %v hits=%v", parked(), c1.Done(), c2.Done(), c3.Done(), hits)
		rel()
		synctestWait()
		out("after release done=%v %v %v hits=%v", c1.Done(), c2.Done(), c3.Done(), hits)
		cl.PumpFair(2, nil)
		out("after pump done=%v %v %v hits=%v", c1.Done(), c2.Done(), c3.Done(), hits)
		// without parking
		for k := range hits {
			delete(hits, k)
		}
		c1 = cl.Invoke(m, nodeh.Cmd("set", "default:t:a", "1"))
		out("noparks: done=%v hits=%v", c1.Done(), hits)
		w0 = wallNow()
		cl.Kill(m)
		cl.Restart(m)
		cl.PumpFair(80, func() bool { return cl.Leader(0) >= 0 })
		out("kill+restart wall %v leader %d", wallSince(w0), cl.Leader(0))
		r, ok := cl.Do(m, nodeh.Cmd("get", "default:t:k"), 50)
		out("get %v %v", nodeh.Fmt(r), ok)
		w0 = wallNow()
		cl.Close()
		out("close wall %v", wallSince(w0))
	})
}
