package fuzzsim

import (
	"net"
	"testing/synctest"

	"github.com/absolute8511/redcon"

	"verif/sim/nodeh"
)

// fconn is an in-memory redcon.Conn (a copy of nodeh.CapConn's reply decoder
// plus what this engine needs on top: every reply written, a client-side
// pipeline, a detach stub).
type fconn struct {
	stack  []*frame
	top    []interface{}
	closed bool
	ctx    interface{}
	pipe   []redcon.Command
}

type frame struct {
	items []interface{}
	need  int
}

func (c *fconn) push(v interface{}) {
	for {
		if len(c.stack) == 0 {
			c.top = append(c.top, v)
			return
		}
		f := c.stack[len(c.stack)-1]
		f.items = append(f.items, v)
		if len(f.items) < f.need {
			return
		}
		c.stack = c.stack[:len(c.stack)-1]
		v = f.items
	}
}

func (c *fconn) RemoteAddr() string          { return "sim" }
func (c *fconn) Close() error                { c.closed = true; return nil }
func (c *fconn) WriteError(msg string)       { c.push(nodeh.RErr(msg)) }
func (c *fconn) WriteString(str string)      { c.push(str) }
func (c *fconn) WriteBulk(bulk []byte)       { c.push(append([]byte{}, bulk...)) }
func (c *fconn) WriteBulkString(bulk string) { c.push([]byte(bulk)) }
func (c *fconn) WriteInt(num int)            { c.push(int64(num)) }
func (c *fconn) WriteInt64(num int64)        { c.push(num) }
func (c *fconn) WriteArray(count int) {
	if count <= 0 {
		c.push([]interface{}{})
		return
	}
	c.stack = append(c.stack, &frame{need: count})
}
func (c *fconn) WriteNull()                      { c.push(nil) }
func (c *fconn) WriteRaw(data []byte)            { c.push("RAW:" + string(data)) }
func (c *fconn) Context() interface{}            { return c.ctx }
func (c *fconn) SetContext(v interface{})        { c.ctx = v }
func (c *fconn) SetReadBuffer(bytes int)         {}
func (c *fconn) Detach() redcon.DetachedConn     { return nil }
func (c *fconn) ReadPipeline() []redcon.Command  { p := c.pipe; c.pipe = nil; return p }
func (c *fconn) PeekPipeline() []redcon.Command  { return c.pipe }
func (c *fconn) NetConn() net.Conn               { return nil }
func (c *fconn) Flush() error                    { return nil }

// replies returns every complete top-level reply written so far and whether
// an array is still open (a handler that announced more elements than it wrote).
func (c *fconn) replies() ([]interface{}, bool) { return c.top, len(c.stack) != 0 }

// call is one client request (possibly a pipeline of requests on one connection).
type call struct {
	args [][]byte
	conn *fconn
	done chan struct{}
	// panicked is set when the server goroutine itself panicked outside the
	// server's recover (cannot happen in production code paths that have one;
	// kept so that a harness bug is not mistaken for a hang)
	incarn int
}

func (c *call) isDone() bool {
	select {
	case <-c.done:
		return true
	default:
		return false
	}
}

// invoke starts a request on machine m exactly like a redcon connection
// goroutine would: serverRedis for the first command, then for whatever the
// first command left in the pipeline.
func invoke(m *nodeh.Machine, cmd redcon.Command, pipeline []redcon.Command) *call {
	c := &call{args: cmd.Args, conn: &fconn{pipe: pipeline}, done: make(chan struct{}), incarn: m.Incarn}
	srv := m.Srv
	go func() {
		defer close(c.done)
		srv.VerifServeRedis(c.conn, cmd)
		for len(c.conn.pipe) > 0 && !c.conn.closed {
			next := c.conn.pipe[0]
			c.conn.pipe = c.conn.pipe[1:]
			srv.VerifServeRedis(c.conn, next)
		}
	}()
	synctest.Wait()
	return c
}
