package fuzzsim

import (
	"fmt"
	"os"
	"testing"
	"testing/synctest"

	"verif/sim/core"
	"verif/sim/nodeh"
)

func TestExp2(t *testing.T) {
	if os.Getenv("FUZZ_EXP") == "" {
		t.Skip()
	}
	synctest.Test(t, func(t *testing.T) {
		c := core.NewRunCtx(t, "C11", "quick", core.NewTape(1))
		cl := nodeh.New(c, nodeh.Options{Machines: 1, Partitions: 1, Replicas: 1, Engine: os.Getenv("FUZZ_ENG"), SnapCount: 10, SnapCatchup: 3, KeepBackup: 1,
			ExpPolicy: os.Getenv("FUZZ_POL"), DataVersion: os.Getenv("FUZZ_DV")})
		cl.PumpFair(80, func() bool { return cl.Leader(0) >= 0 })
		m := cl.M[0]
		out := func(f string, a ...interface{}) { fmt.Fprintf(core.Stdout, f+"\n", a...) }
		do := func(args ...interface{}) {
			r, ok := cl.Do(m, nodeh.Cmd(args...), 50)
			out("%v -> %s %v", args, nodeh.Fmt(r), ok)
		}
		do("setex", "default:tb:a", "100000", "v")
		do("ttl", "default:tb:a")
		rel, _ := cl.Arm("raft.ready.begin", 0, 0)
		c0 := cl.Invoke(m, nodeh.Cmd("set", "default:tb:p", "1"))
		c1 := cl.Invoke(m, nodeh.Cmd("set", "default:tb:q", "1"))
		c2 := cl.Invoke(m, nodeh.Cmd("setex", "default:tb:b", "100000", "v"))
		rel()
		synctest.Wait()
		cl.PumpFair(2, nil)
		out("done %v %v %v", c0.Done(), c1.Done(), c2.Done())
		do("ttl", "default:tb:b")
		do("get", "default:tb:b")
		do("setex", "default:tb:b", "100000", "v")
		do("ttl", "default:tb:b")
		cl.Close()
	})
}
