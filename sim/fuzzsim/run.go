// Package fuzzsim decides C11 ("no client input can crash a replica or leave a
// partial write behind"): a real single-replica data node (nodeh: server
// command path, leader-side validation, raft, WAL, apply loop, rockredis on
// the mem or pebble engine) receives argument vectors derived by mutation from
// valid invocations of every registered read, write and merge command.
//
// Generator-only part: the mutation space. Simulated part: where the erroring
// command sits (alone; inside one raft Ready/apply batch between valid
// neighbours sharing the store's write batch; right before the entry that
// triggers a snapshot), kill -9 / graceful restart after erroring writes
// (replay of the poisoned entry), arbitrary populated prior states.
package fuzzsim

import (
	"encoding/hex"
	"encoding/json"
	"fmt"
	"os"
	"regexp"
	"runtime"
	"runtime/metrics"
	"sort"
	"strings"
	"sync"
	"testing"
	"testing/synctest"
	"time"

	"github.com/absolute8511/redcon"
	"github.com/youzan/ZanRedisDB/common"
	"github.com/youzan/ZanRedisDB/node"
	"github.com/youzan/ZanRedisDB/raft"
	"github.com/youzan/ZanRedisDB/server"

	"verif/sim/core"
	"verif/sim/nodeh"
)

var Engine = core.Engine{Name: "fuzzsim", Run: Run}

const prop = "C11"

type cfg struct {
	engine      string
	expPolicy   string
	dataVersion string
	snapCount   int
	steps       int
	wMut        int // single mutated command
	wBatch      int // mutated command inside a multi-entry apply batch
	wValid      int // valid command (state evolution)
	wRestart    int // restart at a quiescent instant
	wPipe       int // pipelined SETs (server folds them into PLSET)
	restartPm   int // after an erroring write: restart with this probability
	graceful    int // permille of restarts that are graceful
	nextPm      int // after a mutated command: model-checked valid command
	randomPm    int // fully random command instead of a template mutation
}

func pick(t *core.Tape, vals ...int) int { return vals[t.Choose(len(vals))] }

func drawCfg(c *core.RunCtx) cfg {
	t := c.Tape
	var g cfg
	g.engine = []string{"mem", "pebble"}[pick(t, 0, 0, 1)]
	switch t.Choose(4) {
	case 0, 1:
		g.expPolicy, g.dataVersion = common.DefaultExpirationPolicy, ""
	case 2:
		g.expPolicy, g.dataVersion = common.DefaultExpirationPolicy, common.ValueHeaderV1Str
	default:
		g.expPolicy, g.dataVersion = common.WaitCompactExpirationPolicy, common.ValueHeaderV1Str
	}
	g.snapCount = pick(t, 5, 10, 20, 3)
	g.steps = 40 + t.Choose(40)
	if c.Tier == "thorough" {
		g.steps = 100 + t.Choose(150)
	}
	g.wMut = pick(t, 60, 80)
	g.wBatch = pick(t, 15, 30, 5)
	g.wValid = pick(t, 10, 20)
	g.wRestart = pick(t, 1, 3, 0)
	g.wPipe = pick(t, 2, 0, 5)
	g.restartPm = pick(t, 150, 0, 400, 1000)
	g.graceful = pick(t, 300, 0, 1000)
	g.nextPm = pick(t, 700, 1000, 300)
	g.randomPm = pick(t, 30, 0, 100)
	return g
}

type panicRec struct {
	where string // apply | merge
	name  string
	args  []string
	val   string
	fn    string
	site  string
	stack string
}

type sim struct {
	c   *core.RunCtx
	t   *core.Tape
	cfg cfg
	cl  *nodeh.Cluster
	m   *nodeh.Machine
	g   *gen

	bootAt time.Time

	mu         sync.Mutex
	panics     []panicRec
	wrappedSM  *common.SMCmdRouter // routers of the current incarnation that carry the observers
	wrappedCR  *common.CmdRouter   // (only the latest: older incarnations must stay collectable)
	dumpPanics []string
	snapHits   int
	maxBatch   uint64 // largest number of entries applied by one applyAll since reset
	lastApplied uint64

	hitShapes  map[string]bool // argument shapes that already produced a finding in this run: not sent again
	extraWatch []string
	batchAbortHazard bool
	hllKeys    map[string]bool // keys that took an accepted PFADD: their string view is a cache image

	base  *dumpT // dump valid for the current state (nil = stale)
	baseR rawSnap

	nMut, nErr, nAccepted, nBatchMut, nNext, nRestart, nKills, nRestartTotal int
	samples                                              []string
	wallStart                                            int64
	aborted                                              bool
}

var noRecover = os.Getenv("VERIF_FUZZ_NORECOVER") != ""
var allowOOM = os.Getenv("VERIF_FUZZ_ALLOW_OOM") != ""

// noWhiteBox switches off the one oracle that looks inside the store (number
// of operations pending in the shared write batch); used to measure what the
// black-box oracles find on their own.
var noWhiteBox = os.Getenv("VERIF_FUZZ_NOWHITEBOX") != ""

// knownOOM recognises the one argument shape that is known to make the
// process allocate without bound (known finding alloc:json.set /
// alloc:json.arrappend: sjson pads an array up to the index named in the path;
// an index of 2^32 asks for > 20 GB). Sizes up to 5e7 are still sent (they
// allocate hundreds of MiB and are reported); larger ones would only kill the
// worker again and again, so they are skipped unless VERIF_FUZZ_ALLOW_OOM=1.
func knownOOM(args [][]byte) bool {
	if allowOOM || len(args) < 3 || !strings.HasPrefix(strings.ToLower(string(args[0])), "json.") {
		return false
	}
	for _, a := range args[2:] {
		if len(a) > 64 {
			continue
		}
		for _, seg := range strings.Split(string(a), ".") {
			if len(seg) >= 9 && strings.Trim(seg, "0123456789") == "" {
				return true
			}
		}
	}
	return false
}
var liveJournal = os.Getenv("VERIF_REPLAY") != "" || os.Getenv("VERIF_FUZZ_JOURNAL") != ""

func Run(c *core.RunCtx) {
	s := &sim{c: c, t: c.Tape,
		hitShapes: map[string]bool{}, hllKeys: map[string]bool{}}
	s.cfg = drawCfg(c)
	raft.VerifSeedGlobalRand(int64(c.Tape.U32()))
	c.Log("cfg", "%+v", s.cfg)
	s.wallStart = wallNow()
	func() {
		defer func() {
			if e := recover(); e != nil {
				msg := fmt.Sprint(e)
				if strings.Contains(msg, "deadlock: main bubble goroutine has exited") {
					c.Count("infra.bubble_leftover_goroutines", 1)
					return
				}
				panic(e)
			}
		}()
		synctest.Test(c.T, func(t *testing.T) { s.bubble() })
	}()
	if os.Getenv("VERIF_FUZZ_MEMDEBUG") != "" {
		var ms runtime.MemStats
		runtime.GC()
		runtime.ReadMemStats(&ms)
		fmt.Fprintf(core.Stdout, "MEMDEBUG heapInuse=%dMiB heapSys=%dMiB goroutines=%d objects=%d\n", ms.HeapInuse>>20, ms.HeapSys>>20, runtime.NumGoroutine(), ms.HeapObjects)
	}
	c.NonTrivial = s.nMut >= 20 && s.nErr >= 5 && s.nBatchMut >= 1
	c.Count("mutated_commands", int64(s.nMut))
	c.Count("mutated_error_replies", int64(s.nErr))
	c.Count("mutated_accepted", int64(s.nAccepted))
	c.Count("mutated_in_batch", int64(s.nBatchMut))
	c.Count("next_valid_checked", int64(s.nNext))
	c.Count("restarts", int64(s.nRestart))
	c.Sample = map[string]interface{}{"config": fmt.Sprintf("%+v", s.cfg), "mutated": s.nMut, "errors": s.nErr, "accepted": s.nAccepted,
		"in_batch": s.nBatchMut, "restarts": s.nRestart, "commands_head": s.samples}
	// report findings that are not registered as known first (the worker
	// reports one violation per run)
	known := map[string]bool{}
	for _, k := range strings.Split(os.Getenv("VERIF_KNOWN_KEYS"), ",") {
		known[k] = true
	}
	sort.SliceStable(c.Viol, func(i, j int) bool { return !known[c.Viol[i].Key] && known[c.Viol[j].Key] })
}

// ---- rendering ---------------------------------------------------------------------

func renderArgs(args [][]byte) string {
	var sb strings.Builder
	for i, a := range args {
		if i > 0 {
			sb.WriteString(" ")
		}
		sb.WriteString(short(string(a), 48))
	}
	return sb.String()
}

func renderStrs(args []string) string {
	bs := make([][]byte, len(args))
	for i, a := range args {
		bs[i] = []byte(a)
	}
	return renderArgs(bs)
}

func cmdOf(args [][]byte) redcon.Command {
	cp := make([][]byte, len(args))
	for i, a := range args {
		cp[i] = append([]byte(nil), a...)
	}
	return nodeh.BuildCommand(cp)
}

func strCmd(args ...string) redcon.Command {
	bs := make([][]byte, len(args))
	for i, a := range args {
		bs[i] = []byte(a)
	}
	return nodeh.BuildCommand(bs)
}

// ---- panic observation ---------------------------------------------------------------

var closureNum = regexp.MustCompile(`\.func\d+(\.\d+)*`)

// parseStack returns the repository function that panicked (first frame of
// github.com/youzan/ZanRedisDB below the panic machinery, prefix stripped), its
// file:line, and the innermost non-runtime frame if that is a dependency.
func parseStack(stack string) (fn string, site string) {
	const pfx = "github.com/youzan/ZanRedisDB/"
	lines := strings.Split(stack, "\n")
	seenPanic := false
	inner := ""
	for i := 0; i < len(lines); i++ {
		l := lines[i]
		if strings.HasPrefix(l, "\t") || strings.HasPrefix(l, " ") {
			continue
		}
		if strings.HasPrefix(l, "panic(") {
			seenPanic = true
			continue
		}
		if !seenPanic || strings.HasPrefix(l, "runtime.") || l == "" {
			continue
		}
		name := l
		if k := strings.LastIndex(name, "("); k > 0 {
			name = name[:k]
		}
		if !strings.HasPrefix(name, pfx) {
			if inner == "" {
				inner = name
			}
			continue
		}
		fn = closureNum.ReplaceAllString(strings.TrimPrefix(name, pfx), ".func")
		if i+1 < len(lines) {
			site = strings.TrimSpace(lines[i+1])
			if k := strings.Index(site, " +0x"); k >= 0 {
				site = site[:k]
			}
			if k := strings.Index(site, "/ZanRedisDB/"); k >= 0 {
				site = site[k+len("/ZanRedisDB/"):]
			} else if k := strings.Index(site, "/repo/"); k >= 0 {
				site = site[k+len("/repo/"):]
			}
		}
		if inner != "" {
			site += " (inside " + inner + ")"
		}
		return fn, site
	}
	if inner != "" {
		return inner, "?"
	}
	return "?", "?"
}

func (s *sim) notePanic(where, name string, cmd redcon.Command, e interface{}) {
	buf := make([]byte, 16384)
	n := runtime.Stack(buf, false)
	st := string(buf[:n])
	var as []string
	for _, a := range cmd.Args {
		as = append(as, string(a))
	}
	s.mu.Lock()
	fn, site := parseStack(st)
	s.panics = append(s.panics, panicRec{where: where, name: name, args: as, val: fmt.Sprint(e), fn: fn, site: site, stack: st})
	s.mu.Unlock()
}

// capLogger receives the server package's log lines: serverRedis reports a
// recovered panic of the connection path (with its stack) there.
type capLogger struct{ s *sim }

func (l *capLogger) note(msg string) {
	if !strings.Contains(msg, "handle redis command") || !strings.Contains(msg, "panic") {
		return
	}
	fn, site := parseStack(msg)
	val := msg
	if k := strings.LastIndex(msg, "\n:"); k >= 0 {
		val = msg[k+2:]
	} else if k := strings.LastIndex(msg, ":"); k >= 0 && len(msg)-k < 300 {
		val = msg[k+1:]
	}
	l.s.mu.Lock()
	l.s.panics = append(l.s.panics, panicRec{where: "conn", val: strings.TrimSpace(val), fn: fn, site: site, stack: msg})
	l.s.mu.Unlock()
}
func (l *capLogger) Output(d int, m string) error        { l.note(m); return nil }
func (l *capLogger) OutputErr(d int, m string) error     { l.note(m); return nil }
func (l *capLogger) OutputWarning(d int, m string) error { l.note(m); return nil }

func (s *sim) takePanics() []panicRec {
	s.mu.Lock()
	p := s.panics
	s.panics = nil
	s.mu.Unlock()
	return p
}

func (s *sim) wrapInternal(name string, h common.InternalCommandFunc) common.InternalCommandFunc {
	return func(cmd redcon.Command, ts int64) (v interface{}, err error) {
		defer func() {
			if e := recover(); e != nil {
				s.notePanic("apply", name, cmd, e)
				v, err = nil, fmt.Errorf("verif: apply handler of %s panicked: %v", name, e)
			}
		}()
		return h(cmd, ts)
	}
}

func (s *sim) wrapMerge(name string, h common.MergeCommandFunc) common.MergeCommandFunc {
	return func(cmd redcon.Command) (v interface{}, err error) {
		defer func() {
			if e := recover(); e != nil {
				s.notePanic("merge", name, cmd, e)
				v, err = nil, fmt.Errorf("verif: merge handler of %s panicked: %v", name, e)
			}
		}()
		return h(cmd)
	}
}

// wrapNode installs the observers on a replica (idempotent). Production has no
// recover around apply handlers and around merge handlers (the server runs
// them in goroutines of their own): a panic there ends the process. The
// observers turn it into an error reply plus a record, so that the run can
// name the command; VERIF_FUZZ_NORECOVER=1 leaves the handlers alone.
func (s *sim) wrapNode(nn *node.NamespaceNode) {
	if noRecover || nn == nil || nn.Node == nil {
		return
	}
	if r := node.VerifSMRouter(nn.Node.VerifStateMachine()); r != nil {
		s.mu.Lock()
		done := s.wrappedSM == r
		s.wrappedSM = r
		s.mu.Unlock()
		if !done {
			r.VerifWrapAll(s.wrapInternal)
		}
	}
	if r := nn.Node.VerifCmdRouter(); r != nil {
		s.mu.Lock()
		done := s.wrappedCR == r
		s.wrappedCR = r
		s.mu.Unlock()
		if !done {
			r.VerifWrapMerge(s.wrapMerge)
		}
	}
}

func (s *sim) onPoint(name string, gid, rid uint64) {
	switch name {
	case "apply.beforeApplyAll":
		// a freshly booted replica replays its log before the harness sees it
		if m := s.m; m != nil && m.NSM != nil {
			if nn := m.NSM.GetNamespaceNode(nodeh.NS + "-0"); nn != nil {
				s.wrapNode(nn)
			}
		}
	case "apply.afterApplyAll":
		if m := s.m; m != nil && m.NSM != nil {
			if nn := m.NSM.GetNamespaceNode(nodeh.NS + "-0"); nn != nil && nn.Node != nil {
				a := nn.Node.GetAppliedIndex()
				s.mu.Lock()
				if a > s.lastApplied && a-s.lastApplied > s.maxBatch {
					s.maxBatch = a - s.lastApplied
				}
				s.lastApplied = a
				s.mu.Unlock()
			}
		}
	case "snap.beforeCreate":
		s.mu.Lock()
		s.snapHits++
		s.mu.Unlock()
	}
}

// ---- allocation accounting ----------------------------------------------------------------

var allocSample = []metrics.Sample{{Name: "/gc/heap/allocs:bytes"}}

func allocBytes() uint64 {
	metrics.Read(allocSample)
	if allocSample[0].Value.Kind() == metrics.KindUint64 {
		return allocSample[0].Value.Uint64()
	}
	return 0
}

// ---- the simulated run -------------------------------------------------------------------

func (s *sim) violate(rule, key, format string, args ...interface{}) {
	s.c.Violate(prop, rule, key, format, args...)
}

func (s *sim) overran() bool {
	if wallSince(s.wallStart) > 90*time.Second {
		if !s.aborted {
			s.aborted = true
			s.c.Count("infra.run_wall_time_exceeded", 1)
		}
		return true
	}
	return false
}

func (s *sim) waitLeader() bool {
	s.cl.PumpFair(120, func() bool { return s.cl.Leader(0) >= 0 })
	return s.cl.Leader(0) >= 0
}

func (s *sim) bubble() {
	c, t, g := s.c, s.t, s.cfg
	cl := nodeh.New(c, nodeh.Options{Machines: 1, Partitions: 1, Replicas: 1, Engine: g.engine, SnapCount: g.snapCount, SnapCatchup: 2,
		KeepBackup: 1, ExpPolicy: g.expPolicy, DataVersion: g.dataVersion})
	s.cl = cl
	s.m = cl.M[0]
	defer cl.Close()
	server.SetLogger(common.LOG_INFO, &capLogger{s})
	defer server.SetLogger(0, nil)
	cl.OnPoint = s.onPoint
	s.wrapNode(s.m.Parts[0])
	s.bootAt = time.Now()
	s.g = &gen{t: t}
	for _, tab := range []string{mainTable, otherTable} {
		for _, n := range pools["p"] {
			s.hllKeys[fullKey(tab, n)] = true
		}
	}
	if !s.waitLeader() {
		s.violate("no-initial-leader", "", "a fresh single-replica node elects no leader within 120 rounds")
		return
	}
	s.checkCoverage()
	// ---- arbitrary small populated state (valid commands only) ----
	pc := populateCmds()
	script := scriptCmds()
	for _, args := range pc {
		// a tape-chosen subset, so that prior states differ
		if script == nil && t.Choose(8) == 7 {
			continue
		}
		r, ok := s.doValid(args)
		if !ok || nodeh.IsErr(r) {
			s.violate("populate-failed", "", "valid command %s fails on a fresh node: %s", renderStrs(args), fmtReply(r))
			return
		}
	}
	if script != nil {
		s.cfg.restartPm, s.cfg.nextPm = 0, 0
		for _, cmd := range script {
			if len(cmd) == 1 && (cmd[0] == "#restart" || cmd[0] == "#kill") {
				// restart (graceful / kill -9) and compare what the node serves
				s.quiesce()
				d0 := s.base
				if s.restart(cmd[0] == "#restart", "script") {
					s.reportPanics(s.takePanics(), "script", cmd[0])
					if df := s.diffRestart(d0, s.dump()); df != "" {
						s.violate("replay-diverged", s.replayKey("", false), "after %s the node serves different data: %s", cmd[0], df)
					}
				}
				continue
			}
			as := make([]arg, len(cmd))
			for i, a := range cmd {
				if strings.HasPrefix(a, "hex:") {
					if b, err := hex.DecodeString(a[4:]); err == nil {
						a = string(b)
					}
				}
				as[i] = arg{kVal, a}
				if i == 0 {
					as[i].k = kName
				}
			}
			s.execMutated(as, []string{"script"}, nil)
			s.hitShapes = map[string]bool{}
		}
		s.finalLiveness()
		return
	}
	if t.Choose(3) == 0 {
		// prior state "after a restart"
		if !s.restart(t.Choose(2) == 0, "populated") {
			return
		}
	}
	w := []int{g.wMut, g.wBatch, g.wValid, g.wRestart, g.wPipe}
	for step := 0; step < g.steps && !s.overran(); step++ {
		if len(c.Viol) > 0 && c.Viol[len(c.Viol)-1].Key == "" {
			break // an unkeyed violation (harness/oracle level): stop here
		}
		cl.Clock = int64(step)
		switch t.Weighted(w) {
		case 0:
			s.stepMutated()
		case 1:
			s.stepBatch()
		case 2:
			s.stepValid()
		case 3:
			s.quiesce()
			d0 := s.base
			gr := t.Bool(g.graceful)
			if s.nRestartTotal >= 40 {
				break
			}
			if s.restart(gr, "quiescent") {
				s.takePanics()
				d2 := s.dump()
				if df := s.diffRestart(d0, d2); df != "" {
					s.violate("replay-diverged", s.replayKey("", false), "after a restart at a quiescent instant (graceful=%v) the node serves different data: %s", gr, df)
				}
			}
		case 4:
			s.stepPipeline()
		}
		c.Events++
		if step%8 == 7 {
			cl.PumpFair(1, nil)
		}
	}
	// ---- liveness at the end: the node still serves a write and a read ----
	if !s.aborted {
		s.finalLiveness()
	}
	c.SimMs = int64(time.Since(time.Date(2000, 1, 1, 0, 0, 0, 0, time.UTC)) / time.Millisecond)
	if len(s.dumpPanics) > 0 {
		s.violate("read-panic", "readpanic:dump", "a registered read handler panicked on a plain read during a state dump: %s", s.dumpPanics[0])
	}
}

// checkCoverage makes sure the template table covers every registered command.
var coverageOnce sync.Once

func (s *sim) checkCoverage() {
	coverageOnce.Do(func() {
		have := map[string]bool{}
		for _, tp := range templates {
			have[tp.name] = true
		}
		r := s.m.Parts[0].Node.VerifCmdRouter()
		reads, writes, merges, mws := r.VerifNames()
		var missing []string
		for _, l := range [][]string{reads, writes, merges, mws} {
			for _, n := range l {
				if !have[n] && notGenerated[n] == "" {
					missing = append(missing, n)
				}
			}
		}
		sort.Strings(missing)
		if len(missing) > 0 {
			panic(fmt.Sprintf("fuzzsim: registered commands without a template: %v", missing))
		}
		reg := map[string]bool{}
		for _, l := range [][]string{reads, writes, merges, mws} {
			for _, n := range l {
				reg[n] = true
			}
		}
		for _, tp := range templates {
			if tp.class != 'x' && !reg[tp.name] {
				panic("fuzzsim: template for a command that is not registered: " + tp.name)
			}
		}
		// every apply-side handler is reachable by a client command or known internal-only
		sm := node.VerifSMRouter(s.m.Parts[0].Node.VerifStateMachine())
		for _, n := range sm.VerifInternalNames() {
			if !have[n] && !internalOnly[n] && notGenerated[n] == "" {
				panic("fuzzsim: apply handler without a template: " + n)
			}
		}
	})
}

func (s *sim) invalidate() { s.base, s.baseR = nil, nil }

// noteHLL remembers keys that hold hyperloglog data (an accepted PFADD).
func (s *sim) noteHLL(args [][]byte, accepted bool) bool {
	if accepted && len(args) >= 2 && strings.ToLower(string(args[0])) == "pfadd" && len(args[1]) < 11000 {
		if !s.hllKeys[string(args[1])] {
			s.hllKeys[string(args[1])] = true
			s.invalidate()
			return true
		}
	}
	return false
}

// quiesce moves the clock past instants at which the store changes by itself
// (local-deletion scan every 300 s since boot; pending expirations), so that a
// before/after comparison never straddles one. It does not relax any check.
func (s *sim) quiesce() {
	// the hyperloglog write-back cache reaches the engine whenever a later
	// entry happens to trigger a snapshot: write it out now, while the apply
	// loop is idle, so that a later flush is not mistaken for an effect of the
	// command under test
	if s.base == nil {
		s.flushHLL()
	}
	for i := 0; i < 4; i++ {
		el := time.Since(s.bootAt)
		period := 300 * time.Second
		toTick := period - el%period
		if toTick < 45*time.Second {
			s.cl.Sleep(toTick + time.Second)
			s.cl.PumpFair(1, nil)
			s.invalidate()
			s.c.Count("quiesce.expiry_scan_tick", 1)
			continue
		}
		if s.base == nil {
			s.base = s.dump()
			s.baseR = s.rawSnap()
		}
		if s.base.minTTL > 0 && s.base.minTTL < 200 {
			s.cl.Sleep(time.Duration(s.base.minTTL+2) * time.Second)
			s.cl.PumpFair(1, nil)
			s.invalidate()
			s.c.Count("quiesce.pending_expiry", 1)
			continue
		}
		return
	}
	if s.base == nil {
		s.base = s.dump()
		s.baseR = s.rawSnap()
	}
}

// send runs one request to completion (bounded) and advances the clock a little
// (request ids embed the time in milliseconds).
func (s *sim) send(args [][]byte, pipeline []redcon.Command) (*call, bool) {
	if liveJournal {
		fmt.Fprintf(core.Stdout, "fuzzsim: sending %s\n", renderArgs(args))
	}
	cl := s.m
	call := invoke(cl, cmdOf(args), pipeline)
	for r := 0; r < 150 && !call.isDone(); r++ {
		s.cl.PumpFair(1, nil)
	}
	s.cl.Sleep(2 * time.Millisecond)
	s.flushHLL()
	return call, call.isDone()
}

// flushHLL: see quiesce. Called after every command, so that whatever a
// command left in the hyperloglog cache is attributed to that command.
func (s *sim) flushHLL() {
	if st := s.store(); st != nil {
		st.VerifFlushHLL()
	}
}

// doValid sends a valid command and returns its first reply.
func (s *sim) doValid(args []string) (interface{}, bool) {
	bs := make([][]byte, len(args))
	for i, a := range args {
		bs[i] = []byte(a)
	}
	call, done := s.send(bs, nil)
	s.invalidate()
	if !done {
		return nil, false
	}
	rs, _ := call.conn.replies()
	if len(rs) == 0 {
		return nil, false
	}
	return rs[0], true
}

type outcome struct {
	done, closed, open bool
	replies            []interface{}
	isErr, noReply     bool
	connPanic          bool
	panics             []panicRec
}

func classify(call *call, done bool, name string) outcome {
	o := outcome{done: done}
	o.replies, o.open = call.conn.replies()
	o.closed = call.conn.closed
	if strings.ToLower(name) == "json.objkeys" {
		// the code under test returns object keys in Go map order: a set
		for _, r := range o.replies {
			if arr, ok := r.([]interface{}); ok {
				sort.Slice(arr, func(i, j int) bool { return fmtReply(arr[i]) < fmtReply(arr[j]) })
			}
		}
	}
	if len(o.replies) == 0 {
		o.noReply = true
		if o.closed && strings.ToLower(name) != "quit" {
			o.connPanic = true
		}
	} else {
		o.isErr = true
		for _, r := range o.replies {
			if !nodeh.IsErr(r) {
				o.isErr = false
			}
		}
	}
	return o
}

func (o outcome) text() string {
	switch {
	case !o.done:
		return "<no answer>"
	case o.connPanic:
		return "<connection closed without reply>"
	case o.noReply:
		return "<nothing written>"
	}
	var xs []string
	for _, r := range o.replies {
		xs = append(xs, short(fmtReply(r), 100))
	}
	return strings.Join(xs, " | ")
}

func (s *sim) addWatch(as []arg) {
	for _, a := range as {
		if a.k != kKey || len(a.v) > 11000 || !strings.HasPrefix(a.v, nodeh.NS+":") {
			continue
		}
		if strings.Count(a.v, ":") < 2 {
			continue
		}
		known := false
		for _, k := range s.watchKeys() {
			if k == a.v {
				known = true
			}
		}
		if known {
			continue
		}
		s.extraWatch = append(s.extraWatch, a.v)
		if len(s.extraWatch) > 6 {
			s.extraWatch = s.extraWatch[1:]
		}
		s.invalidate()
	}
}

// drawMutated draws one mutated command.
func (s *sim) drawMutated(preferWrite bool) (as []arg, tags []string, tp *tmpl) {
	t := s.t
	if t.Bool(s.cfg.randomPm) {
		as, tags = s.g.randomCommand()
		return as, tags, nil
	}
	tp = &templates[t.Choose(len(templates))]
	if preferWrite && tp.class != 'w' && tp.class != 'M' {
		for try := 0; try < 3 && tp.class != 'w' && tp.class != 'M'; try++ {
			tp = &templates[t.Choose(len(templates))]
		}
	}
	valid := s.g.instantiate(tp)
	as, tags = s.g.mutate(valid, s.c.Tier)
	return as, tags, tp
}

func shapeOf(as []arg, tags []string) string {
	name := "noname"
	if len(as) > 0 {
		name = strings.ToLower(as[0].v)
		if len(name) > 24 || strings.ContainsAny(name, "\x00 ") || name == "" {
			name = "oddname"
		}
	}
	return name + "-" + strings.Join(tags, "+")
}

func classOf(name string) byte {
	n := strings.ToLower(name)
	for i := range templates {
		if templates[i].name == n {
			return templates[i].class
		}
	}
	return '?'
}

func familyOf(name string) string {
	n := strings.ToLower(name)
	for i := range templates {
		if templates[i].name == n {
			return templates[i].family
		}
	}
	return "unknown"
}

// reportPanics turns recorded handler panics into violations, keyed by the
// function that panicked (every argument shape that reaches the same faulty
// statement is the same finding). It returns true if any was recorded.
func (s *sim) reportPanics(ps []panicRec, shape string, sent string) bool {
	for _, p := range ps {
		if strings.Contains(p.val, "is not valid UTF-8") && strings.Contains(p.site, "prometheus") {
			// one defect, many sites: a table name used as a metrics label
			p.fn = "metrics-label-invalid-utf8"
		}
		switch p.where {
		case "apply":
			s.violate("apply-panic", "panic:"+p.fn, "the apply handler of %q panicked in %s at %s: %s -- committed entry args: %s (client sent: %s). Production has no recover in the apply loop: the process dies and the entry is replayed (and panics again) on every restart",
				p.name, p.fn, p.site, p.val, renderStrs(p.args), sent)
		case "merge":
			s.violate("merge-panic", "mergepanic:"+p.fn, "the merge handler of %q panicked in %s at %s: %s -- args: %s (client sent: %s). The server runs merge handlers in goroutines outside the connection's recover: the process dies",
				p.name, p.fn, p.site, p.val, renderStrs(p.args), sent)
		default:
			s.c.Probe("conn_closed_by_recover")
			s.violate("conn-panic", "connpanic:"+p.fn, "the connection handler panicked in %s at %s: %s on %s (the server's recover closed the connection without a reply)", p.fn, p.site, p.val, sent)
		}
		if s.c.KeepTrace {
			s.c.Log("panic-stack", "%s", firstLines(p.stack, 16))
		}
	}
	return len(ps) > 0
}

// firstLines renders the top of a stack without goroutine ids, argument
// values and pc offsets (they differ between executions).
func firstLines(s string, n int) string {
	var out []string
	for _, l := range strings.Split(s, "\n") {
		if strings.HasPrefix(l, "goroutine ") || strings.TrimSpace(l) == "" {
			continue
		}
		if strings.HasPrefix(l, "\t") {
			l = strings.TrimSpace(l)
			if k := strings.Index(l, " +0x"); k >= 0 {
				l = l[:k]
			}
		} else if k := strings.LastIndex(l, "("); k > 0 {
			l = l[:k]
		}
		out = append(out, l)
		if len(out) >= n {
			break
		}
	}
	return strings.Join(out, " | ")
}

func (s *sim) sample(line string) {
	if len(s.samples) < 14 {
		s.samples = append(s.samples, line)
	}
}

// stepMutated: one mutated command sent alone.
func (s *sim) stepMutated() {
	as, tags, tp := s.drawMutated(false)
	s.execMutated(as, tags, tp)
}

// script: VERIF_FUZZ_SCRIPT='[["setrange","default:tb:s0","-1","v"],["get","default:tb:s0"]]'
// replaces the tape-driven steps by the given commands (each treated like a
// mutated command sent alone, with every oracle), after the full population.
// An argument "hex:..." is decoded from hex (binary bytes); the pseudo commands
// ["#restart"] and ["#kill"] restart the node gracefully / by kill -9 and
// compare the dumps. For reproducing a finding by its exact command.
func scriptCmds() [][]string {
	v := os.Getenv("VERIF_FUZZ_SCRIPT")
	if v == "" {
		return nil
	}
	var out [][]string
	if err := json.Unmarshal([]byte(v), &out); err != nil {
		panic("fuzzsim: VERIF_FUZZ_SCRIPT is not a JSON array of string arrays: " + err.Error())
	}
	return out
}

func (s *sim) execMutated(as []arg, tags []string, tp *tmpl) {
	c, t := s.c, s.t
	shape := shapeOf(as, tags)
	if s.hitShapes[shape] {
		c.Count("suppressed_repeat_of_hit_shape", 1)
		return
	}
	args := toBytes(as)
	if knownOOM(args) {
		c.Count("skipped_known_unbounded_allocation_shape", 1)
		return
	}
	name := string(args[0])
	s.addWatch(as)
	s.quiesce()
	d0, r0 := s.base, s.baseR
	s.mu.Lock()
	snap0 := s.snapHits
	s.mu.Unlock()
	reqSize := 0
	for _, a := range args {
		reqSize += len(a)
	}
	ap0 := s.applied()
	a0 := allocBytes()
	w0 := wallNow()
	call, done := s.send(args, nil)
	wcmd := wallSince(w0)
	a1 := allocBytes()
	o := classify(call, done, name)
	o.panics = s.takePanics()
	sent := renderArgs(args)
	s.nMut++
	c.Count("family."+familyOf(name), 1)
	c.Log("mut", "%s [%s] -> %s", sent, shape, o.text())
	s.sample(fmt.Sprintf("%s  [%s] -> %s", sent, strings.Join(tags, "+"), o.text()))
	cls := classOf(name)
	failed := false
	if s.reportPanics(o.panics, shape, sent) {
		failed = true
		s.hitShapes[shape] = true
	}
	if !done {
		s.violate("command-hangs", "hang:"+cmdKey(shape), "no answer to %s within 150 fair rounds (15 s of simulated time)", sent)
		s.hitShapes[shape] = true
		s.invalidate()
		return
	}
	if o.connPanic {
		if !hasConnPanic(o.panics) {
			c.Probe("conn_closed_by_recover")
			s.violate("conn-panic", "connpanic:"+cmdKey(shape), "the connection was closed without a reply on %s", sent)
		}
		s.hitShapes[shape] = true
		failed = true
	} else if o.noReply {
		c.Count("nothing_written."+strings.ToLower(short(name, 20)), 1)
	}
	if o.open {
		// a protocol defect (the client waits for elements that never come), not
		// a crash or a partial write: counted, not reported under this property
		c.Count("malformed_reply_array_longer_than_written."+strings.ToLower(short(name, 20)), 1)
	}
	s.mu.Lock()
	snapFired := s.snapHits > snap0
	s.mu.Unlock()
	// allocation amplification of requests with few arguments (a request with
	// 100000 members and a 10 KiB key legitimately churns members x key length
	// bytes). Not evaluated when the command's entry happened
	// to trigger a snapshot (the checkpoint of the mem engine serialises the
	// whole store: a function of the state, not of this request); the pebble
	// engine allocates memtable arenas on its own schedule, hence the larger
	// allowance there.
	allow := uint64(128 << 20)
	if s.cfg.engine != "mem" {
		allow = 1 << 30
	}
	if d := a1 - a0; d > allow+uint64(reqSize)*64 && !snapFired && len(args) <= 64 {
		// (rounded down to a power of two so that the message does not depend on allocator noise)
		p2 := uint64(1)
		for p2*2 <= d>>20 {
			p2 *= 2
		}
		s.violate("huge-alloc", "alloc:"+nameKey(name), "%s (%d request bytes) made the process allocate more than %d MiB", sent, reqSize, p2)
		s.hitShapes[shape] = true
	}
	if wcmd > 20*time.Second && reqSize < 2<<20 {
		// (real time: the only oracle that is not a function of the tape)
		s.violate("command-stalls", "stall:"+nameKey(name), "%s (%d request bytes) kept the node busy for more than 20 s of real time", sent, reqSize)
		s.hitShapes[shape] = true
	}
	if o.isErr {
		s.nErr++
	}
	errLike := o.isErr || o.noReply || failed
	newHLL := s.noteHLL(args, !errLike)
	r1 := s.rawSnap()
	st := s.store()
	if pend := st.VerifDefaultBatchPending(); (pend != 0 || st.VerifIsBatching()) && !noWhiteBox {
		s.violate("batch-not-empty", "leak:"+cmdKey(shape), "after %s -> %s the store's shared write batch holds %d operation(s) (batching=%v) while nothing is being applied", sent, o.text(), pend, st.VerifIsBatching())
		s.hitShapes[shape] = true
		failed = true
	}
	changed := diffRaw(r0, r1)
	if errLike || cls == 'r' || cls == 'm' || cls == 'x' {
		if changed != "" {
			if errLike {
				s.violate("error-changed-state", "partial:"+nameKey(name), "%s -> %s, yet the store changed: %s", sent, o.text(), changed)
			} else {
				s.violate("read-changed-state", "readwrite:"+cmdKey(shape), "read command %s -> %s changed the store: %s", sent, o.text(), changed)
			}
			s.hitShapes[shape] = true
			failed = true
			s.invalidate()
		}
	}
	var d1 *dumpT
	if changed == "" && !newHLL {
		d1 = d0
	} else if changed == "" {
		s.invalidate()
	} else {
		s.nAccepted++
		s.invalidate()
	}
	reachedApply := false
	if o.isErr && (cls == 'w' || cls == 'M' || tp == nil) {
		// an error produced by the apply side travels through raft: the applied index moved
		reachedApply = s.applied() != ap0
	}
	if reachedApply {
		if isBatchable(name) {
			s.batchAbortHazard = true
		}
		c.Probe("error_reply_from_apply_side")
		if snapFired {
			c.Probe("error_before_snapshot")
		}
	}
	if hasProcPanic(o.panics) {
		// what production does next: the supervisor restarts the dead process,
		// which replays the poisoned entry
		s.invalidate()
		if s.restart(false, "after-apply-panic") {
			if ps := s.takePanics(); len(ps) > 0 {
				c.Probe("poisoned_entry_panics_again_on_replay")
				s.reportPanics(ps, shape, sent)
			}
		}
		return
	}
	// ---- restart after an erroring write: the entry must replay harmlessly ----
	if errLike && !failed && (cls == 'w' || cls == 'M' || tp == nil) && t.Bool(s.restartProb(reachedApply, snapFired)) {
		graceful := t.Bool(s.cfg.graceful)
		c.Probe("restart_after_error")
		if reachedApply {
			c.Probe("restart_after_apply_side_error")
		}
		if !s.restart(graceful, "after-error") {
			return
		}
		if ps := s.takePanics(); len(ps) > 0 {
			s.reportPanics(ps, shape, sent)
			s.hitShapes[shape] = true
		}
		d2 := s.dump()
		if df := s.diffRestart(d0, d2); df != "" {
			s.violate("replay-diverged", s.replayKey(name, reachedApply), "%s -> %s; after a %s restart the node serves different data: %s", sent, o.text(), map[bool]string{true: "graceful", false: "kill -9"}[graceful], df)
			s.hitShapes[shape] = true
		}
		s.base, s.baseR = d2, s.rawSnap()
		d1 = d2
	}
	// ---- nothing leaks into the next command ----
	if t.Bool(s.cfg.nextPm) {
		s.nextValid(d1, sent+" -> "+o.text(), shape, errLike)
	}
}

func (s *sim) restartProb(reachedApply, snapFired bool) int {
	p := s.cfg.restartPm
	// every incarnation of the node costs ~9 MiB that stay referenced until the
	// end of the run: at most 40 restarts per run
	if p == 0 || s.nRestartTotal >= 40 {
		return 0
	}
	if reachedApply {
		p *= 3
	}
	if snapFired {
		p *= 3
	}
	if p > 1000 {
		p = 1000
	}
	return p
}

func (s *sim) applied() uint64 {
	if nn := s.m.Parts[0]; nn != nil {
		return nn.Node.GetAppliedIndex()
	}
	return 0
}

func hasConnPanic(ps []panicRec) bool {
	for _, p := range ps {
		if p.where == "conn" {
			return true
		}
	}
	return false
}

// hasProcPanic: a panic that ends the process in production.
func hasProcPanic(ps []panicRec) bool {
	for _, p := range ps {
		if p.where != "conn" {
			return true
		}
	}
	return false
}

// replayKey names a divergence after restart: by the erroring command if its
// error came from the apply side, else by "history". (The former known finding
// replay:batchable-write-error - an apply-side error of set/setex/del/hmset
// aborted the shared write batch and dropped acknowledged neighbours when batch
// boundaries differed on replay - was repaired by 20e0e27; its special key is
// gone, batchAbortHazard only feeds a counter now.)
func (s *sim) replayKey(name string, reachedApply bool) string {
	if s.batchAbortHazard {
		s.c.Count("replay_divergence_after_batchable_apply_error", 1)
	}
	if !reachedApply {
		return "replay:history"
	}
	return "replay:" + nameKey(name)
}

func isBatchable(name string) bool {
	switch strings.ToLower(name) {
	case "set", "setex", "del", "hmset":
		return true
	}
	return false
}

// diffRestart compares the dumps before and after a restart. The view of keys
// that hold hyperloglog data is served from a cache that a restart empties
// (and that plain string writes on the same key bypass): not this property's
// business, so those entries are left out.
func (s *sim) diffRestart(a, b *dumpT) string {
	a2, b2 := a.clone(), b.clone()
	for k := range s.hllKeys {
		for _, e := range []string{"get " + k, "bitcount " + k} {
			delete(a2.text, e)
			delete(b2.text, e)
		}
	}
	return diffDump(a2, b2)
}

// cmdKey: the command-name part of a shape ("setrange-negative-offset" ->
// "setrange"): findings are keyed by failure kind + command, the exact
// argument shape is in the message.
func cmdKey(shape string) string {
	if i := strings.Index(shape, "-"); i > 0 {
		return shape[:i]
	}
	return shape
}

func nameKey(name string) string {
	n := strings.ToLower(name)
	if len(n) > 24 || strings.ContainsAny(n, "\x00 ") || n == "" {
		n = "oddname"
	}
	return n
}
