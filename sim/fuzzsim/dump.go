package fuzzsim

import (
	"fmt"
	"hash/fnv"
	"sort"
	"strconv"
	"strings"

	"github.com/youzan/ZanRedisDB/common"
	"github.com/youzan/ZanRedisDB/node"

	"verif/sim/model"
	"verif/sim/nodeh"
)

// ---- raw snapshot: every key/value pair of the storage engine -------------------

type rawKV struct {
	k    string
	vlen int
	vh   uint64
}

type rawSnap []rawKV

func (s *sim) store() *node.KVStore {
	nn := s.m.Parts[0]
	if nn == nil {
		return nil
	}
	return node.VerifKVStore(nn.Node.VerifStateMachine())
}

func (s *sim) rawSnap() rawSnap {
	st := s.store()
	if st == nil {
		return nil
	}
	it, err := st.NewDBRangeIterator(nil, nil, common.RangeClose, false)
	if err != nil {
		panic(fmt.Sprintf("fuzzsim: raw iterator: %v", err))
	}
	defer it.Close()
	var out rawSnap
	for ; it.Valid(); it.Next() {
		k := string(it.Key())
		v := it.Value()
		h := fnv.New64a()
		h.Write(v)
		out = append(out, rawKV{k: k, vlen: len(v), vh: h.Sum64()})
	}
	return out
}

func short(s string, n int) string {
	if len(s) <= n {
		return strconv.Quote(s)
	}
	return strconv.Quote(s[:n/2]) + fmt.Sprintf("...(len=%d)", len(s))
}

// diffRaw describes how two raw snapshots differ ("" if equal).
func diffRaw(a, b rawSnap) string {
	am := map[string]rawKV{}
	for _, x := range a {
		am[x.k] = x
	}
	bm := map[string]rawKV{}
	for _, x := range b {
		bm[x.k] = x
	}
	var ds []string
	for _, x := range a {
		y, ok := bm[x.k]
		if !ok {
			ds = append(ds, "removed "+short(x.k, 60))
		} else if y != x {
			ds = append(ds, fmt.Sprintf("changed %s (value len %d -> %d)", short(x.k, 60), x.vlen, y.vlen))
		}
	}
	for _, y := range b {
		if _, ok := am[y.k]; !ok {
			ds = append(ds, fmt.Sprintf("added %s (value len %d)", short(y.k, 60), y.vlen))
		}
	}
	if len(ds) == 0 {
		return ""
	}
	n := len(ds)
	if n > 6 {
		ds = ds[:6]
	}
	return fmt.Sprintf("%d raw engine key(s) differ: %s", n, strings.Join(ds, "; "))
}

// ---- logical dump: what clients can read ---------------------------------------

type dumpT struct {
	text map[string]string      // "<read> <key>" -> canonical reply
	raw  map[string]interface{} // same, decoded reply
	// smallest positive ttl seen (seconds), 0 if none
	minTTL int64
}

var coreReads = [][]string{{"get"}, {"hgetall"}, {"lrange", "0", "-1"}, {"smembers"}, {"zrange", "0", "-1", "withscores"}}
var otherReads = [][]string{{"json.get"}, {"bitcount"}}
var ttlReads = []string{"ttl", "httl", "lttl", "sttl", "zttl", "bttl"}

// directRead runs a registered read handler in the simulator goroutine (an
// observation; the command path under test is exercised by invoke).
func (s *sim) directRead(args ...string) (r interface{}) {
	nn := s.m.Parts[0]
	h, ok := nn.Node.GetHandler(args[0])
	if !ok {
		return nodeh.RErr("no handler")
	}
	conn := &fconn{}
	xs := make([]interface{}, len(args))
	for i, a := range args {
		xs[i] = a
	}
	defer func() {
		if e := recover(); e != nil {
			r = nodeh.RErr(fmt.Sprintf("PANIC in read handler: %v", e))
			s.dumpPanics = append(s.dumpPanics, fmt.Sprintf("%q: %v", args, e))
		}
	}()
	h(conn, nodeh.Cmd(xs...))
	rs, open := conn.replies()
	if len(rs) == 0 || open {
		return nodeh.RErr("no reply")
	}
	return compact(rs[0])
}

// bigBulk stands for a bulk reply that is too large to keep in dumps: length
// and hash identify it.
type bigBulk struct {
	n int
	h uint64
}

func compact(v interface{}) interface{} {
	switch x := v.(type) {
	case []byte:
		if len(x) > 2048 {
			h := fnv.New64a()
			h.Write(x)
			return bigBulk{len(x), h.Sum64()}
		}
	case []interface{}:
		for i := range x {
			x[i] = compact(x[i])
		}
	}
	return v
}

func entryName(read []string, key string) string { return read[0] + " " + key }

func (s *sim) watchKeys() []string {
	var ks []string
	for _, tab := range []string{mainTable, otherTable} {
		for _, p := range core_sorted(pools) {
			for _, n := range pools[p] {
				ks = append(ks, fullKey(tab, n))
			}
		}
	}
	for _, p := range core_sorted(reserved) {
		for _, n := range reserved[p] {
			ks = append(ks, fullKey(mainTable, n))
		}
	}
	ks = append(ks, fullKey(mainTable, "rx0"), fullKey(mainTable, "pr0"))
	ks = append(ks, s.extraWatch...)
	return ks
}

func core_sorted(m map[string][]string) []string {
	ks := make([]string, 0, len(m))
	for k := range m {
		ks = append(ks, k)
	}
	sort.Strings(ks)
	return ks
}

func (s *sim) dump() *dumpT {
	d := &dumpT{text: map[string]string{}, raw: map[string]interface{}{}}
	for _, k := range s.watchKeys() {
		for _, rd := range coreReads {
			if rd[0] == "get" && s.hllKeys[k] {
				// the string view of a hyperloglog key embeds a cached count and
				// lags behind the write-back cache: observe the count instead
				r := s.directRead("pfcount", k)
				d.text[entryName(rd, k)] = "HLL pfcount=" + fmtReply(r)
				d.raw[entryName(rd, k)] = nodeh.RErr("hll")
				continue
			}
			r := s.directRead(append([]string{rd[0], k}, rd[1:]...)...)
			d.text[entryName(rd, k)] = fmtReply(r)
			d.raw[entryName(rd, k)] = r
		}
		for _, rd := range otherReads {
			if rd[0] == "bitcount" && s.hllKeys[k] {
				continue
			}
			r := s.directRead(append([]string{rd[0], k}, rd[1:]...)...)
			d.text[entryName(rd, k)] = fmtReply(r)
		}
		for _, rd := range ttlReads {
			r := s.directRead(rd, k)
			cls := fmtReply(r)
			if v, ok := r.(int64); ok {
				switch {
				case v > 0:
					cls = "ttl"
					if d.minTTL == 0 || v < d.minTTL {
						d.minTTL = v
					}
				case v == -1:
					cls = "none"
				default:
					cls = "ttl" + strconv.FormatInt(v, 10)
				}
			}
			d.text[rd+" "+k] = cls
		}
	}
	return d
}

func (d *dumpT) clone() *dumpT {
	n := &dumpT{text: map[string]string{}, raw: map[string]interface{}{}, minTTL: d.minTTL}
	for k, v := range d.text {
		n.text[k] = v
	}
	for k, v := range d.raw {
		n.raw[k] = v
	}
	return n
}

// diffDump describes how two logical dumps differ ("" if equal).
func diffDump(a, b *dumpT) string {
	keys := map[string]bool{}
	for k := range a.text {
		keys[k] = true
	}
	for k := range b.text {
		keys[k] = true
	}
	var ks []string
	for k := range keys {
		ks = append(ks, k)
	}
	sort.Strings(ks)
	var ds []string
	for _, k := range ks {
		if a.text[k] != b.text[k] {
			ds = append(ds, fmt.Sprintf("%s: %s -> %s", short(k, 70), short(a.text[k], 120), short(b.text[k], 120)))
		}
	}
	if len(ds) == 0 {
		return ""
	}
	n := len(ds)
	if n > 5 {
		ds = ds[:5]
	}
	return fmt.Sprintf("%d read(s) differ: %s", n, strings.Join(ds, "; "))
}

func fmtReply(v interface{}) string {
	switch x := v.(type) {
	case bigBulk:
		return fmt.Sprintf("<bulk len=%d fnv=%016x>", x.n, x.h)
	case model.Err:
		return "-ERR " + string(x)
	case []interface{}:
		var sb strings.Builder
		sb.WriteString("[")
		for i, e := range x {
			if i > 0 {
				sb.WriteString(" ")
			}
			sb.WriteString(fmtReply(e))
		}
		sb.WriteString("]")
		return sb.String()
	}
	return nodeh.Fmt(v)
}

func stripNS(full string) string {
	if strings.HasPrefix(full, nodeh.NS+":") {
		return full[len(nodeh.NS)+1:]
	}
	return full
}

func bulks(v interface{}) ([]string, bool) {
	arr, ok := v.([]interface{})
	if !ok {
		return nil, false
	}
	out := make([]string, 0, len(arr))
	for _, e := range arr {
		b, ok := e.([]byte)
		if !ok {
			return nil, false
		}
		out = append(out, string(b))
	}
	return out, true
}

// modelFrom builds the reference model's state of one key from a dump.
// ok=false if the dump of that key is not representable (error replies).
func modelFrom(d *dumpT, full string) (*model.Store, bool) {
	st := model.New()
	k := stripNS(full)
	if r, ok := d.raw["get "+full]; ok {
		switch x := r.(type) {
		case nil:
		case []byte:
			st.KV[k] = string(x)
		default:
			return nil, false
		}
	}
	if xs, ok := bulks(d.raw["hgetall "+full]); ok {
		if len(xs)%2 != 0 {
			return nil, false
		}
		if len(xs) > 0 {
			st.Hash[k] = map[string]string{}
			for i := 0; i < len(xs); i += 2 {
				st.Hash[k][xs[i]] = xs[i+1]
			}
		}
	} else {
		return nil, false
	}
	if xs, ok := bulks(d.raw["lrange "+full]); ok {
		if len(xs) > 0 {
			st.List[k] = xs
		}
	} else {
		return nil, false
	}
	if xs, ok := bulks(d.raw["smembers "+full]); ok {
		if len(xs) > 0 {
			st.Set[k] = map[string]bool{}
			for _, m := range xs {
				st.Set[k][m] = true
			}
		}
	} else {
		return nil, false
	}
	if xs, ok := bulks(d.raw["zrange "+full]); ok {
		if len(xs)%2 != 0 {
			return nil, false
		}
		if len(xs) > 0 {
			st.ZSet[k] = map[string]float64{}
			for i := 0; i < len(xs); i += 2 {
				f, err := strconv.ParseFloat(xs[i+1], 64)
				if err != nil {
					return nil, false
				}
				st.ZSet[k][xs[i]] = f
			}
		}
	} else {
		return nil, false
	}
	return st, true
}

// applyToDump writes the model's view of one key back into a dump.
func applyToDump(d *dumpT, st *model.Store, full string) {
	k := stripNS(full)
	for _, rd := range coreReads {
		r := st.Apply(append([]string{rd[0], k}, rd[1:]...))
		d.text[entryName(rd, full)] = fmtReply(r)
		d.raw[entryName(rd, full)] = r
	}
}

// modelApply executes one valid command on the model. Commands the shared
// model does not know (hmset, setex) are implemented here from the
// documentation. ttlSet reports that the command gives the key a ttl.
func modelApply(st *model.Store, args []string) (reply interface{}, ttlSet bool) {
	margs := append([]string{args[0], stripNS(args[1])}, args[2:]...)
	switch args[0] {
	case "hmset":
		k := margs[1]
		if st.Hash[k] == nil {
			st.Hash[k] = map[string]string{}
		}
		for i := 2; i+1 < len(margs); i += 2 {
			st.Hash[k][margs[i]] = margs[i+1]
		}
		return "OK", false
	case "setex":
		st.KV[margs[1]] = margs[3]
		return "OK", true
	}
	return st.Apply(margs), false
}
