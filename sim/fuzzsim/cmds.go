package fuzzsim

import (
	"fmt"
	"strings"

	"verif/sim/core"
	"verif/sim/nodeh"
)

// kind of one argument of a command template: decides which mutations make
// sense for it and how a failure shape is named.
type kind uint8

const (
	kName kind = iota
	kKey
	kField
	kVal
	kInt
	kTTL
	kOff
	kIdx
	kCount
	kScore
	kBit
	kSRange
	kLex
	kLon
	kLat
	kRad
	kUnit
	kPath
	kJSON
	kCur
	kPat
	kDType
	kTabCur
	kWhere
	kOpt
)

var kindName = map[kind]string{kName: "name", kKey: "key", kField: "field", kVal: "value", kInt: "int", kTTL: "ttl", kOff: "offset", kIdx: "index",
	kCount: "count", kScore: "score", kBit: "bit", kSRange: "scorerange", kLex: "lexrange", kLon: "lon", kLat: "lat", kRad: "radius",
	kUnit: "unit", kPath: "path", kJSON: "json", kCur: "cursor", kPat: "pattern", kDType: "scantype", kTabCur: "tablecursor",
	kWhere: "where", kOpt: "option"}

type arg struct {
	k kind
	v string
}

// tmpl is one valid invocation shape of a registered command.
//
// spec grammar (space separated): k | k:<pool> key of the template's / another
// pool; f field/member; v value; n int; t ttl; o offset/index; c count; s score;
// i index (may be negative); b bit; lo hi score range bounds; lx ux lex range bounds; lon lat rad unit;
// jp json path; jv json value; cur collection cursor; pat pattern; dtype;
// tabcur; where; =word literal option; [ ... ] optional group; { ... } group
// repeated 1-3 times; {* ... } group repeated 0-2 times.
type tmpl struct {
	name   string
	class  byte // r read, w write, m merge read, M merge write, x handled by the server itself
	pool   string
	family string
	spec   string
}

// key pools. Each pool is used by the valid templates of one data type only,
// so a valid history never mixes types on one name; mutations do.
var pools = map[string][]string{
	"s": {"s0", "s1"}, // plain strings
	"c": {"c0", "c1"}, // counters
	"x": {"x0", "x1"}, // strings with ttl
	"p": {"p0"},       // hyperloglog
	"j": {"j0", "j1"}, // json documents
	"b": {"b0", "b1"}, // bitmaps
	"h": {"h0", "h1"},
	"l": {"l0", "l1"},
	"e": {"e0", "e1"}, // sets
	"z": {"z0", "z1"},
	"g": {"g0"}, // geo (zset)
}

// reserved names: only the model-checked "next valid command" touches them.
var reserved = map[string][]string{"s": {"rs0"}, "c": {"rc0"}, "l": {"rl0"}, "h": {"rh0"}, "e": {"re0"}, "z": {"rz0"}}

const mainTable = "tb"
const otherTable = "t2"

func fullKey(table, name string) string { return nodeh.NS + ":" + table + ":" + name }

var templates = []tmpl{
	// ---- kv ----
	{"get", 'r', "s", "kv", "k"},
	{"stale.get", 'r', "s", "kv", "k"},
	{"stale.getversion", 'r', "s", "kv", "k"},
	{"stale.getexpired", 'r', "x", "kv", "k"},
	{"strlen", 'r', "s", "kv", "k"},
	{"getnolock", 'r', "s", "kv", "k"},
	{"getrange", 'r', "s", "kv", "k i i"},
	{"mget", 'r', "s", "kv", "k {* k }"},
	{"set", 'w', "s", "kv", "k v"},
	{"set", 'w', "x", "kv", "k v [ =ex t ] [ =nx ]"},
	{"set", 'w', "x", "kv", "k v [ =xx ] [ =ex t ]"},
	{"set", 'w', "c", "kv", "k n"},
	{"append", 'w', "s", "kv", "k v"},
	{"setrange", 'w', "s", "kv", "k o v"},
	{"getset", 'w', "s", "kv", "k v"},
	{"setnx", 'w', "s", "kv", "k v"},
	{"setifeq", 'w', "s", "kv", "k v v [ =ex t ]"},
	{"delifeq", 'w', "s", "kv", "k v"},
	{"incr", 'w', "c", "kv", "k"},
	{"incrby", 'w', "c", "kv", "k n"},
	{"noopwrite", 'w', "s", "kv", "k v"},
	{"setex", 'w', "x", "ttl", "k t v"},
	{"exists", 'm', "s", "merge", "k {* k }"},
	{"del", 'M', "s", "merge", "k {* k }"},
	{"del", 'M', "x", "merge", "k"},
	{"plset", 'M', "s", "merge", "{ k v }"},
	// ---- hll / bitmap ----
	{"pfadd", 'w', "p", "hll", "k { f }"},
	{"pfcount", 'r', "p", "hll", "k"},
	{"setbit", 'w', "b", "bitmap", "k o b"},
	{"setbitv2", 'w', "b", "bitmap", "k o b"},
	{"getbit", 'r', "b", "bitmap", "k o"},
	{"bitcount", 'r', "b", "bitmap", "k [ i i ]"},
	{"bitclear", 'w', "b", "bitmap", "k"},
	{"bttl", 'r', "b", "ttl", "k"},
	{"bkeyexist", 'r', "b", "bitmap", "k"},
	{"bexpire", 'w', "b", "ttl", "k t"},
	{"bpersist", 'w', "b", "ttl", "k"},
	// ---- hash ----
	{"hget", 'r', "h", "hash", "k f"},
	{"stale.hget.version", 'r', "h", "hash", "k f"},
	{"stale.hgetall.expired", 'r', "h", "hash", "k"},
	{"stale.hmget.expired", 'r', "h", "hash", "k { f }"},
	{"hgetall", 'r', "h", "hash", "k"},
	{"hkeys", 'r', "h", "hash", "k"},
	{"hvals", 'r', "h", "hash", "k"},
	{"hexists", 'r', "h", "hash", "k f"},
	{"hmget", 'r', "h", "hash", "k { f }"},
	{"hlen", 'r', "h", "hash", "k"},
	{"hset", 'w', "h", "hash", "k f v"},
	{"hsetnx", 'w', "h", "hash", "k f v"},
	{"hmset", 'w', "h", "hash", "k { f v }"},
	{"hdel", 'w', "h", "hash", "k { f }"},
	{"hincrby", 'w', "h", "hash", "k fcnt n"},
	{"hclear", 'w', "h", "hash", "k"},
	{"httl", 'r', "h", "ttl", "k"},
	{"hkeyexist", 'r', "h", "hash", "k"},
	{"hexpire", 'w', "h", "ttl", "k t"},
	{"hpersist", 'w', "h", "ttl", "k"},
	{"hscan", 'r', "h", "scan", "k cur [ =match pat ] [ =count c ]"},
	{"hrevscan", 'r', "h", "scan", "k cur [ =match pat ] [ =count c ]"},
	// ---- json ----
	{"json.get", 'r', "j", "json", "k {* jp }"},
	{"json.keyexists", 'r', "j", "json", "k"},
	{"json.mkget", 'r', "j", "json", "k {* k } jp"},
	{"json.type", 'r', "j", "json", "k [ jp ]"},
	{"json.arrlen", 'r', "j", "json", "k jarr"},
	{"json.objkeys", 'r', "j", "json", "k [ jobj ]"},
	{"json.objlen", 'r', "j", "json", "k [ jobj ]"},
	{"json.set", 'w', "j", "json", "k jp jv"},
	{"json.del", 'w', "j", "json", "k [ jp ]"},
	{"json.arrappend", 'w', "j", "json", "k jarr { jv }"},
	{"json.arrpop", 'w', "j", "json", "k jarr"},
	// ---- list ----
	{"lindex", 'r', "l", "list", "k i"},
	{"llen", 'r', "l", "list", "k"},
	{"lrange", 'r', "l", "list", "k i i"},
	{"lfixkey", 'w', "l", "list", "k"},
	{"lpop", 'w', "l", "list", "k"},
	{"lpush", 'w', "l", "list", "k { v }"},
	{"lset", 'w', "l", "list", "k i v"},
	{"ltrim", 'w', "l", "list", "k i i"},
	{"rpop", 'w', "l", "list", "k"},
	{"rpush", 'w', "l", "list", "k { v }"},
	{"lclear", 'w', "l", "list", "k"},
	{"lttl", 'r', "l", "ttl", "k"},
	{"lkeyexist", 'r', "l", "list", "k"},
	{"lexpire", 'w', "l", "ttl", "k t"},
	{"lpersist", 'w', "l", "ttl", "k"},
	// ---- zset ----
	{"zscore", 'r', "z", "zset", "k f"},
	{"zcount", 'r', "z", "zset", "k lo hi"},
	{"zcard", 'r', "z", "zset", "k"},
	{"zlexcount", 'r', "z", "zset", "k lx ux"},
	{"zrange", 'r', "z", "zset", "k i i [ =withscores ]"},
	{"zrevrange", 'r', "z", "zset", "k i i [ =withscores ]"},
	{"zrangebylex", 'r', "z", "zset", "k lx ux [ =limit o c ]"},
	{"zrangebyscore", 'r', "z", "zset", "k lo hi [ =withscores ] [ =limit o c ]"},
	{"zrevrangebyscore", 'r', "z", "zset", "k hi lo [ =withscores ] [ =limit o c ]"},
	{"zrank", 'r', "z", "zset", "k f"},
	{"zrevrank", 'r', "z", "zset", "k f"},
	{"zfixkey", 'w', "z", "zset", "k"},
	{"zadd", 'w', "z", "zset", "k { s f }"},
	{"zincrby", 'w', "z", "zset", "k s f"},
	{"zrem", 'w', "z", "zset", "k { f }"},
	{"zremrangebyrank", 'w', "z", "zset", "k i i"},
	{"zremrangebyscore", 'w', "z", "zset", "k lo hi"},
	{"zremrangebylex", 'w', "z", "zset", "k lx ux"},
	{"zclear", 'w', "z", "zset", "k"},
	{"zttl", 'r', "z", "ttl", "k"},
	{"zkeyexist", 'r', "z", "zset", "k"},
	{"zexpire", 'w', "z", "ttl", "k t"},
	{"zpersist", 'w', "z", "ttl", "k"},
	{"zscan", 'r', "z", "scan", "k cur [ =match pat ] [ =count c ]"},
	{"zrevscan", 'r', "z", "scan", "k cur [ =match pat ] [ =count c ]"},
	// ---- set ----
	{"scard", 'r', "e", "set", "k"},
	{"sismember", 'r', "e", "set", "k f"},
	{"smembers", 'r', "e", "set", "k"},
	{"srandmember", 'r', "e", "set", "k [ c ]"},
	{"spop", 'w', "e", "set", "k [ c ]"},
	{"sadd", 'w', "e", "set", "k { f }"},
	{"srem", 'w', "e", "set", "k { f }"},
	{"sclear", 'w', "e", "set", "k"},
	{"sttl", 'r', "e", "ttl", "k"},
	{"skeyexist", 'r', "e", "set", "k"},
	{"sexpire", 'w', "e", "ttl", "k t"},
	{"spersist", 'w', "e", "ttl", "k"},
	{"sscan", 'r', "e", "scan", "k cur [ =match pat ] [ =count c ]"},
	{"srevscan", 'r', "e", "scan", "k cur [ =match pat ] [ =count c ]"},
	// ---- ttl on kv ----
	{"ttl", 'r', "x", "ttl", "k"},
	{"expire", 'w', "x", "ttl", "k t"},
	{"persist", 'w', "x", "ttl", "k"},
	// ---- geo ----
	{"geoadd", 'w', "g", "geo", "k { lon lat f }"},
	{"geohash", 'r', "g", "geo", "k { f }"},
	{"geodist", 'r', "g", "geo", "k f f [ unit ]"},
	{"geopos", 'r', "g", "geo", "k { f }"},
	{"georadius", 'r', "g", "geo", "k lon lat rad unit [ =withcoord ] [ =withdist ] [ =withhash ] [ =count c ] [ =asc ]"},
	{"georadiusbymember", 'r', "g", "geo", "k f rad unit [ =withdist ] [ =count c ] [ =desc ]"},
	// ---- merge scans ----
	{"scan", 'm', "s", "merge", "tabcur [ =match pat ] =count c"},
	{"scan", 'm', "s", "merge", "tabcur"},
	{"revscan", 'm', "s", "merge", "tabcur [ =match pat ] =count c"},
	{"advscan", 'm', "s", "merge", "tabcur dtype [ =match pat ] =count c"},
	{"advscan", 'm', "s", "merge", "tabcur dtype"},
	{"advrevscan", 'm', "s", "merge", "tabcur dtype [ =match pat ] =count c"},
	{"fullscan", 'm', "s", "merge", "tabcur dtype [ =match pat ] =count c"},
	{"hidx.from", 'm', "h", "merge", "tabname =where where [ =limit o c ] [ =hget =$ f ]"},
	{"hidx.from", 'm', "h", "merge", "tabname =where where =hgetall =$"},
	// ---- handled by the server shell ----
	{"ping", 'x', "s", "server", ""},
	{"auth", 'x', "s", "server", "v"},
}

// registered names that are deliberately not generated
var notGenerated = map[string]string{
	"slowwrite1s_test": "test-only", "slowwrite100ms_test": "test-only", "slowwrite50ms_test": "test-only", "slowwrite5ms_test": "test-only",
}

// internal (apply-side only) names without a client-side registration: a
// client cannot reach them (the server answers "unsupported command").
var internalOnly = map[string]bool{"mset": true, "hmclear": true, "lmclear": true, "zmclear": true, "smclear": true}

// gen draws template instances and values from the tape.
type gen struct {
	t           *core.Tape
	nval        int
	nHuge, nBig int
}

func (g *gen) pick(xs []string) string { return xs[g.t.Choose(len(xs))] }

func (g *gen) key(pool string) string {
	names := pools[pool]
	if names == nil {
		names = pools["s"]
	}
	tab := mainTable
	if g.t.Choose(8) == 7 {
		tab = otherTable
	}
	return fullKey(tab, g.pick(names))
}

var fieldPool = []string{"f0", "f1", "f2", "m0", "m1"}
var jsonPaths = []string{"a", "arr", "obj", "obj.x", "arr.0", ""}
var jsonVals = []string{`1`, `"str"`, `{"x":1,"y":[1,2]}`, `[1,2,3]`, `true`, `null`}
var validJSONDoc = `{"a":1,"arr":[1,2,3],"obj":{"x":"y"}}`

func (g *gen) value(k kind) string {
	t := g.t
	switch k {
	case kField:
		return g.pick(fieldPool)
	case kVal:
		g.nval++
		return fmt.Sprintf("v%d", g.nval)
	case kInt:
		return []string{"1", "5", "-3", "100"}[t.Choose(4)]
	case kTTL:
		return []string{"100000", "200000", "86400"}[t.Choose(3)]
	case kOff:
		return []string{"0", "1", "3", "2", "5"}[t.Choose(5)]
	case kIdx:
		return []string{"0", "1", "-1", "2", "-2"}[t.Choose(5)]
	case kCount:
		return []string{"10", "1", "2", "100"}[t.Choose(4)]
	case kScore:
		return []string{"1", "2.5", "-1", "10"}[t.Choose(4)]
	case kBit:
		return []string{"1", "0"}[t.Choose(2)]
	case kLon:
		return []string{"13.361389", "15.087269", "-122.4"}[t.Choose(3)]
	case kLat:
		return []string{"38.115556", "37.502669", "37.7"}[t.Choose(3)]
	case kRad:
		return []string{"200", "10", "100000"}[t.Choose(3)]
	case kUnit:
		return []string{"km", "m", "mi", "ft"}[t.Choose(4)]
	case kPath:
		return g.pick(jsonPaths)
	case kJSON:
		return g.pick(jsonVals)
	case kCur:
		return []string{"", "f0", "m1"}[t.Choose(3)]
	case kPat:
		return []string{"*", "f*", "?0"}[t.Choose(3)]
	case kDType:
		return []string{"kv", "hash", "list", "set", "zset"}[t.Choose(5)]
	case kTabCur:
		return nodeh.NS + ":" + mainTable + ":"
	case kWhere:
		return []string{"f0=1", "f0>1 and f0<9", "f1<=5"}[t.Choose(3)]
	}
	return "x"
}

// instantiate expands a template into a valid argument vector.
func (g *gen) instantiate(tp *tmpl) []arg {
	out := []arg{{kName, tp.name}}
	toks := strings.Fields(tp.spec)
	var emit func(toks []string)
	emit = func(toks []string) {
		for i := 0; i < len(toks); i++ {
			tok := toks[i]
			switch {
			case tok == "[" || tok == "{" || tok == "{*":
				closer := "]"
				if tok != "[" {
					closer = "}"
				}
				j := i + 1
				for j < len(toks) && toks[j] != closer {
					j++
				}
				body := toks[i+1 : j]
				n := 1
				switch tok {
				case "[":
					n = g.t.Choose(2)
				case "{":
					n = 1 + g.t.Choose(3)
				case "{*":
					n = g.t.Choose(3)
				}
				for r := 0; r < n; r++ {
					emit(body)
				}
				i = j
			case tok == "k":
				out = append(out, arg{kKey, g.key(tp.pool)})
			case strings.HasPrefix(tok, "k:"):
				out = append(out, arg{kKey, g.key(tok[2:])})
			case strings.HasPrefix(tok, "="):
				out = append(out, arg{kOpt, tok[1:]})
			case tok == "tabname":
				out = append(out, arg{kTabCur, nodeh.NS + ":" + mainTable})
			case tok == "fcnt":
				out = append(out, arg{kField, "cnt"})
			case tok == "jarr":
				out = append(out, arg{kPath, "arr"})
			case tok == "jobj":
				out = append(out, arg{kPath, "obj"})
			default:
				k, ok := tokKind[tok]
				if !ok {
					panic("fuzzsim: bad template token " + tok + " in " + tp.name)
				}
				out = append(out, arg{k, g.value(k)})
			}
		}
	}
	emit(toks)
	// range bounds need their syntax
	for i := range out {
		switch out[i].k {
		case kSRange:
			out[i].v = []string{"-inf", "+inf", "0", "(1", "5"}[g.t.Choose(5)]
		case kLex:
			out[i].v = []string{"-", "+", "[a", "(m", "[z"}[g.t.Choose(5)]
		}
	}
	return out
}

var tokKind = map[string]kind{"f": kField, "v": kVal, "n": kInt, "t": kTTL, "o": kOff, "i": kIdx, "c": kCount, "s": kScore, "b": kBit,
	"lo": kSRange, "hi": kSRange, "lx": kLex, "ux": kLex, "lon": kLon, "lat": kLat, "rad": kRad, "unit": kUnit, "jp": kPath, "jv": kJSON,
	"cur": kCur, "pat": kPat, "dtype": kDType, "tabcur": kTabCur, "where": kWhere}

func toBytes(as []arg) [][]byte {
	out := make([][]byte, len(as))
	for i, a := range as {
		out[i] = []byte(a.v)
	}
	return out
}

// population: valid commands that give every pool key some content.
func populateCmds() [][]string {
	var out [][]string
	add := func(xs ...string) { out = append(out, xs) }
	for _, tab := range []string{mainTable, otherTable} {
		K := func(n string) string { return fullKey(tab, n) }
		add("set", K("s0"), "hello-world")
		add("set", K("s1"), "0123456789abcdef")
		add("set", K("c0"), "10")
		add("incr", K("c1"))
		add("setex", K("x0"), "100000", "tmp0")
		add("setex", K("x1"), "200000", "tmp1")
		add("pfadd", K("p0"), "a", "b", "c")
		add("json.set", K("j0"), "", validJSONDoc)
		add("json.set", K("j1"), "", `{"arr":[],"obj":{}}`)
		add("setbitv2", K("b0"), "7", "1")
		add("setbitv2", K("b0"), "100000", "1")
		add("setbitv2", K("b1"), "0", "1")
		add("hmset", K("h0"), "f0", "1", "f1", "b", "cnt", "5")
		add("hset", K("h1"), "f0", "7")
		add("rpush", K("l0"), "a", "b", "c", "d")
		add("lpush", K("l1"), "x")
		add("sadd", K("e0"), "f0", "f1", "m0")
		add("sadd", K("e1"), "m1")
		add("zadd", K("z0"), "1", "f0", "2", "f1", "3", "m0")
		add("zadd", K("z1"), "0", "m1")
		add("geoadd", K("g0"), "13.361389", "38.115556", "f0", "15.087269", "37.502669", "f1")
		add("hexpire", K("h1"), "100000")
		add("zexpire", K("z1"), "100000")
	}
	K := func(n string) string { return fullKey(mainTable, n) }
	add("set", K("rs0"), "base")
	add("set", K("rc0"), "1")
	add("rpush", K("rl0"), "a", "b")
	add("hset", K("rh0"), "f0", "v")
	add("sadd", K("re0"), "m0")
	add("zadd", K("rz0"), "1", "m0")
	return out
}
