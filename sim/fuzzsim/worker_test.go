package fuzzsim

import (
	"os"
	"runtime/debug"
	"strconv"
	"syscall"
	"testing"

	"verif/sim/core"
)

// The property says huge lengths/offsets must not take the process down. If
// the code under test does try to allocate tens of gigabytes the worker must
// die (reported by the check script as rule process-crash for the run in
// progress) instead of taking the sandbox down with it: cap the address space.
func init() {
	gib := uint64(6)
	if v := os.Getenv("VERIF_FUZZ_AS_GIB"); v != "" {
		if n, err := strconv.Atoi(v); err == nil {
			gib = uint64(n)
		}
	}
	if gib > 0 {
		lim := syscall.Rlimit{Cur: gib << 30, Max: gib << 30}
		syscall.Setrlimit(syscall.RLIMIT_AS, &lim)
	}
	if os.Getenv("GOMEMLIMIT") == "" {
		// soft limit: collect more eagerly long before the hard cap
		debug.SetMemoryLimit(3 << 30)
	}
	if os.Getenv("GOTRACEBACK") == "" {
		// a crash report should end with the goroutine that crashed, not with
		// hundreds of parked ones
		debug.SetTraceback("single")
	}
}

func TestWorker(t *testing.T) { core.Worker(t, Engine) }
