package fuzzsim

import (
	"syscall"
	"testing/synctest"
	"time"
	"unsafe"
)

// wallNow reads the real monotonic clock (time.Now is the bubble's fake clock
// inside synctest). Used only for run-time bounds and reporting, never for
// decisions that influence the trace.
func wallNow() int64 {
	var ts syscall.Timespec
	syscall.Syscall(syscall.SYS_CLOCK_GETTIME, 1 /* CLOCK_MONOTONIC */, uintptr(unsafe.Pointer(&ts)), 0)
	return ts.Sec*1e9 + ts.Nsec
}

func wallSince(t0 int64) time.Duration { return time.Duration(wallNow() - t0) }

func synctestWait() { synctest.Wait() }
