package fuzzsim

import (
	"fmt"
	"strings"
	"testing/synctest"
	"time"

	"github.com/absolute8511/redcon"

	"verif/sim/core"
	"verif/sim/model"
	"verif/sim/nodeh"
)

// restart stops the node (kill -9 = directory image + new process, or a clean
// shutdown), boots it again and waits for it to lead.
func (s *sim) restart(graceful bool, why string) bool {
	c, cl := s.c, s.cl
	// a killed process stays around as a zombie (with its whole store) until
	// the end of the run: bound their number, later restarts are graceful
	if !graceful && s.nKills >= 12 {
		graceful = true
		c.Count("kill_replaced_by_graceful_stop_to_bound_memory", 1)
	}
	if !graceful {
		s.nKills++
	}
	s.nRestartTotal++
	if graceful {
		c.Fault("stop_graceful")
		cl.StopGraceful(s.m)
	} else {
		c.Fault("kill")
		cl.Kill(s.m)
	}
	c.Log("restart", "%s graceful=%v", why, graceful)
	if err := cl.Restart(s.m); err != nil {
		s.violate("restart-failed", "", "the node does not come back (%s, graceful=%v): %v", why, graceful, err)
		return false
	}
	c.Fault("restart")
	s.wrapNode(s.m.Parts[0])
	s.bootAt = time.Now()
	s.nRestart++
	s.invalidate()
	s.flushHLL()
	if !s.waitLeader() {
		s.violate("restart-no-leader", "", "after a restart (%s, graceful=%v) the single replica does not become leader within 120 rounds", why, graceful)
		return false
	}
	return true
}

func (s *sim) newVal() string {
	s.g.nval++
	return fmt.Sprintf("n%d", s.g.nval)
}

// drawNext draws a valid command the reference model knows, on a reserved key.
func (s *sim) drawNext(typ string) []string {
	t := s.t
	K := func(p string) string { return fullKey(mainTable, reserved[p][0]) }
	switch typ {
	case "s":
		switch t.Choose(6) {
		case 0:
			return []string{"set", K("s"), s.newVal()}
		case 1:
			return []string{"append", K("s"), s.newVal()}
		case 2:
			return []string{"getset", K("s"), s.newVal()}
		case 3:
			return []string{"setnx", K("s"), s.newVal()}
		case 4:
			return []string{"del", K("s")}
		default:
			return []string{"get", K("s")}
		}
	case "c":
		switch t.Choose(3) {
		case 0:
			return []string{"incr", K("c")}
		case 1:
			return []string{"incrby", K("c"), []string{"5", "-2", "100"}[t.Choose(3)]}
		default:
			return []string{"get", K("c")}
		}
	case "l":
		switch t.Choose(5) {
		case 0:
			return []string{"rpush", K("l"), s.newVal()}
		case 1:
			return []string{"lpush", K("l"), s.newVal()}
		case 2:
			return []string{"lpop", K("l")}
		case 3:
			return []string{"rpop", K("l")}
		default:
			return []string{"llen", K("l")}
		}
	case "h":
		switch t.Choose(4) {
		case 0:
			return []string{"hset", K("h"), s.g.pick(fieldPool), s.newVal()}
		case 1:
			return []string{"hdel", K("h"), s.g.pick(fieldPool)}
		case 2:
			return []string{"hincrby", K("h"), "cnt", "3"}
		default:
			return []string{"hget", K("h"), s.g.pick(fieldPool)}
		}
	case "e":
		switch t.Choose(3) {
		case 0:
			return []string{"sadd", K("e"), s.g.pick(fieldPool)}
		case 1:
			return []string{"srem", K("e"), s.g.pick(fieldPool)}
		default:
			return []string{"scard", K("e")}
		}
	default:
		switch t.Choose(4) {
		case 0:
			return []string{"zadd", K("z"), []string{"1", "2", "-3.5"}[t.Choose(3)], s.g.pick(fieldPool)}
		case 1:
			return []string{"zrem", K("z"), s.g.pick(fieldPool)}
		case 2:
			return []string{"zincrby", K("z"), "2", s.g.pick(fieldPool)}
		default:
			return []string{"zscore", K("z"), s.g.pick(fieldPool)}
		}
	}
}

var nextTypes = []string{"s", "c", "l", "h", "e", "z"}

// nextValid sends a valid command after a mutated one and compares its reply
// and the whole dump with the reference model's prediction from the dump
// before it.
func (s *sim) nextValid(d1 *dumpT, after string, shape string, afterErr bool) {
	c := s.c
	if d1 == nil {
		s.quiesce()
		d1 = s.base
	}
	args := s.drawNext(nextTypes[s.t.Choose(len(nextTypes))])
	key := args[1]
	st, ok := modelFrom(d1, key)
	if !ok {
		c.Count("next_valid_skipped_unrepresentable", 1)
		return
	}
	want, ttlSet := modelApply(st, args)
	r0 := s.rawSnap()
	bs := make([][]byte, len(args))
	for i, a := range args {
		bs[i] = []byte(a)
	}
	call, done := s.send(bs, nil)
	o := classify(call, done, args[0])
	ps := s.takePanics()
	s.nNext++
	c.Log("next", "%s -> %s (model %s)", renderStrs(args), o.text(), fmtReply(want))
	s.invalidate()
	key2 := "next:" + cmdKey(shape)
	if s.reportPanics(ps, shape, renderStrs(args)) {
		s.hitShapes[shape] = true
		return
	}
	if !done || o.noReply {
		s.violate("node-stuck", key2, "after %s the valid command %s gets %s", after, renderStrs(args), o.text())
		s.hitShapes[shape] = true
		return
	}
	if !model.Equal(o.replies[0], want) {
		s.violate("next-command-differs", key2, "after %s the valid command %s answers %s, the reference model (from the dump taken before it) says %s", after, renderStrs(args), o.text(), fmtReply(want))
		s.hitShapes[shape] = true
	}
	exp := d1.clone()
	applyToDump(exp, st, key)
	_ = ttlSet
	d2 := s.dump()
	relaxKey(exp, d2, key)
	if df := diffDump(exp, d2); df != "" {
		s.violate("next-command-effect-differs", key2, "after %s the valid command %s -> %s leaves a state that differs from the model's prediction (expected -> found): %s", after, renderStrs(args), o.text(), df)
		s.hitShapes[shape] = true
	}
	r1 := s.rawSnap()
	if model.IsRead(args[0]) {
		if ch := diffRaw(r0, r1); ch != "" {
			s.violate("next-command-effect-differs", key2, "after %s the valid READ %s changed the store: %s", after, renderStrs(args), ch)
			s.hitShapes[shape] = true
		}
	}
	if st := s.store(); (st.VerifDefaultBatchPending() != 0 || st.VerifIsBatching()) && !noWhiteBox {
		s.violate("batch-not-empty", "leak:"+cmdKey(shape), "after %s and the valid command %s the shared write batch holds %d operation(s)", after, renderStrs(args), st.VerifDefaultBatchPending())
	}
	s.base, s.baseR = d2, r1
}

// stepValid: a valid command of any registered kind (state evolution; also
// exercises every template through the full path).
func (s *sim) stepValid() {
	c := s.c
	tp := &templates[s.t.Choose(len(templates))]
	as := s.g.instantiate(tp)
	args := toBytes(as)
	s.quiesce()
	r0 := s.baseR
	call, done := s.send(args, nil)
	o := classify(call, done, tp.name)
	ps := s.takePanics()
	sent := renderArgs(args)
	c.Log("valid", "%s -> %s", sent, o.text())
	c.Count("valid_commands", 1)
	shape := tp.name + "-valid"
	s.invalidate()
	if s.reportPanics(ps, shape, "the valid command "+sent) {
		if hasProcPanic(ps) {
			s.restart(false, "after-apply-panic")
			s.takePanics()
		}
		return
	}
	if !done {
		s.violate("command-hangs", "hang:"+cmdKey(shape), "no answer to the valid command %s within 150 fair rounds", sent)
		return
	}
	if o.connPanic {
		c.Probe("conn_closed_by_recover")
		s.violate("conn-panic", "connpanic:"+cmdKey(shape), "the connection was closed without a reply on the valid command %s", sent)
		return
	}
	s.noteHLL(args, !o.isErr && !o.noReply)
	if o.noReply {
		c.Count("nothing_written."+tp.name, 1)
	}
	if o.isErr {
		c.Count("valid_commands_error_reply", 1)
	}
	if o.isErr || tp.class == 'r' || tp.class == 'm' || tp.class == 'x' {
		if ch := diffRaw(r0, s.rawSnap()); ch != "" {
			rule, k := "error-changed-state", "partial:"
			if !o.isErr {
				rule, k = "read-changed-state", "readwrite:"
			}
			s.violate(rule, k+shape, "%s -> %s, yet the store changed: %s", sent, o.text(), ch)
		}
	}
}

type member struct {
	args  []string
	bargs [][]byte
	valid bool
	key   string
	call  *call
	o     outcome
}

// stepBatch: a mutated command between valid neighbours inside one raft
// Ready, applied by one applyAll (the neighbours "set", "setex", "del" and
// "hmset" share the store's write batch).
func (s *sim) stepBatch() {
	c, t := s.c, s.t
	as, tags, tp := s.drawMutated(true)
	shape := shapeOf(as, tags)
	if s.hitShapes[shape] {
		c.Count("suppressed_repeat_of_hit_shape", 1)
		return
	}
	if knownOOM(toBytes(as)) {
		c.Count("skipped_known_unbounded_allocation_shape", 1)
		return
	}
	s.addWatch(as)
	K := func(n string) string { return fullKey(mainTable, n) }
	neighbour := func(typ string) member {
		var a []string
		switch typ {
		case "s":
			a = [][]string{{"set", K("rs0"), s.newVal()}, {"del", K("rs0")}, {"append", K("rs0"), s.newVal()}}[t.Choose(3)]
		case "x":
			a = [][]string{{"setex", K("rx0"), "100000", s.newVal()}, {"del", K("rx0")}}[t.Choose(2)]
		case "h":
			a = [][]string{{"hmset", K("rh0"), s.g.pick(fieldPool), s.newVal(), "g", s.newVal()}, {"hset", K("rh0"), s.g.pick(fieldPool), s.newVal()}}[t.Choose(2)]
		case "c":
			a = []string{"incr", K("rc0")}
		case "l":
			a = []string{"rpush", K("rl0"), s.newVal()}
		case "e":
			a = []string{"sadd", K("re0"), s.newVal()}
		default:
			a = []string{"zadd", K("rz0"), "1", s.newVal()}
		}
		return member{args: a, valid: true, key: a[1]}
	}
	// distinct keys, batchable neighbours first in the draw order
	order := []string{"s", "x", "h", "c", "l", "e", "z"}
	for i := len(order) - 1; i > 0; i-- {
		j := t.Choose(i + 1)
		order[i], order[j] = order[j], order[i]
	}
	nb := 1 + t.Choose(2)
	na := t.Choose(3)
	var ms []member
	ms = append(ms, member{args: []string{"set", K("pr0"), s.newVal()}, valid: true, key: K("pr0")}) // primer: applied alone
	for i := 0; i < nb; i++ {
		ms = append(ms, neighbour(order[i]))
	}
	mutIdx := len(ms)
	margs := toBytes(as)
	ms = append(ms, member{bargs: margs})
	for i := 0; i < na; i++ {
		ms = append(ms, neighbour(order[nb+i]))
	}
	s.quiesce()
	d0 := s.base
	s.mu.Lock()
	s.maxBatch = 0
	s.lastApplied = s.applied()
	snap0 := s.snapHits
	s.mu.Unlock()
	ap0 := s.applied()
	rel, parked := s.cl.Arm("raft.ready.begin", 0, 0)
	for i := range ms {
		if ms[i].valid {
			ms[i].bargs = make([][]byte, len(ms[i].args))
			for j, a := range ms[i].args {
				ms[i].bargs[j] = []byte(a)
			}
		}
		if liveJournal {
			fmt.Fprintf(core.Stdout, "fuzzsim: sending (batch) %s\n", renderArgs(ms[i].bargs))
		}
		ms[i].call = invoke(s.m, cmdOf(ms[i].bargs), nil)
	}
	wasParked := parked()
	rel()
	synctest.Wait()
	allDone := func() bool {
		for i := range ms {
			if !ms[i].call.isDone() {
				return false
			}
		}
		return true
	}
	for r := 0; r < 150 && !allDone(); r++ {
		s.cl.PumpFair(1, nil)
	}
	s.cl.Sleep(time.Duration(2*len(ms)) * time.Millisecond)
	s.flushHLL()
	ps := s.takePanics()
	s.invalidate()
	sent := renderArgs(margs)
	name := string(margs[0])
	for i := range ms {
		n := name
		if ms[i].valid {
			n = ms[i].args[0]
		}
		ms[i].o = classify(ms[i].call, ms[i].call.isDone(), n)
	}
	mo := ms[mutIdx].o
	s.nMut++
	s.nBatchMut++
	c.Count("family."+familyOf(name), 1)
	var line []string
	for i := range ms {
		line = append(line, fmt.Sprintf("%s -> %s", renderArgs(ms[i].bargs), ms[i].o.text()))
	}
	s.mu.Lock()
	maxBatch := s.maxBatch
	snapFired := s.snapHits > snap0
	s.mu.Unlock()
	c.Log("batch", "[%s] parked=%v maxentries=%d: %s", shape, wasParked, maxBatch, strings.Join(line, " ;; "))
	s.sample(fmt.Sprintf("BATCH(%d cmds) %s  [%s] -> %s", len(ms), sent, strings.Join(tags, "+"), mo.text()))
	if mo.isErr {
		s.nErr++
	}
	if s.reportPanics(ps, shape, sent) && hasProcPanic(ps) {
		s.hitShapes[shape] = true
		if s.restart(false, "after-apply-panic") {
			if ps2 := s.takePanics(); len(ps2) > 0 {
				c.Probe("poisoned_entry_panics_again_on_replay")
			}
		}
		return
	}
	if !allDone() {
		s.violate("command-hangs", "hang:"+cmdKey(shape), "a batch containing %s: some command got no answer within 150 fair rounds: %s", sent, strings.Join(line, " ;; "))
		s.hitShapes[shape] = true
		return
	}
	if mo.connPanic {
		if !hasConnPanic(ps) {
			c.Probe("conn_closed_by_recover")
			s.violate("conn-panic", "connpanic:"+cmdKey(shape), "the connection was closed without a reply on %s", sent)
		}
		s.hitShapes[shape] = true
	}
	merr := mo.isErr || mo.noReply
	s.noteHLL(margs, !merr)
	moved := s.applied() - ap0
	if merr && isBatchable(name) && moved >= uint64(len(ms)) {
		s.batchAbortHazard = true
	}
	if maxBatch >= 2 {
		c.Probe("multi_entry_apply_batch")
		if merr && moved >= uint64(len(ms)) {
			// every command, the erroring one included, went through raft
			c.Probe("error_in_batch_with_valid_neighbours")
			if snapFired {
				c.Probe("error_before_snapshot")
			}
		}
	}
	// ---- oracle: sequential model over the commands that did not error ----
	exp := d0.clone()
	unknown := false
	nbKeys := map[string]bool{}
	for i := range ms {
		mb := &ms[i]
		if !mb.valid {
			if !merr {
				unknown = true
				s.nAccepted++
			}
			continue
		}
		nbKeys[mb.key] = true
		if mb.o.noReply {
			s.violate("node-stuck", "next:"+cmdKey(shape), "valid command %s in a batch with %s gets %s", renderStrs(mb.args), sent, mb.o.text())
			s.hitShapes[shape] = true
			return
		}
		if mb.o.isErr {
			c.Probe("valid_neighbour_got_error_in_batch")
			s.batchAbortHazard = true
			continue
		}
		st, ok := modelFrom(exp, mb.key)
		if !ok {
			unknown = true
			continue
		}
		want, ttlSet := modelApply(st, mb.args)
		if !model.Equal(mb.o.replies[0], want) {
			s.violate("next-command-differs", "next:"+cmdKey(shape), "in one apply batch with %s -> %s, the valid command %s answers %s, the reference model says %s (batch: %s)",
				sent, mo.text(), renderStrs(mb.args), mb.o.text(), fmtReply(want), strings.Join(line, " ;; "))
			s.hitShapes[shape] = true
		}
		applyToDump(exp, st, mb.key)
		_ = ttlSet
	}
	d1 := s.dump()
	for k := range nbKeys {
		relaxKey(exp, d1, k)
	}
	if unknown {
		// the mutated command was accepted: only the neighbours' keys are predictable
		for k := range exp.text {
			i := strings.Index(k, " ")
			if !nbKeys[k[i+1:]] {
				exp.text[k] = d1.text[k]
			}
		}
	}
	if df := diffDump(exp, d1); df != "" {
		s.violate("batch-state-differs", "leak:"+cmdKey(shape), "one apply batch (%s): the state differs from what the commands that answered without error produce in the reference model (expected -> found): %s", strings.Join(line, " ;; "), df)
		s.hitShapes[shape] = true
	}
	if st := s.store(); (st.VerifDefaultBatchPending() != 0 || st.VerifIsBatching()) && !noWhiteBox {
		s.violate("batch-not-empty", "leak:"+cmdKey(shape), "after the apply batch (%s) the shared write batch holds %d operation(s) (batching=%v)", strings.Join(line, " ;; "), st.VerifDefaultBatchPending(), st.VerifIsBatching())
		s.hitShapes[shape] = true
	}
	s.base, s.baseR = d1, s.rawSnap()
	// restart after an erroring write inside a batch
	cls := classOf(name)
	if merr && (cls == 'w' || cls == 'M' || tp == nil) && t.Bool(s.restartProb(moved >= uint64(len(ms)), snapFired)) {
		graceful := t.Bool(s.cfg.graceful)
		c.Probe("restart_after_error")
		c.Probe("restart_after_error_in_batch")
		if !s.restart(graceful, "after-error-in-batch") {
			return
		}
		if ps := s.takePanics(); len(ps) > 0 {
			s.reportPanics(ps, shape, sent)
		}
		d2 := s.dump()
		if df := s.diffRestart(d1, d2); df != "" {
			s.violate("replay-diverged", s.replayKey(name, moved >= uint64(len(ms))), "apply batch (%s); after a restart (graceful=%v) the node serves different data: %s", strings.Join(line, " ;; "), graceful, df)
			s.hitShapes[shape] = true
		}
		s.base, s.baseR = d2, s.rawSnap()
	}
	if t.Bool(s.cfg.nextPm) {
		s.nextValid(nil, "the batch with "+sent+" -> "+mo.text(), shape, merr)
	}
}

// stepPipeline: a client pipelines SETs on one connection; the server folds
// them into one PLSET (server/util.go pipelineCommand). One of them may be
// mutated.
func (s *sim) stepPipeline() {
	c, t := s.c, s.t
	n := 2 + t.Choose(3)
	mut := t.Choose(n + 1) // n = none mutated
	var cmds [][][]byte
	shape := "set-pipeline"
	for i := 0; i < n; i++ {
		as := []arg{{kName, "set"}, {kKey, s.g.key("s")}, {kVal, s.newVal()}}
		if i == mut {
			var tags []string
			as, tags = s.g.mutate(as, c.Tier)
			shape = "set-pipeline-" + strings.Join(tags, "+")
			s.addWatch(as)
		}
		cmds = append(cmds, toBytes(as))
	}
	if s.hitShapes[shape] {
		return
	}
	s.quiesce()
	r0 := s.baseR
	var pipe []redcon.Command
	for _, a := range cmds[1:] {
		pipe = append(pipe, cmdOf(a))
	}
	call, done := s.send(cmds[0], pipe)
	o := classify(call, done, "set")
	ps := s.takePanics()
	var parts []string
	for _, a := range cmds {
		parts = append(parts, renderArgs(a))
	}
	sent := "pipeline{" + strings.Join(parts, " ; ") + "}"
	c.Log("pipe", "%s [%s] -> %s", sent, shape, o.text())
	c.Count("pipelines", 1)
	s.invalidate()
	if s.reportPanics(ps, shape, sent) {
		s.hitShapes[shape] = true
		if hasProcPanic(ps) {
			s.restart(false, "after-apply-panic")
			s.takePanics()
		}
		return
	}
	if !done {
		s.violate("command-hangs", "hang:"+cmdKey(shape), "no answer to %s within 150 fair rounds", sent)
		s.hitShapes[shape] = true
		return
	}
	if call.conn.closed && len(o.replies) < n && !hasConnPanic(ps) {
		c.Probe("conn_closed_by_recover")
		s.violate("conn-panic", "connpanic:"+cmdKey(shape), "the connection handler panicked on %s (connection closed after %d of %d replies)", sent, len(o.replies), n)
		s.hitShapes[shape] = true
	}
	if o.isErr {
		if ch := diffRaw(r0, s.rawSnap()); ch != "" {
			s.violate("error-changed-state", "partial:"+cmdKey(shape), "%s -> %s (every reply an error), yet the store changed: %s", sent, o.text(), ch)
			s.hitShapes[shape] = true
		}
	}
	if st := s.store(); (st.VerifDefaultBatchPending() != 0 || st.VerifIsBatching()) && !noWhiteBox {
		s.violate("batch-not-empty", "leak:"+cmdKey(shape), "after %s the shared write batch holds %d operation(s)", sent, st.VerifDefaultBatchPending())
	}
	if t.Bool(s.cfg.nextPm) {
		s.nextValid(nil, sent+" -> "+o.text(), shape, o.isErr)
	}
}

func (s *sim) finalLiveness() {
	k := fullKey(mainTable, "rs0")
	r, ok := s.doValid([]string{"set", k, "final"})
	if ps := s.takePanics(); len(ps) > 0 {
		s.reportPanics(ps, "", "set (final liveness)")
	}
	if !ok || fmtReply(r) != "+OK" {
		s.violate("node-stuck", "", "at the end of the run the node does not execute a plain SET: %s (answered=%v)", fmtReply(r), ok)
		return
	}
	r, ok = s.doValid([]string{"get", k})
	if !ok || fmtReply(r) != `"final"` {
		s.violate("node-stuck", "", "at the end of the run GET after SET returns %s (answered=%v)", fmtReply(r), ok)
	}
}

var _ = nodeh.NS

// relaxKey: the reference model predicts the five core reads of the key a
// valid command touched; what the other reads (legacy bitcount over a string,
// json, ttl whose visibility depends on the expiration policy) say about that
// same key is taken from the implementation.
func relaxKey(exp, actual *dumpT, key string) {
	for _, rd := range otherReads {
		exp.text[entryName(rd, key)] = actual.text[entryName(rd, key)]
	}
	for _, rd := range ttlReads {
		exp.text[rd+" "+key] = actual.text[rd+" "+key]
	}
}
